#![allow(dead_code)]
//! Runs the C20 fold cases of ../../src/c20.rs under Miri (no sockets, no child processes).
#[path = "../../src/prng.rs"]
mod prng;
#[path = "../../src/provider.rs"]
mod provider;
#[path = "../../src/report.rs"]
mod report;
#[path = "../../src/c20.rs"]
mod c20;

fn main() {
    std::process::exit(c20::miri_main());
}
