//! Shared operation vocabulary over the continuity store (used by C01–C05, C08–C10).
//!
//! Every op carries a unique payload token (tag + counter) so histories are unambiguous, and
//! reports the frame ids the store acknowledged.

use crate::fixture::App;
use crate::prng::Rng;
use ripd::{
    CompactionAutoScheduleV1Request, CompactionAutoV1Request, CompactionCheckpointCumulativeV1Request,
    ContinuityRunLink, ProviderCursorRotateV1Request, ToolSideEffects,
};
use std::path::Path;

#[derive(Clone, Copy, Debug, PartialEq, Eq, Hash)]
pub enum OpKind {
    Msg,
    BigMsg,
    /// a frame larger than any internal read window (64 KiB backward-scan chunks, 8 KiB scan chunks)
    HugeMsg,
    RunSpawned,
    RunEnded,
    SideEffects,
    Cursor,
    Rotate,
    ManualCkpt,
    Auto,
    Schedule,
    Compile,
    Branch,
    Handoff,
}

pub const ALL_KINDS: &[OpKind] = &[
    OpKind::Msg,
    OpKind::BigMsg,
    OpKind::HugeMsg,
    OpKind::RunSpawned,
    OpKind::RunEnded,
    OpKind::SideEffects,
    OpKind::Cursor,
    OpKind::Rotate,
    OpKind::ManualCkpt,
    OpKind::Auto,
    OpKind::Schedule,
    OpKind::Compile,
    OpKind::Branch,
    OpKind::Handoff,
];

/// Default weights: mostly messages / runs, some of everything else.
pub fn default_weights() -> Vec<(OpKind, u64)> {
    vec![
        (OpKind::Msg, 30),
        (OpKind::BigMsg, 2),
        (OpKind::HugeMsg, 1),
        (OpKind::RunSpawned, 10),
        (OpKind::RunEnded, 10),
        (OpKind::SideEffects, 12),
        (OpKind::Cursor, 6),
        (OpKind::Rotate, 2),
        (OpKind::ManualCkpt, 4),
        (OpKind::Auto, 3),
        (OpKind::Schedule, 3),
        (OpKind::Compile, 4),
        (OpKind::Branch, 2),
        (OpKind::Handoff, 2),
    ]
}

pub fn pick_kind(rng: &mut Rng, weights: &[(OpKind, u64)]) -> OpKind {
    let total: u64 = weights.iter().map(|w| w.1).sum();
    let mut x = rng.below(total.max(1));
    for (k, w) in weights {
        if x < *w {
            return *k;
        }
        x -= *w;
    }
    weights[0].0
}

/// What one actor knows about the store (its own view; shared continuity ids are passed in).
#[derive(Default, Clone, Debug)]
pub struct Known {
    pub msgs: Vec<(String, String)>,         // (continuity, message id)
    pub open_runs: Vec<(String, String, String)>, // (continuity, message id, session id)
    pub counter: u64,
    /// (continuity, message id) of every acknowledged manual checkpoint, in posting order; a message
    /// appears once per checkpoint posted for it (cut points may be summarised more than once)
    pub ckpt_msgs: Vec<(String, String)>,
}

#[derive(Clone, Debug, Default)]
pub struct ExecResult {
    pub kind: Option<OpKind>,
    pub cont: String,
    pub ok: bool,
    pub acked: Vec<String>,
    pub new_conts: Vec<String>,
    pub desc: String,
}

pub fn token(tag: &str, known: &mut Known) -> String {
    known.counter += 1;
    format!("{tag}#{}", known.counter)
}

#[allow(clippy::too_many_arguments)]
pub fn exec(
    app: &App,
    data_dir: &Path,
    conts: &[String],
    known: &mut Known,
    kind: OpKind,
    rng: &mut Rng,
    tag: &str,
) -> ExecResult {
    let store = app.store();
    let cont = conts[rng.usize(conts.len())].clone();
    let mut res = ExecResult {
        kind: Some(kind),
        cont: cont.clone(),
        ..Default::default()
    };
    let actor = format!("actor-{tag}");
    let origin = "rv".to_string();
    match kind {
        OpKind::Msg | OpKind::BigMsg | OpKind::HugeMsg => {
            let mut content = token(tag, known);
            if kind == OpKind::HugeMsg {
                let n = 70_000 + rng.usize(230_000);
                content.push(' ');
                content.push_str(&rng.ascii(n));
            } else if kind == OpKind::BigMsg {
                // larger than the 8 KiB writer buffer
                let n = 8192 + rng.usize(6000);
                content.push(' ');
                content.push_str(&rng.ascii(n));
            } else if rng.chance(1, 4) {
                content.push(' ');
                let n = rng.usize(40);
                content.push_str(&rng.unicode(n));
            }
            match store.append_message(&cont, actor, origin, content.clone()) {
                Ok(id) => {
                    known.msgs.push((cont.clone(), id.clone()));
                    res.ok = true;
                    res.acked.push(id);
                }
                Err(e) => res.desc = e,
            }
        }
        OpKind::RunSpawned => {
            let Some((c, m)) = pick_msg(known, &cont, rng) else {
                return fallback_msg(app, data_dir, conts, known, rng, tag);
            };
            let session = format!("sess-{}", token(tag, known));
            match store.append_run_spawned(&c, &m, &session, actor, origin) {
                Ok(id) => {
                    known.open_runs.push((c.clone(), m, session));
                    res.cont = c;
                    res.ok = true;
                    res.acked.push(id);
                }
                Err(e) => res.desc = e,
            }
        }
        OpKind::RunEnded => {
            if known.open_runs.is_empty() {
                return fallback_msg(app, data_dir, conts, known, rng, tag);
            }
            let i = rng.usize(known.open_runs.len());
            let (c, m, s) = known.open_runs.remove(i);
            match store.append_run_ended(&c, &m, &s, "completed".to_string(), actor, origin) {
                Ok(id) => {
                    res.cont = c;
                    res.ok = true;
                    res.acked.push(id);
                }
                Err(e) => res.desc = e,
            }
        }
        OpKind::SideEffects => {
            let Some((c, m)) = pick_msg(known, &cont, rng) else {
                return fallback_msg(app, data_dir, conts, known, rng, tag);
            };
            let link = ContinuityRunLink {
                continuity_id: c.clone(),
                message_id: m,
                actor_id: actor,
                origin,
            };
            let t = token(tag, known);
            let eff = ToolSideEffects {
                tool_id: format!("tool-{t}"),
                tool_name: ["write", "apply_patch", "bash"][rng.usize(3)].to_string(),
                affected_paths: if rng.bool() { Some(vec![format!("f-{t}.txt")]) } else { None },
                checkpoint_id: if rng.bool() { Some(format!("ck-{t}")) } else { None },
            };
            match store.append_tool_side_effects(&link, &format!("sess-{t}"), eff) {
                Ok(id) => {
                    res.cont = c;
                    res.ok = true;
                    res.acked.push(id);
                }
                Err(e) => res.desc = e,
            }
        }
        OpKind::Cursor => {
            let t = token(tag, known);
            let provider = ["openresponses", "other"][rng.usize(2)].to_string();
            let endpoint = [None, Some("http://e1".to_string()), Some("http://e2".to_string())]
                [rng.usize(3)]
            .clone();
            let model = [None, Some("m1".to_string()), Some("m2".to_string())][rng.usize(3)].clone();
            match store.verif_append_provider_cursor_updated(
                &cont,
                provider,
                endpoint,
                model,
                Some(serde_json::json!({"previous_response_id": format!("resp-{t}")})),
                "set".to_string(),
                None,
                Some(format!("sess-{t}")),
                actor,
                origin,
            ) {
                Ok(id) => {
                    res.ok = true;
                    res.acked.push(id);
                }
                Err(e) => res.desc = e,
            }
        }
        OpKind::Rotate => {
            let req = ProviderCursorRotateV1Request {
                provider: None,
                endpoint: None,
                model: None,
                reason: Some(token(tag, known)),
                actor_id: actor,
                origin,
            };
            match store.provider_cursor_rotate_v1(&cont, req) {
                Ok(r) => {
                    res.ok = true;
                    if let Some(id) = r.cursor_event_id {
                        if r.rotated {
                            res.acked.push(id);
                        }
                    }
                }
                Err(e) => res.desc = e,
            }
        }
        OpKind::ManualCkpt => {
            let Some((c, m)) = pick_ckpt_target(known, &cont, rng) else {
                return fallback_msg(app, data_dir, conts, known, rng, tag);
            };
            let req = CompactionCheckpointCumulativeV1Request {
                summary_markdown: Some(format!("summary {}", token(tag, known))),
                summary_artifact_id: None,
                to_message_id: Some(m),
                to_seq: None,
                stride_messages: None,
                actor_id: actor,
                origin,
            };
            match store.compaction_checkpoint_cumulative_v1(&c, req) {
                Ok((id, _, _, to_message_id, _)) => {
                    known.ckpt_msgs.push((c.clone(), to_message_id));
                    res.cont = c;
                    res.ok = true;
                    res.acked.push(id);
                }
                Err(e) => res.desc = e,
            }
        }
        OpKind::Auto => {
            let req = CompactionAutoV1Request {
                stride_messages: Some(rng.range(1, 5)),
                max_new_checkpoints: Some(rng.range(1, 3) as u32),
                dry_run: Some(rng.chance(1, 5)),
                actor_id: actor,
                origin,
            };
            match store.compaction_auto_v1(&cont, req) {
                Ok(r) => {
                    res.ok = true;
                    for c in r.result {
                        res.acked.push(c.checkpoint_id);
                    }
                    res.desc = r.status;
                }
                Err(e) => res.desc = e,
            }
        }
        OpKind::Schedule => {
            let req = CompactionAutoScheduleV1Request {
                stride_messages: Some(rng.range(1, 5)),
                max_new_checkpoints: Some(rng.range(1, 3) as u32),
                block_on_inflight: Some(rng.bool()),
                execute: Some(rng.chance(3, 4)),
                dry_run: Some(rng.chance(1, 5)),
                actor_id: actor,
                origin,
            };
            match store.compaction_auto_schedule_v1(&cont, req) {
                Ok(r) => {
                    res.ok = true;
                    if let Some(d) = r.decision_id {
                        if r.decision != "dry_run" && r.decision != "noop" {
                            res.acked.push(d);
                        }
                    }
                    for c in r.result {
                        res.acked.push(c.checkpoint_id);
                    }
                    res.desc = r.decision;
                }
                Err(e) => res.desc = e,
            }
        }
        OpKind::Compile => {
            let Some((c, m)) = pick_msg(known, &cont, rng) else {
                return fallback_msg(app, data_dir, conts, known, rng, tag);
            };
            let link = ContinuityRunLink {
                continuity_id: c.clone(),
                message_id: m,
                actor_id: actor,
                origin,
            };
            let sess = format!("sess-{}", token(tag, known));
            match ripd::verif_export::compile_context_for_run(&app.engine, data_dir, &link, &sess, true) {
                Ok(_) => {
                    res.cont = c;
                    res.ok = true;
                }
                Err(e) => res.desc = e,
            }
        }
        OpKind::Branch => {
            let (from_message_id, from_seq) = selector(known, &cont, rng);
            match store.branch(&cont, Some(token(tag, known)), from_message_id, from_seq, actor, origin) {
                Ok((child, _, _)) => {
                    res.ok = true;
                    res.new_conts.push(child);
                }
                Err(e) => res.desc = e,
            }
        }
        OpKind::Handoff => {
            let (from_message_id, from_seq) = selector(known, &cont, rng);
            let summary = (Some(format!("handoff summary {}", token(tag, known))), None);
            match store.handoff(
                &cont,
                Some(token(tag, known)),
                summary,
                from_message_id,
                from_seq,
                (actor, origin),
            ) {
                Ok((child, _, _)) => {
                    res.ok = true;
                    res.new_conts.push(child);
                }
                Err(e) => res.desc = e,
            }
        }
    }
    res
}

fn pick_msg(known: &Known, cont: &str, rng: &mut Rng) -> Option<(String, String)> {
    let mine: Vec<&(String, String)> = known.msgs.iter().filter(|(c, _)| c == cont).collect();
    if !mine.is_empty() {
        // bias to recent
        let n = mine.len();
        let i = if rng.bool() { n - 1 - rng.usize(n.min(3)) } else { rng.usize(n) };
        return Some(mine[i].clone());
    }
    if known.msgs.is_empty() {
        None
    } else {
        Some(known.msgs[rng.usize(known.msgs.len())].clone())
    }
}

/// Target of a manual checkpoint. Nothing forbids summarising a cut point again (a corrected summary
/// replacing a first attempt) or posting checkpoints in any order of cut points, so histories contain
/// both: about a third of the checkpoints go to a message that has one already, some go to a message
/// EARLIER than the one checkpointed last (decreasing `to_seq` in stream order), the rest to any message
/// (recent ones preferred).
fn pick_ckpt_target(known: &Known, cont: &str, rng: &mut Rng) -> Option<(String, String)> {
    let done: Vec<&(String, String)> = known.ckpt_msgs.iter().filter(|(c, _)| c == cont).collect();
    if !done.is_empty() {
        match rng.below(12) {
            // the cut point checkpointed last, again (adjacent or nearly adjacent frames)
            0 | 1 => return Some((*done.last().unwrap()).clone()),
            // any cut point checkpointed before, again (frames far apart in the stream)
            2 | 3 => return Some(done[rng.usize(done.len())].clone()),
            // an earlier message than the one checkpointed last
            4 | 5 => {
                let last = done.last().unwrap();
                let mine: Vec<&(String, String)> = known.msgs.iter().filter(|(c, _)| c == cont).collect();
                if let Some(pos) = mine.iter().position(|m| m.1 == last.1) {
                    if pos > 0 {
                        return Some(mine[rng.usize(pos)].clone());
                    }
                }
            }
            _ => {}
        }
    }
    pick_msg(known, cont, rng)
}

fn selector(known: &Known, cont: &str, rng: &mut Rng) -> (Option<String>, Option<u64>) {
    match rng.below(3) {
        0 => (None, None),
        1 => (None, Some(rng.below(3))),
        _ => match pick_msg(known, cont, rng) {
            Some((c, m)) if c == cont => (Some(m), None),
            _ => (None, None),
        },
    }
}

fn fallback_msg(
    app: &App,
    data_dir: &Path,
    conts: &[String],
    known: &mut Known,
    rng: &mut Rng,
    tag: &str,
) -> ExecResult {
    exec(app, data_dir, conts, known, OpKind::Msg, rng, tag)
}
