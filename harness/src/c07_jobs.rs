//! C07, background-job part — "a background job is ended at most once, whatever the provider or the
//! tools do", judged for jobs that FAIL, overlap, or run on a damaged store.
//!
//! Workload: one thread (plus a branch thread) with enough messages for several cut points; compaction
//! jobs are started through every entry point (POST compaction-auto, POST compaction-auto-schedule with
//! execute true/false, store API `compaction_auto_v1` / `compaction_auto_schedule_v1`), one after the
//! other or 2–4 at once (same / different strides, same / different thread), while a fault is active:
//!   * the summary artifact store is unusable (`<ws>/.rip/artifacts` or `…/blobs` is a regular file), from
//!     the start or from the n-th written summary on (= between two cuts of a running job),
//!   * the blob directory disappears between the temp write and the rename of a summary,
//!   * the workspace directory is removed / replaced by a regular file,
//!   * the thread's cache files (`continuity_streams/<thread>.*`) are truncated / garbled / rolled back /
//!     replaced by another thread's copy (c04 fault vocabulary), before the call or while the job runs,
//!   * a burst of messages is appended to the thread while the job runs,
//!   * seeded delays at log.append.* / cont.cache.* / artifact.* / cache.*.written,
//!   * no fault at all (baseline).
//! After every round the fault is undone, new messages are appended and one more job is run.
//!
//! Oracle (offline, raw events.jsonl through truth.rs): for every job id — exactly one
//! continuity_job_spawned, at most one continuity_job_ended, the ended frame after the spawned frame and
//! on the same thread, no frame naming the job after its ended frame, every checkpoint whose summary
//! artifact names the job as producer lies between the two frames, and a store-API call that reported
//! "completed" has its completed frame. A job without a terminal frame is only counted (the statement
//! says "at most once").

use crate::c04::{apply_fault, Fault as CacheFault, FaultKind, FAULT_KINDS, FILES, FILE_CLASS};
use crate::fixture::{copy_dir, wait_for, App, Store};
use crate::prng::Rng;
use crate::report::{Cfg, Report, Tier};
use crate::sched::Sched;
use crate::truth;
use ripd::{CompactionAutoScheduleV1Request, CompactionAutoV1Request};
use serde_json::{json, Value};
use std::collections::{BTreeMap, HashMap};
use std::path::{Path, PathBuf};
use std::sync::atomic::{AtomicBool, AtomicU64, Ordering};
use std::sync::{Arc, Barrier, Mutex};
use std::time::{Duration, Instant};

// ------------------------------------------------------------------------------------------------
// case description

#[derive(Clone, Copy, Debug, PartialEq, Eq)]
pub enum Entry {
    HttpAuto,
    HttpSchedule,
    ApiAuto,
    ApiSchedule,
}

const ENTRIES: [Entry; 4] = [Entry::HttpAuto, Entry::HttpSchedule, Entry::ApiAuto, Entry::ApiSchedule];

impl Entry {
    fn name(&self) -> &'static str {
        match self {
            Entry::HttpAuto => "http_compaction_auto",
            Entry::HttpSchedule => "http_compaction_auto_schedule",
            Entry::ApiAuto => "api_compaction_auto_v1",
            Entry::ApiSchedule => "api_compaction_auto_schedule_v1",
        }
    }
    fn is_http(&self) -> bool {
        matches!(self, Entry::HttpAuto | Entry::HttpSchedule)
    }
    fn is_schedule(&self) -> bool {
        matches!(self, Entry::HttpSchedule | Entry::ApiSchedule)
    }
}

#[derive(Clone, Debug)]
struct CacheHit {
    file: usize,
    kind: FaultKind,
    salt: u64,
}

#[derive(Clone, Debug)]
enum FaultSpec {
    None,
    /// `<ws>/.rip/artifacts` is a regular file
    ArtifactsNotDir,
    /// `<ws>/.rip/artifacts/blobs` is a regular file
    BlobsNotDir,
    /// … from the n-th summary written in this round on (the running job fails at its next cut)
    BlobsNotDirBetweenCuts(u64),
    /// the blob directory is moved away between the temp write and the rename of the n-th summary
    BlobsGoneBeforeFinalize(u64),
    WorkspaceRemoved,
    WorkspaceNotDir,
    /// cache files of the thread damaged before the call (`mid_job` = at the first written summary)
    CacheDamaged { hits: Vec<CacheHit>, mid_job: bool },
    /// k messages appended to the thread while the calls run
    MessageBurst(usize),
}

impl FaultSpec {
    /// fault class used in signatures (no random parts)
    fn class(&self) -> String {
        match self {
            FaultSpec::None => "no_fault".into(),
            FaultSpec::ArtifactsNotDir => "artifacts_dir_is_a_file".into(),
            FaultSpec::BlobsNotDir => "blobs_dir_is_a_file".into(),
            FaultSpec::BlobsNotDirBetweenCuts(_) => "blobs_dir_becomes_a_file_between_cuts".into(),
            FaultSpec::BlobsGoneBeforeFinalize(_) => "blobs_dir_removed_before_summary_rename".into(),
            FaultSpec::WorkspaceRemoved => "workspace_removed".into(),
            FaultSpec::WorkspaceNotDir => "workspace_is_a_file".into(),
            FaultSpec::CacheDamaged { hits, mid_job } => {
                let mut groups: Vec<&'static str> = hits.iter().map(|h| h.kind.group()).collect();
                groups.sort();
                groups.dedup();
                format!("cache_{}{}", groups.join("+"), if *mid_job { "_while_job_runs" } else { "" })
            }
            FaultSpec::MessageBurst(_) => "message_burst_while_job_runs".into(),
        }
    }
    fn describe(&self) -> Value {
        match self {
            FaultSpec::BlobsNotDirBetweenCuts(n) => json!({"class": self.class(), "after_summary_no": n}),
            FaultSpec::BlobsGoneBeforeFinalize(n) => json!({"class": self.class(), "at_summary_no": n}),
            FaultSpec::CacheDamaged { hits, mid_job } => json!({
                "class": self.class(), "while_job_runs": mid_job,
                "files": hits.iter().map(|h| format!("{}:{:?}", FILE_CLASS[h.file], h.kind)).collect::<Vec<_>>(),
            }),
            FaultSpec::MessageBurst(k) => json!({"class": self.class(), "messages": k}),
            _ => json!({"class": self.class()}),
        }
    }
}

#[derive(Clone, Debug)]
struct Call {
    entry: Entry,
    /// 0 = the main thread, 1 = the branch thread
    thread: usize,
    stride: u64,
    max_new: u32,
    execute: bool,
    block: bool,
    /// HTTP only: leave actor/origin empty (the route fills its defaults)
    blank_provenance: bool,
}

impl Call {
    fn describe(&self) -> Value {
        json!({"entry": self.entry.name(), "thread": self.thread, "stride": self.stride, "max_new": self.max_new,
               "execute": self.execute, "block_on_inflight": self.block})
    }
}

#[derive(Clone, Debug)]
struct Round {
    add_messages: usize,
    fault: FaultSpec,
    calls: Vec<Call>,
    concurrent: bool,
    /// after the fault is undone: drop the app and open the store again before the follow-up job
    restart_before_followup: bool,
    /// after a cache fault: remove all cache files of the thread (instead of leaving them to self-heal)
    wipe_caches_on_restore: bool,
    followup: Call,
}

pub struct JobCase {
    idx: u64,
    kind: &'static str,
    messages: usize,
    branch_messages: usize,
    noise_us: u64,
    rounds: Vec<Round>,
}

fn directed_faults() -> Vec<FaultSpec> {
    vec![
        FaultSpec::None,
        FaultSpec::ArtifactsNotDir,
        FaultSpec::BlobsNotDir,
        FaultSpec::BlobsNotDirBetweenCuts(1),
        FaultSpec::BlobsGoneBeforeFinalize(1),
        FaultSpec::BlobsGoneBeforeFinalize(2),
        FaultSpec::WorkspaceNotDir,
        FaultSpec::WorkspaceRemoved,
    ]
}

const DIRECTED_CONCURRENT: u64 = 4;

pub fn directed_cases() -> u64 {
    directed_faults().len() as u64 + DIRECTED_CONCURRENT
}

fn plain_call(entry: Entry, stride: u64, max_new: u32) -> Call {
    Call { entry, thread: 0, stride, max_new, execute: true, block: false, blank_provenance: false }
}

/// One case per fault class: four rounds, one per entry point, each a job of three cuts under the fault and
/// one more job after the fault is undone; then four overlapping rounds.
fn directed_case(idx: u64) -> JobCase {
    let faults = directed_faults();
    let single = faults.len() as u64;
    if idx < single {
        let fault = faults[idx as usize].clone();
        let rounds = (0..ENTRIES.len())
            .map(|k| {
                let entry = ENTRIES[(k + idx as usize) % ENTRIES.len()];
                Round {
                    add_messages: if k == 0 { 0 } else { 6 },
                    fault: fault.clone(),
                    calls: vec![plain_call(entry, 2, 3)],
                    concurrent: false,
                    restart_before_followup: false,
                    wipe_caches_on_restore: false,
                    followup: plain_call(entry, 2, 1),
                }
            })
            .collect();
        return JobCase { idx, kind: "directed", messages: 8, branch_messages: 2, noise_us: 0, rounds };
    }
    let v = idx - single;
    let (fault, strides): (FaultSpec, [u64; 3]) = match v {
        0 => (FaultSpec::BlobsNotDirBetweenCuts(2), [2, 2, 2]),
        1 => (FaultSpec::BlobsNotDir, [1, 2, 3]),
        2 => (FaultSpec::MessageBurst(8), [2, 2, 3]),
        _ => (
            FaultSpec::CacheDamaged {
                hits: vec![
                    CacheHit { file: 6, kind: FaultKind::Rollback, salt: 11 },
                    CacheHit { file: 3, kind: FaultKind::TruncLine, salt: 12 },
                ],
                mid_job: true,
            },
            [1, 1, 2],
        ),
    };
    let calls = (0..3)
        .map(|k| plain_call(ENTRIES[(v as usize + k) % ENTRIES.len()], strides[k], 3))
        .collect();
    JobCase {
        idx,
        kind: "directed_concurrent",
        messages: 12,
        branch_messages: 2,
        noise_us: 200,
        rounds: vec![Round {
            add_messages: 0,
            fault,
            calls,
            concurrent: true,
            restart_before_followup: false,
            wipe_caches_on_restore: false,
            followup: plain_call(ENTRIES[(v as usize + 3) % ENTRIES.len()], 2, 1),
        }],
    }
}

fn random_fault(rng: &mut Rng) -> FaultSpec {
    match rng.below(16) {
        0 | 1 => FaultSpec::None,
        2 => FaultSpec::ArtifactsNotDir,
        3 => FaultSpec::BlobsNotDir,
        4..=6 => FaultSpec::BlobsNotDirBetweenCuts(1 + rng.below(3)),
        7 | 8 => FaultSpec::BlobsGoneBeforeFinalize(1 + rng.below(3)),
        9 => FaultSpec::WorkspaceRemoved,
        10 => FaultSpec::WorkspaceNotDir,
        11..=13 => {
            let n = 1 + rng.usize(3);
            let hits = (0..n)
                .map(|_| CacheHit {
                    file: rng.usize(FILES.len()),
                    kind: FAULT_KINDS[rng.usize(FAULT_KINDS.len())],
                    salt: rng.next_u64(),
                })
                .collect();
            FaultSpec::CacheDamaged { hits, mid_job: rng.bool() }
        }
        _ => FaultSpec::MessageBurst(2 + rng.usize(10)),
    }
}

fn random_call(rng: &mut Rng, two_threads: bool, stride: Option<u64>) -> Call {
    Call {
        entry: ENTRIES[rng.usize(ENTRIES.len())],
        thread: if two_threads && rng.chance(1, 4) { 1 } else { 0 },
        stride: stride.unwrap_or_else(|| 1 + rng.below(3)),
        max_new: 1 + rng.below(4) as u32,
        execute: !rng.chance(1, 8),
        block: rng.chance(1, 3),
        blank_provenance: rng.chance(1, 3),
    }
}

fn random_case(seed: u64, idx: u64, tier: Tier) -> JobCase {
    let mut rng = Rng::derive(seed ^ 0xC07_10B5, idx);
    let two_threads = rng.chance(1, 3);
    let n_rounds = 2 + rng.usize(tier.pick(3, 5));
    let mut rounds = Vec::new();
    for ri in 0..n_rounds {
        let n_calls = match rng.below(10) {
            0..=3 => 1,
            4..=6 => 2,
            7 | 8 => 3,
            _ => 4,
        };
        let same_stride = if rng.bool() { Some(1 + rng.below(3)) } else { None };
        let calls: Vec<Call> = (0..n_calls).map(|_| random_call(&mut rng, two_threads, same_stride)).collect();
        let mut followup = random_call(&mut rng, false, None);
        followup.execute = true;
        followup.block = false;
        followup.max_new = 1 + rng.below(2) as u32;
        rounds.push(Round {
            add_messages: if ri == 0 { 0 } else { 1 + rng.usize(4) },
            fault: random_fault(&mut rng),
            concurrent: n_calls > 1 && rng.chance(3, 4),
            calls,
            restart_before_followup: rng.chance(1, 6),
            wipe_caches_on_restore: rng.bool(),
            followup,
        });
    }
    JobCase {
        idx,
        kind: "random",
        messages: 4 + rng.usize(tier.pick(11, 37)),
        branch_messages: if two_threads { 3 + rng.usize(6) } else { 2 },
        noise_us: [0u64, 0, 100, 400][rng.usize(4)],
        rounds,
    }
}

pub fn make_case(seed: u64, idx: u64, tier: Tier) -> JobCase {
    if idx < directed_cases() {
        directed_case(idx)
    } else {
        random_case(seed, idx, tier)
    }
}

// ------------------------------------------------------------------------------------------------
// fault mechanics

#[derive(Debug)]
struct Swapped {
    path: PathBuf,
    saved: Option<PathBuf>,
    made_file: bool,
}

static SWAP_NO: AtomicU64 = AtomicU64::new(0);

/// Move whatever is at `path` aside; optionally put a regular file in its place.
fn swap_out(path: &Path, put_file: bool) -> Swapped {
    let n = SWAP_NO.fetch_add(1, Ordering::Relaxed);
    let mut saved = None;
    if std::fs::symlink_metadata(path).is_ok() {
        let name = path.file_name().map(|s| s.to_string_lossy().to_string()).unwrap_or_default();
        let aside = path.with_file_name(format!("{name}.rv-aside-{n}"));
        if std::fs::rename(path, &aside).is_ok() {
            saved = Some(aside);
        }
    }
    let mut made_file = false;
    if put_file {
        if let Some(parent) = path.parent() {
            let _ = std::fs::create_dir_all(parent);
        }
        made_file = std::fs::write(path, b"rv: not a directory").is_ok();
    }
    Swapped { path: path.to_path_buf(), saved, made_file }
}

fn swap_back(sw: Swapped) {
    if sw.made_file {
        let _ = std::fs::remove_file(&sw.path);
    }
    if let Some(saved) = sw.saved {
        if std::fs::symlink_metadata(&sw.path).is_ok() {
            // the code under test created the directory again meanwhile: merge the old content into it
            copy_dir(&saved, &sw.path);
            let _ = std::fs::remove_dir_all(&saved);
        } else {
            let _ = std::fs::rename(&saved, &sw.path);
        }
    }
}

fn artifacts_dir(ws: &Path) -> PathBuf {
    ws.join(".rip").join("artifacts")
}

fn blobs_dir(ws: &Path) -> PathBuf {
    artifacts_dir(ws).join("blobs")
}

enum MidAction {
    BlobsBecomeFile,
    BlobsMovedAway,
    Cache(Vec<CacheHit>),
}

/// Fault applied from inside the running job, at the n-th pass of a hook point.
struct MidHook {
    point: &'static str,
    nth: u64,
    hits: AtomicU64,
    fired: AtomicBool,
    action: MidAction,
    store_dir: PathBuf,
    ws: PathBuf,
    thread: String,
    other: String,
    saved_caches: PathBuf,
    swaps: Mutex<Vec<Swapped>>,
    cache_applied: AtomicU64,
}

impl MidHook {
    fn on_point(&self, name: &str) {
        if name != self.point {
            return;
        }
        let n = self.hits.fetch_add(1, Ordering::SeqCst) + 1;
        if n != self.nth || self.fired.swap(true, Ordering::SeqCst) {
            return;
        }
        match &self.action {
            MidAction::BlobsBecomeFile => {
                let sw = swap_out(&blobs_dir(&self.ws), true);
                self.swaps.lock().unwrap_or_else(|e| e.into_inner()).push(sw);
            }
            MidAction::BlobsMovedAway => {
                let sw = swap_out(&blobs_dir(&self.ws), false);
                self.swaps.lock().unwrap_or_else(|e| e.into_inner()).push(sw);
            }
            MidAction::Cache(hits) => {
                let st = Store::at(&self.store_dir, true);
                let n = damage_caches(&st, &self.thread, &self.other, &self.saved_caches, hits);
                self.cache_applied.fetch_add(n, Ordering::SeqCst);
            }
        }
    }
}

fn damage_caches(store: &Store, thread: &str, other: &str, saved: &Path, hits: &[CacheHit]) -> u64 {
    let mut n = 0;
    for h in hits {
        let f = CacheFault { file: h.file, kind: h.kind, at: 2, salt: h.salt };
        if apply_fault(store, thread, other, saved, &f) {
            n += 1;
        }
    }
    n
}

fn wipe_caches(store: &Store, thread: &str) {
    for suffix in FILES {
        let _ = std::fs::remove_file(store.streams_dir().join(format!("{thread}{suffix}")));
    }
}

// ------------------------------------------------------------------------------------------------
// driving the calls

#[derive(Clone, Debug)]
struct CallRec {
    round: usize,
    followup: bool,
    entry: Entry,
    thread: usize,
    /// HTTP status, or 0 for the store API
    http_status: u16,
    /// `status` (auto) / `decision` (schedule) of the response, or "error: …"
    reported: String,
    job_id: Option<String>,
    /// the job is expected to run to a terminal frame (spawned and executed)
    executes: bool,
    ended_seen: bool,
}

fn do_call(rt: &tokio::runtime::Runtime, app: &App, thread_id: &str, c: &Call) -> (u16, Value, Option<String>) {
    let (actor, origin) = if c.blank_provenance && c.entry.is_http() { ("", "") } else { ("rv-actor", "rv-origin") };
    match c.entry {
        Entry::HttpAuto => {
            let body = json!({"stride_messages": c.stride, "max_new_checkpoints": c.max_new, "dry_run": false,
                              "actor_id": actor, "origin": origin});
            let (st, v) = rt.block_on(app.json("POST", &format!("/threads/{thread_id}/compaction-auto"), Some(&body)));
            (st, v, None)
        }
        Entry::HttpSchedule => {
            let body = json!({"stride_messages": c.stride, "max_new_checkpoints": c.max_new, "execute": c.execute,
                              "block_on_inflight": c.block, "dry_run": false, "actor_id": actor, "origin": origin});
            let (st, v) =
                rt.block_on(app.json("POST", &format!("/threads/{thread_id}/compaction-auto-schedule"), Some(&body)));
            (st, v, None)
        }
        Entry::ApiAuto => match app.store().compaction_auto_v1(
            thread_id,
            CompactionAutoV1Request {
                stride_messages: Some(c.stride),
                max_new_checkpoints: Some(c.max_new),
                dry_run: Some(false),
                actor_id: actor.into(),
                origin: origin.into(),
            },
        ) {
            Ok(resp) => (0, serde_json::to_value(resp).unwrap_or(Value::Null), None),
            Err(e) => (0, Value::Null, Some(e)),
        },
        Entry::ApiSchedule => match app.store().compaction_auto_schedule_v1(
            thread_id,
            CompactionAutoScheduleV1Request {
                stride_messages: Some(c.stride),
                max_new_checkpoints: Some(c.max_new),
                block_on_inflight: Some(c.block),
                execute: Some(c.execute),
                dry_run: Some(false),
                actor_id: actor.into(),
                origin: origin.into(),
            },
        ) {
            Ok(resp) => (0, serde_json::to_value(resp).unwrap_or(Value::Null), None),
            Err(e) => (0, Value::Null, Some(e)),
        },
    }
}

fn call_rec(round: usize, followup: bool, c: &Call, out: (u16, Value, Option<String>)) -> CallRec {
    let (st, v, err) = out;
    let job_id = v.get("job_id").and_then(|x| x.as_str()).map(|s| s.to_string());
    let key = if c.entry.is_schedule() { "decision" } else { "status" };
    let reported = match &err {
        Some(e) => format!("error: {e}"),
        None => v.get(key).and_then(|x| x.as_str()).unwrap_or("").to_string(),
    };
    let executes = match c.entry {
        Entry::HttpAuto => st == 202 && job_id.is_some(),
        Entry::HttpSchedule => st == 202 && job_id.is_some() && c.execute,
        Entry::ApiAuto => job_id.is_some(),
        Entry::ApiSchedule => job_id.is_some() && c.execute,
    };
    CallRec {
        round,
        followup,
        entry: c.entry,
        thread: c.thread,
        http_status: st,
        reported,
        job_id,
        executes,
        ended_seen: false,
    }
}

fn log_lines(path: &Path) -> usize {
    std::fs::read(path).map(|b| b.iter().filter(|c| **c == b'\n').count()).unwrap_or(0)
}

/// An HTTP route runs its job in the background: wait for the job's terminal frame (bounded).
fn wait_job_ended(rt: &tokio::runtime::Runtime, log: &Path, job_id: &str, timeout: Duration) -> bool {
    let needle = format!("\"job_id\":\"{job_id}\"");
    rt.block_on(wait_for(timeout, || {
        let bytes = std::fs::read(log).unwrap_or_default();
        if bytes.last() != Some(&b'\n') {
            return None;
        }
        let text = String::from_utf8_lossy(&bytes);
        if text.lines().any(|l| l.contains("\"type\":\"continuity_job_ended\"") && l.contains(&needle)) {
            Some(())
        } else {
            None
        }
    }))
    .is_some()
}

/// Wait until nobody appends any more: no append between enter and flush, file length stable.
fn settle(s: &Arc<Sched>, log: &Path, stable_ms: u64) {
    let t0 = Instant::now();
    let mut last = std::fs::metadata(log).map(|m| m.len()).unwrap_or(0);
    let mut stable_since = Instant::now();
    while t0.elapsed() < Duration::from_millis(1000) {
        std::thread::sleep(Duration::from_millis(2));
        let len = std::fs::metadata(log).map(|m| m.len()).unwrap_or(0);
        if len != last {
            last = len;
            stable_since = Instant::now();
            continue;
        }
        let idle = s.count_of("log.append.enter") <= s.count_of("log.append.after_flush");
        if idle && stable_since.elapsed() >= Duration::from_millis(stable_ms) {
            break;
        }
    }
}

struct RoundMeta {
    start_line: usize,
    followup_line: usize,
    fault_class: String,
    fault_applied: bool,
}

fn append_messages(app: &App, thread: &str, n: usize, rng: &mut Rng, tag: &str) -> usize {
    let mut ok = 0;
    for k in 0..n {
        let role = if rng.chance(1, 3) { "assistant" } else { "user" };
        let len = 8 + rng.usize(40);
        let text = format!("{tag} {k}: {}", rng.ascii(len));
        if app.store().append_message(thread, role.into(), "rv".into(), text).is_ok() {
            ok += 1;
        }
    }
    ok
}

pub fn one_case(r: &mut Report, s: &Arc<Sched>, rt: &tokio::runtime::Runtime, case: JobCase, seed: u64, tier: Tier) {
    let store = Store::new("c07j");
    s.reset();
    let mut app = match App::open(&store, None) {
        Ok(a) => a,
        Err(e) => {
            r.inconclusive(&format!("job case {}: engine open failed: {e}", case.idx));
            return;
        }
    };
    let mut rng = Rng::derive(seed ^ 0x10B5_C07, case.idx);
    let main_thread: String = rt.block_on(async {
        let (_, v) = app.json("POST", "/threads/ensure", None).await;
        v.get("thread_id").and_then(|x| x.as_str()).unwrap_or("").to_string()
    });
    if main_thread.is_empty() {
        r.inconclusive(&format!("job case {}: /threads/ensure failed", case.idx));
        return;
    }
    append_messages(&app, &main_thread, case.messages, &mut rng, "seed");
    let branch_thread = match app.store().branch(&main_thread, Some("rv-branch".into()), None, None, "rv".into(), "rv".into()) {
        Ok((id, _, _)) => id,
        Err(e) => {
            r.inconclusive(&format!("job case {}: branch failed: {e}", case.idx));
            return;
        }
    };
    append_messages(&app, &branch_thread, case.branch_messages, &mut rng, "branch");
    let threads = [main_thread.clone(), branch_thread.clone()];
    // an older copy of the cache files (for the "rolled back" cache fault)
    let saved_caches = store.dir.join("saved-caches");
    copy_dir(&store.streams_dir(), &saved_caches);
    // a little more history, so that the saved copy is really stale
    append_messages(&app, &main_thread, 2, &mut rng, "seed+");

    if case.noise_us > 0 {
        s.set_noise(
            seed ^ case.idx ^ 0x7A,
            &[
                ("log.append.enter", case.noise_us),
                ("log.append.after_body", case.noise_us / 4),
                ("log.append.after_flush", case.noise_us),
                ("cont.cache.enter", case.noise_us / 2),
                ("cont.cache.exit", case.noise_us / 2),
                ("artifact.*", case.noise_us),
                ("cache.sidecar.written", case.noise_us / 2),
                ("cache.comp.written", case.noise_us / 2),
                ("cache.mr.written", case.noise_us / 2),
            ],
        );
    }

    let log = store.log_path();
    let job_wait = Duration::from_secs(tier.pick(6, 10));
    let mut calls: Vec<CallRec> = Vec::new();
    let mut metas: Vec<RoundMeta> = Vec::new();
    let mut late_jobs = 0u64;

    for (ri, round) in case.rounds.iter().enumerate() {
        for t in threads.iter().take(if round.calls.iter().any(|c| c.thread == 1) { 2 } else { 1 }) {
            append_messages(&app, t, round.add_messages, &mut rng, &format!("r{ri}"));
        }
        let start_line = log_lines(&log);

        // ---- arm the fault
        let mut swaps: Vec<Swapped> = Vec::new();
        let mut hook: Option<Arc<MidHook>> = None;
        let mut fault_applied = true;
        let mut burst = 0usize;
        let mk_hook = |point: &'static str, nth: u64, action: MidAction| {
            Arc::new(MidHook {
                point,
                nth,
                hits: AtomicU64::new(0),
                fired: AtomicBool::new(false),
                action,
                store_dir: store.dir.clone(),
                ws: store.ws.clone(),
                thread: main_thread.clone(),
                other: branch_thread.clone(),
                saved_caches: saved_caches.clone(),
                swaps: Mutex::new(Vec::new()),
                cache_applied: AtomicU64::new(0),
            })
        };
        match &round.fault {
            FaultSpec::None => {}
            FaultSpec::ArtifactsNotDir => swaps.push(swap_out(&artifacts_dir(&store.ws), true)),
            FaultSpec::BlobsNotDir => swaps.push(swap_out(&blobs_dir(&store.ws), true)),
            FaultSpec::WorkspaceRemoved => swaps.push(swap_out(&store.ws, false)),
            FaultSpec::WorkspaceNotDir => swaps.push(swap_out(&store.ws, true)),
            FaultSpec::BlobsNotDirBetweenCuts(n) => hook = Some(mk_hook("artifact.renamed", *n, MidAction::BlobsBecomeFile)),
            FaultSpec::BlobsGoneBeforeFinalize(n) => hook = Some(mk_hook("artifact.tmp", *n, MidAction::BlobsMovedAway)),
            FaultSpec::CacheDamaged { hits, mid_job } => {
                if *mid_job {
                    hook = Some(mk_hook("artifact.renamed", 1, MidAction::Cache(hits.clone())));
                } else {
                    fault_applied = damage_caches(&store, &main_thread, &branch_thread, &saved_caches, hits) > 0;
                }
            }
            FaultSpec::MessageBurst(k) => burst = *k,
        }
        if !swaps.is_empty() {
            fault_applied = swaps.iter().all(|sw| sw.made_file || sw.saved.is_some());
        }
        if let Some(h) = &hook {
            let h2 = h.clone();
            s.set_custom(Some(Arc::new(move |name, _ctx| h2.on_point(name))));
        }

        // ---- the calls
        let mut recs: Vec<CallRec> = Vec::new();
        let burst_seed = rng.next_u64();
        let n_parties = if round.concurrent { round.calls.len() } else { 1 } + usize::from(burst > 0);
        let barrier = Barrier::new(n_parties);
        std::thread::scope(|scope| {
            let burst_handle = if burst > 0 {
                let app = app.clone();
                let tid = main_thread.clone();
                let barrier = &barrier;
                Some(scope.spawn(move || {
                    let mut brng = Rng::new(burst_seed);
                    barrier.wait();
                    let mut ok = 0u64;
                    for k in 0..burst {
                        let len = 10 + brng.usize(30);
                        let text = format!("burst {k}: {}", brng.ascii(len));
                        if app.store().append_message(&tid, "user".into(), "rv".into(), text).is_ok() {
                            ok += 1;
                        }
                        std::thread::sleep(Duration::from_micros(brng.below(300)));
                    }
                    ok
                }))
            } else {
                None
            };
            if round.concurrent {
                let mut hs = Vec::new();
                for c in &round.calls {
                    let app = app.clone();
                    let tid = threads[c.thread].clone();
                    let barrier = &barrier;
                    hs.push(scope.spawn(move || {
                        barrier.wait();
                        do_call(rt, &app, &tid, c)
                    }));
                }
                for (c, h) in round.calls.iter().zip(hs) {
                    match h.join() {
                        Ok(out) => recs.push(call_rec(ri, false, c, out)),
                        Err(_) => recs.push(call_rec(ri, false, c, (0, Value::Null, Some("call panicked".into())))),
                    }
                }
                for rec in recs.iter_mut() {
                    if rec.entry.is_http() && rec.executes {
                        rec.ended_seen = wait_job_ended(rt, &log, rec.job_id.as_deref().unwrap_or(""), job_wait);
                    }
                }
            } else {
                barrier.wait();
                for c in &round.calls {
                    let out = do_call(rt, &app, &threads[c.thread], c);
                    let mut rec = call_rec(ri, false, c, out);
                    if rec.entry.is_http() && rec.executes {
                        rec.ended_seen = wait_job_ended(rt, &log, rec.job_id.as_deref().unwrap_or(""), job_wait);
                    }
                    recs.push(rec);
                }
            }
            if let Some(h) = burst_handle {
                let n = h.join().unwrap_or(0);
                r.count("jobs:burst_messages_appended_while_calls_ran", n);
            }
        });
        if recs.iter().any(|c| c.entry.is_http() && c.executes) {
            // a background job may still be between its terminal frame and its return
            settle(s, &log, 4);
        }

        // ---- undo the fault
        s.set_custom(None);
        if let Some(h) = &hook {
            let mut g = h.swaps.lock().unwrap_or_else(|e| e.into_inner());
            swaps.append(&mut g);
            match &h.action {
                MidAction::Cache(_) => fault_applied = h.cache_applied.load(Ordering::SeqCst) > 0,
                _ => fault_applied = h.fired.load(Ordering::SeqCst),
            }
        }
        for sw in swaps.drain(..).rev() {
            swap_back(sw);
        }
        let _ = std::fs::create_dir_all(&store.ws);
        if matches!(round.fault, FaultSpec::CacheDamaged { .. }) && round.wipe_caches_on_restore {
            wipe_caches(&store, &main_thread);
        }
        late_jobs += recs.iter().filter(|c| c.entry.is_http() && c.executes && !c.ended_seen).count() as u64;
        calls.append(&mut recs);

        // ---- one more job on the repaired store
        if round.restart_before_followup {
            drop(app);
            app = match App::open(&store, None) {
                Ok(a) => a,
                Err(e) => {
                    r.inconclusive(&format!("job case {}: reopen failed: {e}", case.idx));
                    return;
                }
            };
            r.count("jobs:store_reopened_before_followup_job", 1);
        }
        let fu = &round.followup;
        append_messages(&app, &threads[fu.thread], fu.stride as usize, &mut rng, &format!("r{ri}f"));
        let followup_line = log_lines(&log);
        let out = do_call(rt, &app, &threads[fu.thread], fu);
        let mut rec = call_rec(ri, true, fu, out);
        if rec.entry.is_http() && rec.executes {
            rec.ended_seen = wait_job_ended(rt, &log, rec.job_id.as_deref().unwrap_or(""), job_wait);
            if !rec.ended_seen {
                late_jobs += 1;
            }
        }
        calls.push(rec);
        metas.push(RoundMeta { start_line, followup_line, fault_class: round.fault.class(), fault_applied });
    }
    settle(s, &log, 12);
    let hook_counts = s.counts();
    drop(app);
    if late_jobs > 0 {
        // a background job that has not logged its terminal frame within the wait: give it a last chance
        std::thread::sleep(Duration::from_millis(300));
    }
    s.reset();
    judge(r, &store, &case, seed, tier, &threads, &calls, &metas, late_jobs);
    r.count("jobs:summary_artifacts_written(artifact.renamed)", hook_counts.get("artifact.renamed").copied().unwrap_or(0));
}

// ------------------------------------------------------------------------------------------------
// oracle

#[derive(Default)]
struct JobFrames<'a> {
    spawned: Vec<&'a truth::Frame>,
    ended: Vec<&'a truth::Frame>,
    other: Vec<&'a truth::Frame>,
}

#[allow(clippy::too_many_arguments)]
fn judge(
    r: &mut Report,
    store: &Store,
    case: &JobCase,
    seed: u64,
    tier: Tier,
    threads: &[String; 2],
    calls: &[CallRec],
    metas: &[RoundMeta],
    late_jobs: u64,
) {
    let idx = case.idx;
    let mut frames = None;
    for _ in 0..20 {
        match truth::parse_log(&store.log_bytes_settled()) {
            Ok(f) => {
                frames = Some(f);
                break;
            }
            Err(_) => std::thread::sleep(Duration::from_millis(20)),
        }
    }
    let Some(frames) = frames else {
        r.inconclusive(&format!("job case {idx}: event log not parseable after quiescence"));
        return;
    };
    r.eval();
    r.count("jobs:cases", 1);
    r.count(&format!("jobs:cases_{}", case.kind), 1);
    r.count("jobs:frames_judged", frames.len() as u64);

    let plan = json!({
        "messages": case.messages, "branch_messages": case.branch_messages, "noise_us": case.noise_us,
        "rounds": case.rounds.iter().map(|rd| json!({
            "add_messages": rd.add_messages, "fault": rd.fault.describe(), "concurrent": rd.concurrent,
            "calls": rd.calls.iter().map(|c| c.describe()).collect::<Vec<_>>(),
            "restart_before_followup": rd.restart_before_followup, "wipe_caches_on_restore": rd.wipe_caches_on_restore,
            "followup": rd.followup.describe(),
        })).collect::<Vec<_>>(),
    });
    let witness = |detail: Value| {
        json!({"job_case": idx, "seed": seed, "tier": tier.as_str(), "kind": case.kind, "plan": plan, "detail": detail})
    };

    // every frame that names a job at its top level, in file order
    let mut jobs: BTreeMap<&str, JobFrames> = BTreeMap::new();
    for f in &frames {
        let Some(job) = f.v.get("job_id").and_then(|x| x.as_str()) else {
            continue;
        };
        let e = jobs.entry(job).or_default();
        match f.ty() {
            "continuity_job_spawned" => e.spawned.push(f),
            "continuity_job_ended" => e.ended.push(f),
            _ => e.other.push(f),
        }
    }
    // checkpoints → producing job (from the summary artifact, where it is still readable)
    let mut produced: HashMap<String, Vec<&truth::Frame>> = HashMap::new();
    for f in &frames {
        if f.ty() != "continuity_compaction_checkpoint_created" {
            continue;
        }
        let art = f.s("summary_artifact_id");
        if art.is_empty() {
            continue;
        }
        let Ok(bytes) = std::fs::read(blobs_dir(&store.ws).join(art)) else {
            continue;
        };
        let Ok(v) = serde_json::from_slice::<Value>(&bytes) else {
            continue;
        };
        let by = &v["provenance"]["produced_by"];
        if by["type"].as_str() == Some("job") {
            if let Some(id) = by["id"].as_str() {
                produced.entry(id.to_string()).or_default().push(f);
            }
        }
    }

    let call_of: HashMap<&str, &CallRec> =
        calls.iter().filter_map(|c| c.job_id.as_deref().map(|id| (id, c))).collect();
    // fault class that was active when the job's first frame was written
    let class_at = |line: usize| -> String {
        let mut out = "before_first_round".to_string();
        for m in metas {
            if line >= m.followup_line {
                out = "after_fault_was_undone".to_string();
            } else if line >= m.start_line {
                out = m.fault_class.clone();
            }
        }
        out
    };
    let brief = |jf: &JobFrames| -> Value {
        let mut all: Vec<&truth::Frame> = jf.spawned.iter().chain(jf.ended.iter()).chain(jf.other.iter()).copied().collect();
        all.sort_by_key(|f| f.line_no);
        Value::Array(
            all.iter()
                .map(|f| json!({"line": f.line_no, "type": f.ty(), "thread": f.stream_id(), "seq": f.seq(),
                                "status": f.v.get("status"), "error": f.v.get("error"), "decision": f.v.get("decision")}))
                .collect(),
        )
    };

    let mut shape: Vec<String> = Vec::new();
    let (mut n_completed, mut n_failed, mut n_open, mut n_partial) = (0u64, 0u64, 0u64, 0u64);
    for (job, jf) in &jobs {
        let first_line = jf
            .spawned
            .iter()
            .chain(jf.ended.iter())
            .chain(jf.other.iter())
            .map(|f| f.line_no)
            .min()
            .unwrap_or(0);
        let entry = call_of.get(job).map(|c| c.entry.name()).unwrap_or("unattributed_call");
        let class = class_at(first_line);
        let at = format!("{entry}/{class}");
        if jf.spawned.len() != 1 {
            r.violation(
                &format!("C07/job_spawned_count/{}/{at}", if jf.spawned.is_empty() { "missing" } else { "duplicated" }),
                &format!("job has {} continuity_job_spawned frames ({} ended frames)", jf.spawned.len(), jf.ended.len()),
                witness(json!({"job_id": job, "frames": brief(jf)})),
            );
        }
        if jf.ended.len() > 1 {
            let statuses: Vec<&str> = jf.ended.iter().map(|f| f.s("status")).collect();
            r.violation(
                &format!("C07/job_ended_more_than_once/{at}"),
                &format!(
                    "background job has {} continuity_job_ended frames (statuses {:?}); entry point {entry}, fault {class}",
                    jf.ended.len(),
                    statuses
                ),
                witness(json!({"job_id": job, "frames": brief(jf)})),
            );
        }
        if let (Some(sp), Some(en)) = (jf.spawned.first(), jf.ended.first()) {
            if en.line_no < sp.line_no {
                r.violation(
                    &format!("C07/job_ended_before_spawned/{at}"),
                    "continuity_job_ended precedes the job's continuity_job_spawned",
                    witness(json!({"job_id": job, "frames": brief(jf)})),
                );
            }
            if jf.ended.iter().any(|e| e.stream_id() != sp.stream_id() || e.stream_kind() != sp.stream_kind()) {
                r.violation(
                    &format!("C07/job_ended_on_other_stream/{at}"),
                    "continuity_job_ended is logged on another stream than the job's continuity_job_spawned",
                    witness(json!({"job_id": job, "frames": brief(jf)})),
                );
            }
        }
        if let Some(en) = jf.ended.first() {
            if let Some(late) = jf.other.iter().chain(jf.spawned.iter()).find(|f| f.line_no > en.line_no) {
                r.violation(
                    &format!("C07/job_frame_after_job_ended/{}/{at}", late.ty()),
                    &format!("a {} frame naming the job follows the job's continuity_job_ended", late.ty()),
                    witness(json!({"job_id": job, "frames": brief(jf)})),
                );
            }
        }
        let cps = produced.get(*job).cloned().unwrap_or_default();
        for cp in &cps {
            let before = jf.spawned.first().map(|sp| cp.line_no < sp.line_no).unwrap_or(false);
            let after = jf.ended.first().map(|en| cp.line_no > en.line_no).unwrap_or(false);
            let elsewhere = jf.spawned.first().map(|sp| cp.stream_id() != sp.stream_id()).unwrap_or(false);
            if before || after || elsewhere {
                let how = if elsewhere {
                    "on_other_thread"
                } else if before {
                    "before_job_spawned"
                } else {
                    "after_job_ended"
                };
                r.violation(
                    &format!("C07/job_checkpoint_outside_job_bracket/{how}/{at}"),
                    "a checkpoint whose summary artifact names the job as producer is not logged between the job's spawned and ended frames",
                    witness(json!({"job_id": job, "checkpoint_line": cp.line_no, "frames": brief(jf)})),
                );
            }
        }
        r.count("jobs:checkpoints_linked_to_their_job", cps.len() as u64);
        // a store-API call that reported "completed" must have left the completed frame
        if let Some(c) = call_of.get(job) {
            if !c.entry.is_http() && c.reported == "completed" {
                let ok = jf.ended.iter().any(|f| f.s("status") == "completed");
                if !ok {
                    r.violation(
                        &format!("C07/job_reported_completed_without_completed_frame/{at}"),
                        "the call returned completed, but the log holds no continuity_job_ended{completed} for the job",
                        witness(json!({"job_id": job, "frames": brief(jf)})),
                    );
                }
            }
        }
        let outcome = match jf.ended.first() {
            None => {
                n_open += 1;
                if call_of.get(job).map(|c| c.executes).unwrap_or(false) {
                    // started to run and never reached a terminal frame: not demanded by "at most once"
                    r.count("jobs:executed_jobs_without_terminal_frame(counted_only)", 1);
                    "open_although_executed"
                } else {
                    "open"
                }
            }
            Some(en) if en.s("status") == "completed" => {
                n_completed += 1;
                "completed"
            }
            Some(en) => {
                n_failed += 1;
                let created = en.v["result"]["created"].as_array().map(|a| a.len()).unwrap_or(0);
                if created > 0 {
                    n_partial += 1;
                    "failed_after_partial_result"
                } else {
                    "failed"
                }
            }
        };
        r.count(&format!("jobs:job_{outcome}@{class}"), 1);
        r.count(&format!("jobs:jobs_via_{entry}"), 1);
        shape.push(format!("{entry}@{class}->{outcome}"));
    }
    // every accepted call names a job that exists
    for c in calls {
        if let Some(id) = &c.job_id {
            if !jobs.get(id.as_str()).map(|jf| !jf.spawned.is_empty()).unwrap_or(false) {
                r.violation(
                    &format!("C07/job_accepted_without_spawn_frame/{}", c.entry.name()),
                    "a call returned a job id that has no continuity_job_spawned frame",
                    witness(json!({"job_id": id, "round": c.round, "followup": c.followup, "reported": c.reported})),
                );
            } else if let Some(sp) = jobs.get(id.as_str()).and_then(|jf| jf.spawned.first()) {
                if sp.stream_id() != threads[c.thread] {
                    r.violation(
                        &format!("C07/job_spawned_on_other_thread/{}", c.entry.name()),
                        "the job's continuity_job_spawned frame is on another thread than the one the call addressed",
                        witness(json!({"job_id": id, "round": c.round, "thread": threads[c.thread], "frame_thread": sp.stream_id()})),
                    );
                }
            }
        }
    }
    r.count("jobs:jobs_spawned", jobs.len() as u64);
    r.count("jobs:jobs_ended_completed", n_completed);
    r.count("jobs:jobs_ended_failed", n_failed);
    r.count("jobs:jobs_failed_after_partial_result", n_partial);
    r.count("jobs:jobs_without_terminal_frame(counted_only)", n_open);
    r.count("jobs:http_jobs_not_ended_within_wait", late_jobs);
    r.count("jobs:calls", calls.len() as u64);
    r.count("jobs:calls_without_job(noop/skipped/error)", calls.iter().filter(|c| c.job_id.is_none()).count() as u64);
    r.count("jobs:followup_jobs_after_fault_undone", calls.iter().filter(|c| c.followup && c.job_id.is_some()).count() as u64);
    r.count("jobs:concurrent_rounds", case.rounds.iter().filter(|rd| rd.concurrent).count() as u64);
    for m in metas {
        r.count(&format!("jobs:rounds_{}{}", m.fault_class, if m.fault_applied { "" } else { "(not_applied)" }), 1);
    }
    for c in calls.iter().filter(|c| c.job_id.is_none()) {
        let what = if c.reported.starts_with("error") { "error" } else { c.reported.as_str() };
        r.count(&format!("jobs:call_without_job_{}", if what.is_empty() { "http_status_only" } else { what }), 1);
        if c.entry.is_http() && c.http_status >= 500 {
            r.count("jobs:http_5xx_answers", 1);
        }
    }
    if !jobs.is_empty() {
        shape.sort();
        let par = case.rounds.iter().map(|rd| if rd.concurrent { rd.calls.len() } else { 1 }).max().unwrap_or(1);
        r.distinct_str(&format!("jobs|{}|par{par}|noise{}|{}", case.kind, case.noise_us.min(1), shape.join(",")));
    }
    if idx == 3 || (case.kind == "random" && r.samples.len() < r.max_samples.saturating_sub(2)) {
        r.sample(json!({"job_case": idx, "kind": case.kind, "plan": plan, "jobs": shape,
                        "calls": calls.iter().map(|c| json!({"entry": c.entry.name(), "round": c.round, "followup": c.followup,
                            "http_status": c.http_status, "reported": c.reported, "job": c.job_id.is_some()})).collect::<Vec<_>>()}));
    }
}

// ------------------------------------------------------------------------------------------------
// entry from c07::run

/// Runs the job cases of this shard inside `share` of the budget. Returns the number of cases run.
pub fn run_all(cfg: &Cfg, r: &mut Report, s: &Arc<Sched>, rt: &tokio::runtime::Runtime) -> u64 {
    let cap = directed_cases() + cfg.tier.pick(172u64, 6_000u64);
    let share = cfg.budget_s * 0.15;
    let mut ran = 0u64;
    let mut j = 0u64;
    while j < cap {
        let i = j;
        j += 1;
        if !cfg.mine(i) {
            continue;
        }
        // the directed matrix always runs; the random part stops at its share of the budget
        if i >= directed_cases() && r.elapsed() > share {
            break;
        }
        one_case(r, s, rt, make_case(cfg.seed, i, cfg.tier), cfg.seed, cfg.tier);
        ran += 1;
    }
    r.note(
        "background_jobs_under_faults",
        json!({
            "entries": ENTRIES.iter().map(|e| e.name()).collect::<Vec<_>>(),
            "directed_fault_classes": directed_faults().iter().map(|f| f.class()).collect::<Vec<_>>(),
            "directed_cases": directed_cases(),
            "random_fault_classes": ["no_fault", "artifacts_dir_is_a_file", "blobs_dir_is_a_file", "blobs_dir_becomes_a_file_between_cuts",
                "blobs_dir_removed_before_summary_rename", "workspace_removed", "workspace_is_a_file",
                "cache_<missing|stale|foreign|damaged>[_while_job_runs]", "message_burst_while_job_runs"],
            "oracle": "per job id: 1 spawned, <=1 ended, ended after spawned on the same stream, no frame naming the job after its ended frame, \
                       checkpoints produced by the job inside the bracket, api 'completed' => completed frame",
            "budget_share_s": share,
        }),
    );
    let failed = r.counters.get("jobs:jobs_ended_failed").copied().unwrap_or(0);
    let cases = r.counters.get("jobs:cases").copied().unwrap_or(0);
    if cases >= 8 && failed == 0 {
        r.fatal_inconclusive("background-job part: no job failed although faults were injected (fault injection does not reach the code any more)");
    }
    ran
}
