//! C17: oracle for range reads (GET /tasks/{id}/output and the artifact_fetch tool).

use super::emit::lossy;
use crate::prng::Rng;
use crate::report::Report;
use serde_json::{json, Value};

#[derive(Clone, Debug)]
pub struct Page {
    pub req_offset: u64,
    pub req_max: usize,
    pub content: String,
    pub offset: u64,
    pub bytes: u64,
    pub total: u64,
    pub truncated: bool,
}

/// Page-size plan for one sequential walk over `total` bytes (at most ~`max_pages` requests).
pub fn page_sizes(rng: &mut Rng, total: usize, max_pages: usize) -> (Vec<usize>, String) {
    let floor = total.div_ceil(max_pages.max(1)).max(1);
    match rng.below(4) {
        0 => {
            let k = (*rng.pick(&[1usize, 2, 3, 4, 5, 7, 64, 100, 1000, 4096, 8192, 8193, 65536])).max(floor);
            (vec![k], format!("fixed{}", if k < 4 { "<4" } else { ">=4" }))
        }
        1 => (vec![total.max(1) + rng.usize(3)], "whole".into()),
        2 => {
            let hi = (total / (1 + rng.usize(20))).max(4);
            let v: Vec<usize> = (0..64).map(|_| (floor.max(4) + rng.usize(hi)).max(4)).collect();
            (v, "random>=4".into())
        }
        _ => {
            let hi = (total / (1 + rng.usize(20))).max(1);
            let v: Vec<usize> = (0..64).map(|_| (floor + rng.usize(hi)).max(1)).collect();
            (v, "random>=1".into())
        }
    }
}

/// Judge one sequential walk (offset += bytes from 0). `kind` = "task_output" | "artifact_fetch".
/// Returns true when a violation was reported.
pub fn judge_walk(r: &mut Report, kind: &str, stored: &[u8], pages: &[Page], witness: &Value) -> bool {
    let total = stored.len() as u64;
    let mut concat = String::new();
    let mut expect_off = 0u64;
    let mut min_max = usize::MAX;
    for (i, p) in pages.iter().enumerate() {
        let w = || {
            json!({"case": witness, "page_index": i, "offset": p.req_offset, "max_bytes": p.req_max,
                   "bytes": p.bytes, "total_bytes": p.total, "stored_len": total,
                   "content_head": p.content.chars().take(40).collect::<String>()})
        };
        min_max = min_max.min(p.req_max);
        if p.total != total {
            r.violation(
                &format!("C17/{kind}/total_bytes_differs_from_stored"),
                &format!("range read reports total_bytes {} but {} bytes are stored", p.total, total),
                w(),
            );
            return true;
        }
        if p.offset != p.req_offset || p.req_offset != expect_off {
            r.violation(
                &format!("C17/{kind}/offset_not_echoed"),
                &format!("asked offset {}, response says {}", p.req_offset, p.offset),
                w(),
            );
            return true;
        }
        let end = p.req_offset + p.bytes;
        if p.bytes > p.req_max as u64 || end > total {
            r.violation(
                &format!("C17/{kind}/page_larger_than_asked_or_past_end"),
                &format!("page of {} bytes at {} (max_bytes {}, total {})", p.bytes, p.req_offset, p.req_max, total),
                w(),
            );
            return true;
        }
        let want = lossy(&stored[p.req_offset as usize..end as usize]);
        if p.content != want {
            r.violation(
                &format!("C17/{kind}/page_content_differs_from_stored_range"),
                &format!(
                    "page [{}, {}) is not the (lossy) rendering of the stored bytes of that range",
                    p.req_offset, end
                ),
                w(),
            );
            return true;
        }
        if p.bytes == 0 && p.req_offset < total && p.req_max > 0 {
            r.violation(
                &format!("C17/{kind}/page_makes_no_progress"),
                &format!("0 bytes returned at offset {} of {} with max_bytes {}", p.req_offset, total, p.req_max),
                w(),
            );
            return true;
        }
        let more = end < total;
        if p.truncated != more && p.bytes == p.req_max.min((total - p.req_offset) as usize) as u64 {
            r.violation(
                &format!("C17/{kind}/truncated_flag_wrong"),
                &format!("truncated={} but page ends at {} of {}", p.truncated, end, total),
                w(),
            );
            return true;
        }
        concat.push_str(&p.content);
        expect_off = end;
    }
    if expect_off != total {
        r.violation(
            &format!("C17/{kind}/walk_did_not_reach_end"),
            &format!("following offset += bytes stopped at {expect_off} of {total}"),
            json!({"case": witness}),
        );
        return true;
    }
    r.count(&format!("{kind}_walks_judged"), 1);
    r.count(&format!("{kind}_pages_judged"), pages.len() as u64);
    // exact reproduction of text: demanded when the stored bytes are valid UTF-8 and every page
    // could hold a whole character (max_bytes >= 4).
    if let Ok(text) = std::str::from_utf8(stored) {
        if min_max >= 4 && concat != text {
            let split = pages
                .iter()
                .skip(1)
                .find(|p| !text.is_char_boundary(p.req_offset as usize))
                .map(|p| p.req_offset);
            let sizes: Vec<usize> = pages.iter().map(|p| p.req_max).take(12).collect();
            let (sig, what) = match split {
                Some(off) => (
                    format!("C17/{kind}/page_boundary_splits_multibyte_char"),
                    format!(
                        "walking valid UTF-8 output page by page (every max_bytes >= 4) does not reproduce it: the page \
                         boundary at byte {off} falls inside a multi-byte character and both neighbouring pages carry U+FFFD \
                         instead (range read takes from_utf8_lossy of exactly max_bytes bytes)"
                    ),
                ),
                None => (
                    format!("C17/{kind}/pages_do_not_reproduce_text"),
                    "concatenated pages differ from the stored text although no boundary splits a character".to_string(),
                ),
            };
            r.violation(
                &sig,
                &what,
                json!({"case": witness, "page_sizes_head": sizes, "stored_len": total,
                       "replacement_chars_in_pages": concat.matches('\u{FFFD}').count(),
                       "replacement_chars_in_text": text.matches('\u{FFFD}').count()}),
            );
            return true;
        }
        if min_max >= 4 {
            r.count(&format!("{kind}_text_walks_reproduced_exactly"), 1);
        }
    }
    false
}

/// Judge one random-access read (any offset, incl. == total and > total).
pub fn judge_random(r: &mut Report, kind: &str, stored: &[u8], p: &Page, witness: &Value) -> bool {
    let total = stored.len() as u64;
    let start = p.req_offset.min(total) as usize;
    let end = (start + p.req_max).min(stored.len());
    let want = lossy(&stored[start..end]);
    // a reader may return fewer bytes than asked (e.g. to end on a character boundary)
    let got_end = (start as u64 + p.bytes).min(total) as usize;
    let ok = p.total == total
        && p.offset == p.req_offset
        && p.bytes as usize <= end - start
        && (p.content == want || p.content == lossy(&stored[start..got_end]));
    if !ok {
        r.violation(
            &format!("C17/{kind}/random_access_read_wrong"),
            &format!(
                "read at offset {} max_bytes {} of a {}-byte log returned {} bytes that are not the stored range",
                p.req_offset, p.req_max, total, p.bytes
            ),
            json!({"case": witness, "offset": p.req_offset, "max_bytes": p.req_max, "bytes": p.bytes,
                   "total_bytes": p.total, "content_head": p.content.chars().take(40).collect::<String>()}),
        );
        return true;
    }
    r.count(&format!("{kind}_random_reads_judged"), 1);
    false
}
