//! C05 — a crash at any write boundary leaves a store that restarts gap-free.
//!
//! Crash-point enumeration by imaging: a sequential workload runs once with a crash imager
//! installed as the hook handler; at EVERY hit of every crash point (each file-system effect of
//! the log, sidecars, indexes, index.json, artifacts, snapshots) the on-disk state (data dir +
//! workspace `.rip`) is copied. A process killed at that instant leaves exactly these bytes
//! (process crash, completed write(2)s are visible). Every image is then restarted with a fresh
//! engine and judged: restart works, validated replay works, acknowledged appends are present
//! exactly once, further appends continue the numbering, and the caches found are either
//! reconciled or ignored (sampled C04 differential before and after the further appends).

use crate::c04::{diff_summary, queries, run_query};
use crate::fixture::{copy_dir, runtime, wait_for, App, Store};
use crate::gen_hist::{exec, Known, OpKind};
use crate::prng::Rng;
use crate::report::{Cfg, Report};
use crate::sched::sched;
use crate::truth;
use serde_json::{json, Value};
use std::collections::{BTreeMap, HashMap};
use std::path::PathBuf;
use std::sync::{Arc, Mutex};
use std::time::Duration;

const POINT_PREFIXES: &[&str] = &["log.append.", "cont.cache.", "cache.", "index.", "artifact.", "snapshot."];

#[derive(Clone, Debug)]
struct Image {
    dir: PathBuf,
    point: &'static str,
    op_index: usize,
    op_kind: String,
    acked: usize,
    conts: Vec<String>,
}

#[derive(Default)]
struct Shared {
    active: bool,
    op_index: usize,
    op_kind: String,
    acked: Vec<String>,
    conts: Vec<String>,
    images: Vec<Image>,
    root: PathBuf,
    data: PathBuf,
    ws: PathBuf,
    max_images: usize,
    skipped: u64,
    // sampling stride per point for very chatty points
    hits: HashMap<&'static str, u64>,
}

fn wanted(point: &str) -> bool {
    if point == "cache.scan" || point == "cache.rebuild.line" {
        return false;
    }
    POINT_PREFIXES.iter().any(|p| point.starts_with(p))
}

fn plan_ops(rng: &mut Rng, n: usize) -> Vec<OpKind> {
    // fixed prelude guarantees every op kind (and with it every crash point) occurs
    let mut ops = vec![
        OpKind::Msg,
        OpKind::BigMsg,
        OpKind::RunSpawned,
        OpKind::Compile,
        OpKind::SideEffects,
        OpKind::Cursor,
        OpKind::RunEnded,
        OpKind::Msg,
        OpKind::ManualCkpt,
        OpKind::Msg,
        OpKind::Auto,
        OpKind::Msg,
        OpKind::Schedule,
        OpKind::Rotate,
        OpKind::Branch,
        OpKind::Handoff,
        OpKind::BigMsg,
        OpKind::HugeMsg,
        OpKind::Msg,
    ];
    let w = crate::gen_hist::default_weights();
    for _ in 0..n {
        ops.push(crate::gen_hist::pick_kind(rng, &w));
    }
    ops
}

pub fn run(cfg: &Cfg) -> i32 {
    let mut r = Report::new(
        "C05",
        "fault_enumeration",
        "every hit of every crash point (log/sidecar/index/artifact/snapshot write boundaries, incl. between body and \
         newline of frames larger than the writer buffer) of every operation of seeded sequential workloads is imaged \
         (copy of data dir + workspace .rip), restarted with a fresh engine and judged; distinct = distinct \
         (operation kind, crash point) pairs whose image was restarted",
    );
    r.assume("a directory copy taken at a hook equals what a process kill leaves (process crash, not power loss; the code never fsyncs)");
    r.assume("the workload is sequential, so the image is taken while no other writer is active");
    let s = sched();
    let rt = runtime(4);
    let mut case = 0u64;
    while !r.over(cfg) && case < cfg.tier.pick(200, 100_000) {
        let idx = case;
        case += 1;
        if !cfg.mine(idx) {
            continue;
        }
        let mut rng = cfg.case_rng(idx);
        one_history(cfg, &mut r, &s, &rt, &mut rng, idx);
    }
    s.reset();
    // real-process cross-check: the hooked `rip serve` aborts itself at a named point (RIP_VERIF_ABORT) while it
    // is driven over HTTP; the store it leaves is judged exactly like an image. This validates that a directory
    // copy taken at a hook is what a real process death leaves.
    if cfg.shard.0 == 0 || cfg.tier == crate::report::Tier::Thorough {
        real_process_aborts(cfg, &mut r);
    }
    r.finish(cfg)
}

const ABORT_POINTS: &[&str] = &[
    "log.append.locked",
    "log.append.after_body",
    "log.append.after_flush",
    "cont.cache.enter",
    "cache.sidecar.written",
    "cache.msgidx.written",
    "cache.mr.written",
    "cache.mrord.written",
    "cache.comp.written",
    "cont.cache.exit",
    "index.tmp",
    "artifact.tmp",
    "artifact.renamed",
    "snapshot.created",
    "snapshot.written",
];

fn real_process_aborts(cfg: &Cfg, r: &mut Report) {
    use crate::c18::{http_json, host_port, rip_bin, Proc};
    let bin = rip_bin();
    if !bin.exists() {
        r.inconclusive(&format!("real binary {} not found: real-process abort cross-check skipped", bin.display()));
        return;
    }
    let n_cases = cfg.tier.pick(8u64, 60u64);
    let deadline = cfg.budget_s * cfg.tier.pick(1.6, 1.3);
    for k in 0..n_cases {
        if r.elapsed() > deadline {
            break;
        }
        let mut rng = cfg.case_rng(900_000 + k * 97 + cfg.shard.0);
        let point = ABORT_POINTS[((k + cfg.shard.0 * 5) as usize) % ABORT_POINTS.len()];
        let nth = 1 + rng.below(match point {
            "index.tmp" => 3,
            "snapshot.created" | "snapshot.written" => 4,
            "artifact.tmp" | "artifact.renamed" | "cache.comp.written" => 5,
            _ => 30,
        });
        let store = Store::new("c05rp");
        let mut cmd = std::process::Command::new(&bin);
        cmd.arg("serve")
            .env("RIP_SERVER_ADDR", "127.0.0.1:0")
            .env("RIP_DATA_DIR", &store.data)
            .env("RIP_WORKSPACE_ROOT", &store.ws)
            .env("RIP_CONFIG_HOME", store.dir.join("cfg"))
            .env("RIP_VERIF_ABORT", format!("{point}:{nth}"))
            .env_remove("RIP_VERIF_DELAY")
            .current_dir(&store.ws);
        let Ok(mut proc_) = Proc::spawn(cmd) else {
            r.inconclusive("cannot spawn rip serve");
            continue;
        };
        let mut endpoint = None;
        for _ in 0..400 {
            if let Some(e) = proc_.listening() {
                endpoint = Some(e);
                break;
            }
            if !proc_.alive() {
                break;
            }
            std::thread::sleep(Duration::from_millis(5));
        }
        let Some(endpoint) = endpoint else {
            proc_.finish();
            r.inconclusive("rip serve did not come up");
            continue;
        };
        let addr = host_port(&endpoint);
        let t = Duration::from_secs(5);
        let mut acked: Vec<String> = Vec::new();
        let mut conts: Vec<String> = Vec::new();
        let mut msgs: Vec<String> = Vec::new();
        if let Some((200, v, _)) = http_json(&addr, "POST", "/threads/ensure", None, t) {
            if let Some(id) = v["thread_id"].as_str() {
                conts.push(id.to_string());
            }
        }
        let mut steps = 0;
        while proc_.alive() && steps < 40 && !conts.is_empty() {
            steps += 1;
            let th = conts[0].clone();
            match rng.below(6) {
                0 | 1 | 2 => {
                    let content = if rng.bool() {
                        json!({"tool":"write","args":{"path": format!("f{steps}.txt"), "content": "x".repeat(1 + rng.usize(9000))}}).to_string()
                    } else {
                        format!("prompt {steps} {}", "y".repeat(rng.usize(9000)))
                    };
                    if let Some((202, v, _)) = http_json(&addr, "POST", &format!("/threads/{th}/messages"), Some(&json!({"content": content})), t) {
                        if let Some(id) = v["message_id"].as_str() {
                            acked.push(id.to_string());
                            msgs.push(id.to_string());
                        }
                    }
                }
                3 => {
                    if let Some(m) = msgs.last() {
                        if let Some((201, v, _)) = http_json(&addr, "POST", &format!("/threads/{th}/compaction-checkpoint"), Some(&json!({"summary_markdown":"s","to_message_id": m})), t) {
                            if let Some(id) = v["checkpoint_id"].as_str() {
                                acked.push(id.to_string());
                            }
                        }
                    }
                }
                4 => {
                    let _ = http_json(&addr, "POST", &format!("/threads/{th}/compaction-auto"), Some(&json!({"stride_messages": 2, "max_new_checkpoints": 2})), t);
                }
                _ => {
                    if let Some((201, v, _)) = http_json(&addr, "POST", &format!("/threads/{th}/branch"), Some(&json!({})), t) {
                        if let Some(id) = v["thread_id"].as_str() {
                            if conts.len() < 3 {
                                conts.push(id.to_string());
                            }
                        }
                    }
                }
            }
            std::thread::sleep(Duration::from_millis(rng.below(25)));
        }
        // give in-flight runs a moment to reach the abort point, then make sure the process is gone
        let aborted = proc_.wait_exit(Duration::from_millis(1500)).is_some();
        let stderr = proc_.stderr_text();
        proc_.finish();
        let self_abort = stderr.contains("rip-verif: abort at");
        r.count("real_process_cases", 1);
        if self_abort {
            r.count("real_process_self_aborts_at_point", 1);
            r.count(&format!("aborted_at:{point}"), 1);
        } else if aborted {
            r.count("real_process_exited_otherwise", 1);
        } else {
            r.count("real_process_killed_at_arbitrary_instant", 1);
        }
        let img = Image {
            dir: store.dir.clone(),
            point: if self_abort { point } else { "kill_at_arbitrary_instant" },
            op_index: steps,
            op_kind: "HttpDriven".into(),
            acked: acked.len(),
            conts: conts.clone(),
        };
        // the authority lock of the dead process would block nothing in-process (App::open takes no lock)
        judge_image(r, &img, &acked, 900_000 + k);
        r.eval();
        r.distinct_str(&format!("real_process@{}", img.point));
    }
}

fn one_history(cfg: &Cfg, r: &mut Report, s: &Arc<crate::sched::Sched>, rt: &tokio::runtime::Runtime, rng: &mut Rng, idx: u64) {
    let store = Store::new("c05");
    let img_root = store.dir.join("images");
    let _ = std::fs::create_dir_all(&img_root);
    let shared = Arc::new(Mutex::new(Shared {
        root: img_root.clone(),
        data: store.data.clone(),
        ws: store.ws.clone(),
        max_images: cfg.tier.pick(700, 1500),
        ..Default::default()
    }));
    s.reset();
    let sh2 = shared.clone();
    s.set_custom(Some(Arc::new(move |point: &'static str, _ctx: &str| {
        if !wanted(point) {
            return;
        }
        let mut g = sh2.lock().unwrap();
        if !g.active {
            return;
        }
        let h = {
            let e = g.hits.entry(point).or_insert(0);
            *e += 1;
            *e
        };
        // image the first 12 hits of a point always, then every 5th (keeps long histories affordable)
        if h > 12 && h % 5 != 0 {
            g.skipped += 1;
            return;
        }
        if g.images.len() >= g.max_images {
            g.skipped += 1;
            return;
        }
        let n = g.images.len();
        let dir = g.root.join(format!("{n}"));
        copy_dir(&g.data, &dir.join("data"));
        copy_dir(&g.ws.join(".rip"), &dir.join("ws").join(".rip"));
        let img = Image {
            dir,
            point,
            op_index: g.op_index,
            op_kind: g.op_kind.clone(),
            acked: g.acked.len(),
            conts: g.conts.clone(),
        };
        g.images.push(img);
    })));

    // ---- workload (sequential) --------------------------------------------------------------
    let app = App::open(&store, None).expect("open");
    {
        let mut g = shared.lock().unwrap();
        g.active = true; // the creation of the default thread is imaged too
        g.op_kind = "EnsureDefault".into();
    }
    let c0 = app.store().ensure_default().expect("default");
    {
        let mut g = shared.lock().unwrap();
        g.conts.push(c0.clone());
    }
    let mut known = Known::default();
    let ops = plan_ops(rng, cfg.tier.pick(8, 30));
    let mut op_desc: Vec<String> = Vec::new();
    for (i, kind) in ops.iter().enumerate() {
        {
            let mut g = shared.lock().unwrap();
            g.op_index = i;
            g.op_kind = format!("{kind:?}");
        }
        let conts: Vec<String> = shared.lock().unwrap().conts.clone();
        let res = exec(&app, &store.data, &conts, &mut known, *kind, rng, &format!("c{idx}"));
        op_desc.push(format!("{:?}", res.kind.unwrap_or(*kind)));
        let mut g = shared.lock().unwrap();
        g.op_kind = format!("{:?}", res.kind.unwrap_or(*kind));
        g.acked.extend(res.acked);
        if g.conts.len() < 4 {
            g.conts.extend(res.new_conts);
        }
        // a read that rebuilds a lost sidecar (crash points inside the rebuild)
        if i == 9 {
            drop(g);
            let _ = std::fs::remove_file(store.streams_dir().join(format!("{c0}.jsonl")));
            {
                let mut g = shared.lock().unwrap();
                g.op_kind = "ReplayRebuild".into();
            }
            let _ = app.store().replay_events(&c0);
        }
    }
    // a session through the router (snapshot + session frames)
    {
        let mut g = shared.lock().unwrap();
        g.op_index = ops.len();
        g.op_kind = "RouterRun".into();
    }
    let app2 = app.clone();
    let c0b = c0.clone();
    let log_path = store.log_path();
    let ran = rt.block_on(async move {
        let (st, v) = app2
            .json(
                "POST",
                &format!("/threads/{c0b}/messages"),
                Some(&json!({"content": json!({"tool":"write","args":{"path":"c05.txt","content":"x"}}).to_string()})),
            )
            .await;
        if st != 202 {
            return false;
        }
        let sid = v["session_id"].as_str().unwrap_or("").to_string();
        wait_for(Duration::from_secs(20), || {
            let t = String::from_utf8_lossy(&std::fs::read(&log_path).unwrap_or_default()).to_string();
            if t.contains("continuity_run_ended") && t.contains(&sid) && t.matches(&sid).count() >= 3 && t.rfind("continuity_run_ended").map(|p| t[p..].contains(&sid) || true).unwrap_or(false) {
                // run_ended for this session present?
                for line in t.lines().rev().take(50) {
                    if line.contains("continuity_run_ended") && line.contains(&sid) {
                        return Some(());
                    }
                }
            }
            None
        })
        .await
        .is_some()
    });
    if !ran {
        r.inconclusive(&format!("case {idx}: router run did not finish"));
    }
    let (images, acked_all, skipped) = {
        let mut g = shared.lock().unwrap();
        g.active = false;
        (std::mem::take(&mut g.images), g.acked.clone(), g.skipped)
    };
    s.set_custom(None);
    drop(app);
    r.count("images_taken", images.len() as u64);
    r.count("image_hits_sampled_out", skipped);
    r.count("workload_ops", ops.len() as u64 + 1);

    // ---- judge every image -----------------------------------------------------------------
    let mut per_point: BTreeMap<&'static str, u64> = BTreeMap::new();
    for img in &images {
        if r.over(cfg) && cfg.tier == crate::report::Tier::Quick && r.elapsed() > cfg.budget_s * 1.5 {
            r.count("images_not_judged_time_budget", 1);
            continue;
        }
        *per_point.entry(img.point).or_insert(0) += 1;
        judge_image(r, img, &acked_all[..img.acked], idx);
        r.eval();
        r.distinct_str(&format!("{}@{}", img.op_kind, img.point));
        let _ = std::fs::remove_dir_all(&img.dir);
    }
    for (p, n) in per_point {
        r.count(&format!("point:{p}"), n);
    }
    if r.samples.len() < r.max_samples {
        r.sample(json!({"case": idx, "ops": op_desc, "images": images.len(),
            "first_images": images.iter().take(6).map(|i| json!({"op": i.op_kind, "point": i.point, "acked_before": i.acked})).collect::<Vec<_>>()}));
    }
}

fn judge_image(r: &mut Report, img: &Image, acked: &[String], case: u64) {
    let st = Store::at(&img.dir, true);
    let _ = std::fs::create_dir_all(&st.ws);
    let wit = |extra: Value| json!({"case": case, "op_index": img.op_index, "op": img.op_kind, "crash_point": img.point, "detail": extra});
    let at = format!("crash@{}", img.point);

    // (1) restart
    let app = match App::open(&st, None) {
        Ok(a) => a,
        Err(e) => {
            r.violation(&format!("C05/restart_failed/{at}"), &format!("engine cannot be constructed on the crash image: {e}"), wit(json!(e)));
            return;
        }
    };
    // (2) replay
    let bytes = st.log_bytes();
    if let Ok(log) = rip_log::EventLog::new(st.log_path()) {
        if let Err(e) = log.replay_validated() {
            r.violation(
                &format!("C05/replay_fails_on_crash_image/{at}"),
                &format!("replay_validated fails on the crash image ({} during {}): {e}", img.point, img.op_kind),
                wit(json!(e.to_string())),
            );
            return;
        }
    }
    // independent parse; an unterminated but complete last line is what a crash between body and newline leaves
    let mut b2 = bytes.clone();
    if !b2.is_empty() && *b2.last().unwrap() != b'\n' {
        b2.push(b'\n');
        r.count("images_with_unterminated_last_line", 1);
    }
    let frames = match truth::parse_log(&b2) {
        Ok(f) => f,
        Err(e) => {
            r.violation(&format!("C05/torn_log_on_crash_image/{}/{at}", e.kind), &format!("log on the crash image is not whole frames: {}", e.detail), wit(json!(e.detail)));
            return;
        }
    };
    if let Err(e) = truth::check_streams(&frames) {
        r.violation(&format!("C05/stream_order_on_crash_image/{}/{at}", e.kind), &e.detail, wit(json!(e.detail)));
        return;
    }
    // (3) acknowledged appends present exactly once
    let mut count: HashMap<&str, u32> = HashMap::new();
    for f in &frames {
        *count.entry(f.id()).or_insert(0) += 1;
    }
    for id in acked {
        let n = count.get(id.as_str()).copied().unwrap_or(0);
        if n != 1 {
            r.violation(
                &format!("C05/acknowledged_append_{}/{at}", if n == 0 { "lost" } else { "duplicated" }),
                &format!("append acknowledged before the crash occurs {n} times after restart"),
                wit(json!({"id": id, "n": n})),
            );
            return;
        }
    }
    // (5a) caches reconciled or ignored — before any further append
    let conts: Vec<String> = img.conts.iter().filter(|c| frames.iter().any(|f| f.stream_id() == c.as_str())).cloned().collect();
    differential(r, &st, &frames, &conts, "before_append", &at, &wit);

    // (4) further appends continue the numbering
    let store = app.store();
    // every thread the restarted authority lists (index.json) and the default thread it hands out must be usable:
    // an index entry written before its creation frame would name a thread that has no stream
    let mut to_probe: Vec<String> = store.list().into_iter().map(|m| m.continuity_id).collect();
    if let Ok(d) = store.ensure_default() {
        to_probe.push(d);
    }
    to_probe.sort();
    to_probe.dedup();
    for id in to_probe {
        if let Err(e) = store.append_message(&id, "rv".into(), "rv".into(), "probe-after-crash".into()) {
            r.violation(
                &format!("C05/thread_listed_but_unusable/{at}"),
                &format!("after a crash at {} the restarted authority lists / hands out thread {id} but appending to it fails: {e}", img.point),
                wit(json!({"thread": id, "error": e})),
            );
            return;
        }
        r.count("listed_threads_probed_after_restart", 1);
    }
    for c in &conts {
        match store.append_message(c, "rv".into(), "rv".into(), "after-crash".into()) {
            Ok(_) => {}
            Err(e) => {
                r.violation(&format!("C05/append_after_restart_failed/{at}"), &format!("append after restart failed: {e}"), wit(json!(e)));
                return;
            }
        }
        let _ = store.append_run_spawned(c, "m", "s-after", "rv".into(), "rv".into());
    }
    if let Some(c) = conts.first() {
        let _ = store.compaction_auto_v1(
            c,
            ripd::CompactionAutoV1Request { stride_messages: Some(1), max_new_checkpoints: Some(1), dry_run: Some(false), actor_id: "rv".into(), origin: "rv".into() },
        );
    }
    drop(app);
    let bytes = st.log_bytes();
    let frames2 = match truth::parse_log(&bytes) {
        Ok(f) => f,
        Err(e) => {
            r.violation(
                &format!("C05/log_torn_after_restart_append/{}/{at}", e.kind),
                &format!("after restart + one append the log is no longer whole frames ({}): {}", img.point, e.detail),
                wit(json!(e.detail)),
            );
            return;
        }
    };
    if let Err(e) = truth::check_streams(&frames2) {
        r.violation(
            &format!("C05/numbering_broken_after_restart_append/{}/{at}", e.kind),
            &format!("after restart + one append: {}", e.detail),
            wit(json!(e.detail)),
        );
        return;
    }
    if let Ok(log) = rip_log::EventLog::new(st.log_path()) {
        if let Err(e) = log.replay_validated() {
            r.violation(&format!("C05/replay_fails_after_restart_append/{at}"), &format!("replay_validated fails after restart + append: {e}"), wit(json!(e.to_string())));
            return;
        }
    }
    // (5b) differential after the further appends
    differential(r, &st, &frames2, &conts, "after_append", &at, &wit);
    r.count("frames_on_images", frames2.len() as u64);
}

fn differential(
    r: &mut Report,
    st: &Store,
    frames: &[truth::Frame],
    conts: &[String],
    when: &str,
    at: &str,
    wit: &dyn Fn(Value) -> Value,
) {
    // only the first (default) continuity and the newest one: keeps the cost per image bounded
    let mut pick: Vec<&String> = Vec::new();
    if let Some(c) = conts.first() {
        pick.push(c);
    }
    if conts.len() > 1 {
        pick.push(conts.last().unwrap());
    }
    for c in pick {
        let tf = truth::stream(frames, "continuity", c);
        let msgs = truth::messages(&tf);
        let head = tf.last().map(|f| f.seq()).unwrap_or(0);
        let qs = queries(&msgs, head, true);
        let reference = st.fork_sharing_ws("c05ref");
        let _ = std::fs::remove_dir_all(reference.streams_dir());
        for q in qs.iter().filter(|q| {
            matches!(q.class, "replay" | "cursor_status" | "selection_status" | "status" | "cut_points")
                || q.name == "compile(anchor=tail)"
                || q.name == "branch(none)"
        }) {
            if q.class == "cut_points" && !q.name.contains("stride=1,limit=None") {
                continue;
            }
            if q.class == "status" && !q.name.contains("stride=1") {
                continue;
            }
            if q.class == "selection_status" && !q.name.contains("limit=None") {
                continue;
            }
            let fa = st.fork_sharing_ws("c05a");
            let fb = reference.fork_sharing_ws("c05b");
            let a = run_query(&fa, c, q);
            let b = run_query(&fb, c, q);
            r.count("recovered_store_queries_compared", 1);
            if a != b {
                r.violation(
                    &format!("C05/recovered_cache_disagrees_with_truth/{}/{when}/{at}", q.class),
                    &format!(
                        "after a crash at {at} the restarted store answers {} from a cache that was neither reconciled nor ignored ({when}): {}",
                        q.name,
                        diff_summary(&a, &b)
                    ),
                    wit(json!({"query": q.name, "when": when, "diff": diff_summary(&a, &b)})),
                );
            }
        }
    }
}
