//! C05 — a crash at any write boundary leaves a store that restarts gap-free.
//!
//! Crash-point enumeration by imaging: a sequential workload runs once with a crash imager
//! installed as the hook handler; at EVERY hit of every crash point (each file-system effect of
//! the log, sidecars, indexes, index.json, artifacts, snapshots) the on-disk state (data dir +
//! workspace `.rip`) is copied. A process killed at that instant leaves exactly these bytes
//! (process crash, completed write(2)s are visible). Every image is then restarted with a fresh
//! engine and judged: restart works, validated replay works, acknowledged appends are present
//! exactly once, further appends continue the numbering, and the caches found are either
//! reconciled or ignored (sampled C04 differential before and after the further appends).
//!
//! Frame-size dimension (`huge_frame_restarts`, runs first and time-boxed): short histories whose LAST frames
//! before the crash / restart are larger than the read windows of the restart-time readers (line lengths drawn
//! around every multiple of 8 KiB / 64 KiB / 256 KiB, several tail layouts over one or two streams and two frame
//! kinds). Their crash images AND the plain clean restart (drop the engine, reopen: the degenerate crash point)
//! go through the same restart oracle.

use crate::c04::{diff_summary, queries, run_query};
use crate::fixture::{copy_dir, runtime, wait_for, App, Store};
use crate::gen_hist::{exec, Known, OpKind};
use crate::prng::Rng;
use crate::report::{Cfg, Report};
use crate::sched::sched;
use crate::truth;
use serde_json::{json, Value};
use std::collections::{BTreeMap, HashMap};
use std::path::PathBuf;
use std::sync::{Arc, Mutex};
use std::time::Duration;

const POINT_PREFIXES: &[&str] = &["log.append.", "cont.cache.", "cache.", "index.", "artifact.", "snapshot."];

#[derive(Clone, Debug)]
struct Image {
    dir: PathBuf,
    point: &'static str,
    op_index: usize,
    op_kind: String,
    acked: usize,
    conts: Vec<String>,
}

#[derive(Default)]
struct Shared {
    active: bool,
    op_index: usize,
    op_kind: String,
    acked: Vec<String>,
    conts: Vec<String>,
    images: Vec<Image>,
    root: PathBuf,
    data: PathBuf,
    ws: PathBuf,
    max_images: usize,
    skipped: u64,
    // sampling stride per point for very chatty points
    hits: HashMap<&'static str, u64>,
}

fn wanted(point: &str) -> bool {
    if point == "cache.scan" || point == "cache.rebuild.line" {
        return false;
    }
    POINT_PREFIXES.iter().any(|p| point.starts_with(p))
}

fn plan_ops(rng: &mut Rng, n: usize) -> Vec<OpKind> {
    // fixed prelude guarantees every op kind (and with it every crash point) occurs
    let mut ops = vec![
        OpKind::Msg,
        OpKind::BigMsg,
        OpKind::RunSpawned,
        OpKind::Compile,
        OpKind::SideEffects,
        OpKind::Cursor,
        OpKind::RunEnded,
        OpKind::Msg,
        OpKind::ManualCkpt,
        OpKind::Msg,
        OpKind::Auto,
        OpKind::Msg,
        OpKind::Schedule,
        OpKind::Rotate,
        OpKind::Branch,
        OpKind::Handoff,
        OpKind::BigMsg,
        OpKind::HugeMsg,
        OpKind::Msg,
    ];
    let w = crate::gen_hist::default_weights();
    for _ in 0..n {
        ops.push(crate::gen_hist::pick_kind(rng, &w));
    }
    ops
}

pub fn run(cfg: &Cfg) -> i32 {
    let mut r = Report::new(
        "C05",
        "fault_enumeration",
        "every hit of every crash point (log/sidecar/index/artifact/snapshot write boundaries, incl. between body and \
         newline of frames larger than the writer buffer) of every operation of seeded sequential workloads is imaged \
         (copy of data dir + workspace .rip), restarted with a fresh engine and judged; in addition short histories \
         whose last frames are larger than the restart-time read windows (log line lengths on and around the multiples \
         of 8/64/256 KiB and drawn up to ~330 KiB, six tail layouts over one or two streams, message and hand-off \
         frames) are restarted from a few crash images of their tail and from a clean restart (engine dropped, store \
         reopened) under the same oracle; distinct = distinct (operation kind, crash point) pairs whose image was \
         restarted, for the large-frame histories (layout, line-length classes, operation, restart point)",
    );
    r.assume("a directory copy taken at a hook equals what a process kill leaves (process crash, not power loss; the code never fsyncs)");
    r.assume("the workload is sequential, so the image is taken while no other writer is active");
    let s = sched();
    let rt = runtime(4);
    // frame size relative to the restart-time read windows (time-boxed, before the long general histories)
    huge_frame_restarts(cfg, &mut r, &s);
    let mut case = 0u64;
    while !r.over(cfg) && case < cfg.tier.pick(200, 100_000) {
        let idx = case;
        case += 1;
        if !cfg.mine(idx) {
            continue;
        }
        let mut rng = cfg.case_rng(idx);
        one_history(cfg, &mut r, &s, &rt, &mut rng, idx);
    }
    s.reset();
    // real-process cross-check: the hooked `rip serve` aborts itself at a named point (RIP_VERIF_ABORT) while it
    // is driven over HTTP; the store it leaves is judged exactly like an image. This validates that a directory
    // copy taken at a hook is what a real process death leaves.
    if cfg.shard.0 == 0 || cfg.tier == crate::report::Tier::Thorough {
        real_process_aborts(cfg, &mut r);
    }
    r.finish(cfg)
}

const ABORT_POINTS: &[&str] = &[
    "log.append.locked",
    "log.append.after_body",
    "log.append.after_flush",
    "cont.cache.enter",
    "cache.sidecar.written",
    "cache.msgidx.written",
    "cache.mr.written",
    "cache.mrord.written",
    "cache.comp.written",
    "cont.cache.exit",
    "index.tmp",
    "artifact.tmp",
    "artifact.renamed",
    "snapshot.created",
    "snapshot.written",
];

fn real_process_aborts(cfg: &Cfg, r: &mut Report) {
    use crate::c18::{http_json, host_port, rip_bin, Proc};
    let bin = rip_bin();
    if !bin.exists() {
        r.inconclusive(&format!("real binary {} not found: real-process abort cross-check skipped", bin.display()));
        return;
    }
    let n_cases = cfg.tier.pick(8u64, 60u64);
    let deadline = cfg.budget_s * cfg.tier.pick(1.6, 1.3);
    for k in 0..n_cases {
        if r.elapsed() > deadline {
            break;
        }
        let mut rng = cfg.case_rng(900_000 + k * 97 + cfg.shard.0);
        let point = ABORT_POINTS[((k + cfg.shard.0 * 5) as usize) % ABORT_POINTS.len()];
        let nth = 1 + rng.below(match point {
            "index.tmp" => 3,
            "snapshot.created" | "snapshot.written" => 4,
            "artifact.tmp" | "artifact.renamed" | "cache.comp.written" => 5,
            _ => 30,
        });
        let store = Store::new("c05rp");
        let mut cmd = std::process::Command::new(&bin);
        cmd.arg("serve")
            .env("RIP_SERVER_ADDR", "127.0.0.1:0")
            .env("RIP_DATA_DIR", &store.data)
            .env("RIP_WORKSPACE_ROOT", &store.ws)
            .env("RIP_CONFIG_HOME", store.dir.join("cfg"))
            .env("RIP_VERIF_ABORT", format!("{point}:{nth}"))
            .env_remove("RIP_VERIF_DELAY")
            .current_dir(&store.ws);
        let Ok(mut proc_) = Proc::spawn(cmd) else {
            r.inconclusive("cannot spawn rip serve");
            continue;
        };
        let mut endpoint = None;
        for _ in 0..400 {
            if let Some(e) = proc_.listening() {
                endpoint = Some(e);
                break;
            }
            if !proc_.alive() {
                break;
            }
            std::thread::sleep(Duration::from_millis(5));
        }
        let Some(endpoint) = endpoint else {
            proc_.finish();
            r.inconclusive("rip serve did not come up");
            continue;
        };
        let addr = host_port(&endpoint);
        let t = Duration::from_secs(5);
        let mut acked: Vec<String> = Vec::new();
        let mut conts: Vec<String> = Vec::new();
        let mut msgs: Vec<String> = Vec::new();
        if let Some((200, v, _)) = http_json(&addr, "POST", "/threads/ensure", None, t) {
            if let Some(id) = v["thread_id"].as_str() {
                conts.push(id.to_string());
            }
        }
        let mut steps = 0;
        while proc_.alive() && steps < 40 && !conts.is_empty() {
            steps += 1;
            let th = conts[0].clone();
            match rng.below(6) {
                0 | 1 | 2 => {
                    let content = if rng.bool() {
                        json!({"tool":"write","args":{"path": format!("f{steps}.txt"), "content": "x".repeat(1 + rng.usize(9000))}}).to_string()
                    } else {
                        format!("prompt {steps} {}", "y".repeat(rng.usize(9000)))
                    };
                    if let Some((202, v, _)) = http_json(&addr, "POST", &format!("/threads/{th}/messages"), Some(&json!({"content": content})), t) {
                        if let Some(id) = v["message_id"].as_str() {
                            acked.push(id.to_string());
                            msgs.push(id.to_string());
                        }
                    }
                }
                3 => {
                    if let Some(m) = msgs.last() {
                        if let Some((201, v, _)) = http_json(&addr, "POST", &format!("/threads/{th}/compaction-checkpoint"), Some(&json!({"summary_markdown":"s","to_message_id": m})), t) {
                            if let Some(id) = v["checkpoint_id"].as_str() {
                                acked.push(id.to_string());
                            }
                        }
                    }
                }
                4 => {
                    let _ = http_json(&addr, "POST", &format!("/threads/{th}/compaction-auto"), Some(&json!({"stride_messages": 2, "max_new_checkpoints": 2})), t);
                }
                _ => {
                    if let Some((201, v, _)) = http_json(&addr, "POST", &format!("/threads/{th}/branch"), Some(&json!({})), t) {
                        if let Some(id) = v["thread_id"].as_str() {
                            if conts.len() < 3 {
                                conts.push(id.to_string());
                            }
                        }
                    }
                }
            }
            std::thread::sleep(Duration::from_millis(rng.below(25)));
        }
        // give in-flight runs a moment to reach the abort point, then make sure the process is gone
        let aborted = proc_.wait_exit(Duration::from_millis(1500)).is_some();
        let stderr = proc_.stderr_text();
        proc_.finish();
        let self_abort = stderr.contains("rip-verif: abort at");
        r.count("real_process_cases", 1);
        if self_abort {
            r.count("real_process_self_aborts_at_point", 1);
            r.count(&format!("aborted_at:{point}"), 1);
        } else if aborted {
            r.count("real_process_exited_otherwise", 1);
        } else {
            r.count("real_process_killed_at_arbitrary_instant", 1);
        }
        let img = Image {
            dir: store.dir.clone(),
            point: if self_abort { point } else { "kill_at_arbitrary_instant" },
            op_index: steps,
            op_kind: "HttpDriven".into(),
            acked: acked.len(),
            conts: conts.clone(),
        };
        // the authority lock of the dead process would block nothing in-process (App::open takes no lock)
        judge_image(r, &img, &acked, 900_000 + k);
        r.eval();
        r.distinct_str(&format!("real_process@{}", img.point));
    }
}

// ---------------------------------------------------------------------------------------------------------
// Frame size relative to the read windows of the restart-time readers
// ---------------------------------------------------------------------------------------------------------

const CLEAN_RESTART: &str = "clean_restart";
const K: usize = 1024;

/// Wanted lengths of the frame's log line (bytes, newline excluded; with the newline one more). The marks are the
/// multiples of the windows the readers use at / after a restart: 8 KiB (writer / reader buffers, reverse-scan
/// chunks of the sidecars), 64 KiB (backward-scan chunks of the log, first sidecar back-scan), 256 KiB and 512 KiB
/// (first tail windows; they double from there). Ordered so that any few consecutive entries differ in how many
/// windows the line spans. Nothing here is derived from any particular reader: a reader with another window is
/// reached by the random sizes of the cases after the table.
const LINE_TARGETS: &[usize] = &[
    128 * K + 1,
    64 * K,
    300_000,
    192 * K + 1,
    8 * K,
    64 * K + 1,
    128 * K - 1,
    256 * K + 1,
    64 * K - 1,
    16 * K + 1,
    128 * K,
    256 * K - 1,
    192 * K - 1,
    64 * K - 2,
    8 * K - 1,
    256 * K,
    128 * K - 2,
    192 * K,
    512 * K + 1,
    8 * K + 1,
];

/// What the tail of the history (the part that is imaged and then restarted) looks like. A = default thread,
/// B = a branch of it.
const TAIL_LAYOUTS: &[&str] = &[
    "huge_last",               // … HUGE(A)
    "huge_then_tiny_other",    // … HUGE(A) tiny(B): last of its stream, but not at the end of the file
    "two_streams_interleaved", // … HUGE(A) HUGE(B) [tiny(A)]
    "huge_then_tiny_same",     // … HUGE(A) tiny(A): second-to-last
    "huge_handoff",            // … hand-off whose creation frame carries a huge summary: last frame of the NEW thread
    "two_huge_same",           // … HUGE(A) HUGE'(A)
];

#[derive(Default)]
struct TailShared {
    active: bool,
    op_index: usize,
    op_kind: String,
    huge_op: bool,
    acked: usize,
    conts: Vec<String>,
    root: PathBuf,
    data: PathBuf,
    ws: PathBuf,
    /// (image, rank): 2 = taken during a huge append right after its log line (body / whole line) reached the file,
    /// 1 = at another boundary of a huge append where a huge line is the tail of the log or the sidecar, 0 = the rest
    images: Vec<(Image, u8)>,
    hits: u64,
    skipped: u64,
    rng_state: u64,
}

fn size_class(line_len: usize) -> String {
    // windows the line spans at least / which side of the nearest 64 KiB multiple it is on
    let w = if line_len < 48 * K { 8 * K } else { 64 * K };
    let with_nl = line_len + 1;
    let near = ((with_nl + w / 2) / w) * w;
    if near == 0 {
        "small".to_string()
    } else if with_nl == near || line_len == near {
        format!("{}K=", near / K)
    } else if with_nl + 2 >= near && with_nl < near {
        format!("{}K-", near / K)
    } else if with_nl > near && line_len <= near + 2 {
        format!("{}K+", near / K)
    } else {
        format!("~{}K", (line_len / (w / 2)) * (w / 2) / K)
    }
}

fn last_line_len(path: &std::path::Path) -> usize {
    let b = std::fs::read(path).unwrap_or_default();
    let b = if b.last() == Some(&b'\n') { &b[..b.len() - 1] } else { &b[..] };
    match b.iter().rposition(|c| *c == b'\n') {
        Some(p) => b.len() - p - 1,
        None => b.len(),
    }
}

fn filler(rng: &mut Rng, n: usize) -> String {
    // plain ASCII without anything JSON escapes: content bytes == line bytes
    const A: &[u8] = b"abcdefghijklmnopqrstuvwxyzABCDEFGHIJKLMNOPQRSTUVWXYZ0123456789 _-.,";
    let word = rng.ascii(97);
    let mut s = String::with_capacity(n + 100);
    while s.len() < n {
        s.push_str(&word);
        s.push(A[rng.usize(A.len())] as char);
    }
    s.truncate(n);
    s
}

/// Histories whose last frames are larger than the restart-time read windows; restart oracle on a few crash images
/// of the tail and on the clean restart.
fn huge_frame_restarts(cfg: &Cfg, r: &mut Report, s: &Arc<crate::sched::Sched>) {
    let time_box = cfg.budget_s * cfg.tier.pick(0.2, 0.15);
    let max_cases = cfg.tier.pick(120u64, 4000u64);
    // different seeds walk the table from a different entry
    let rot = (cfg.seed as usize).wrapping_mul(7);
    let mut i = 0u64;
    while i < max_cases && r.elapsed() < time_box {
        let idx = i;
        i += 1;
        if !cfg.mine(idx) {
            continue;
        }
        let mut rng = cfg.case_rng(700_000 + idx);
        let k = idx as usize;
        let layout = TAIL_LAYOUTS[(k / TAIL_LAYOUTS.len() + k) % TAIL_LAYOUTS.len()];
        // the first 240 cases walk the whole (line length x layout) table with the first huge frame exactly on the
        // table value; everything else (second huge frame, later cases) is drawn
        let directed = k < LINE_TARGETS.len() * TAIL_LAYOUTS.len() * 2;
        let draw = |rng: &mut Rng, j: usize| -> usize {
            let t = LINE_TARGETS[(k + rot + j * 5) % LINE_TARGETS.len()];
            let t = if directed && j == 0 {
                t
            } else {
                match rng.below(4) {
                    0 => t,
                    // near a mark, but off by up to the framing overhead (a reader may count content, not line, bytes)
                    1 => (t + rng.usize(700)).saturating_sub(350),
                    _ => 60 * K + rng.usize(270 * K),
                }
            };
            // the largest class only rarely in the quick tier (cost)
            if t > 400 * K && cfg.tier == crate::report::Tier::Quick && !rng.chance(1, 4) {
                320 * K + 1
            } else {
                t.max(600)
            }
        };
        let t0 = draw(&mut rng, 0);
        let t1 = draw(&mut rng, 1);
        one_huge_history(cfg, r, s, &mut rng, idx, layout, [t0, t1], time_box);
    }
    s.reset();
}

#[allow(clippy::too_many_arguments)]
fn one_huge_history(
    cfg: &Cfg,
    r: &mut Report,
    s: &Arc<crate::sched::Sched>,
    rng: &mut Rng,
    idx: u64,
    layout: &'static str,
    targets: [usize; 2],
    time_box: f64,
) {
    let case = 700_000 + idx;
    let store = Store::new("c05huge");
    let img_root = store.dir.join("images");
    let _ = std::fs::create_dir_all(&img_root);
    let shared = Arc::new(Mutex::new(TailShared {
        root: img_root.clone(),
        data: store.data.clone(),
        ws: store.ws.clone(),
        rng_state: rng.below(u64::MAX),
        ..Default::default()
    }));
    s.reset();
    let max_candidates = cfg.tier.pick(24usize, 40usize);
    let sh2 = shared.clone();
    s.set_custom(Some(Arc::new(move |point: &'static str, _ctx: &str| {
        if !wanted(point) {
            return;
        }
        let mut g = sh2.lock().unwrap();
        if !g.active {
            return;
        }
        g.hits += 1;
        // boundaries at which a huge line is (part of) the tail of the log / sidecar, and the entry of the next op
        // (= everything of the previous op on disk) always; the other boundaries sampled 1 in 3
        let priority = matches!(point, "log.append.enter" | "log.append.after_body" | "log.append.after_flush" | "cache.sidecar.after_body" | "cont.cache.exit");
        g.rng_state = g.rng_state.wrapping_mul(6364136223846793005).wrapping_add(1442695040888963407);
        let keep = priority || (g.rng_state >> 33) % 3 == 0;
        if !keep || g.images.len() >= max_candidates {
            g.skipped += 1;
            return;
        }
        let n = g.images.len();
        let dir = g.root.join(format!("{n}"));
        copy_dir(&g.data, &dir.join("data"));
        copy_dir(&g.ws.join(".rip"), &dir.join("ws").join(".rip"));
        let img = Image { dir, point, op_index: g.op_index, op_kind: g.op_kind.clone(), acked: g.acked, conts: g.conts.clone() };
        let rank = if !g.huge_op || !priority || point == "log.append.enter" {
            0
        } else if matches!(point, "log.append.after_body" | "log.append.after_flush") {
            2
        } else {
            1
        };
        g.images.push((img, rank));
    })));

    // ---- prefix (not imaged): a few small frames, the second stream, one calibration message per stream --------
    let app = App::open(&store, None).expect("open");
    let st = app.store();
    let a = st.ensure_default().expect("default");
    let mut known = Known::default();
    let tag = format!("h{idx}");
    let mut acked: Vec<String> = Vec::new();
    let mut conts = vec![a.clone()];
    for _ in 0..rng.range(1, 3) {
        let kind = if rng.chance(1, 5) { OpKind::BigMsg } else { OpKind::Msg };
        acked.extend(exec(&app, &store.data, &conts, &mut known, kind, rng, &tag).acked);
    }
    let needs_b = matches!(layout, "huge_then_tiny_other" | "two_streams_interleaved");
    if needs_b {
        match st.branch(&a, Some("b".into()), None, None, "rv-huge".into(), "rv".into()) {
            Ok((b, _, _)) => conts.push(b),
            Err(e) => {
                r.inconclusive(&format!("huge case {idx}: branch failed: {e}"));
                s.set_custom(None);
                return;
            }
        }
    }
    let log_path = store.log_path();
    // framing overhead of a message line on each stream (same actor / origin / seq width as the huge one)
    let mut overhead: Vec<usize> = Vec::new();
    for c in conts.clone() {
        let cal_n = rng.usize(30);
        let cal = format!("{tag}-calibration {}", rng.ascii(cal_n));
        match st.append_message(&c, "rv-huge".into(), "rv".into(), cal.clone()) {
            Ok(id) => acked.push(id),
            Err(e) => {
                r.inconclusive(&format!("huge case {idx}: calibration append failed: {e}"));
                s.set_custom(None);
                return;
            }
        }
        overhead.push(last_line_len(&log_path).saturating_sub(cal.len()));
    }

    // ---- tail (imaged) -----------------------------------------------------------------------------------------
    #[derive(Clone, Copy)]
    enum TailOp {
        Huge(usize, usize), // (stream index, wanted line length)
        Tiny(usize),
        HugeHandoff(usize),
    }
    let tail: Vec<TailOp> = match layout {
        "huge_last" => vec![TailOp::Huge(0, targets[0])],
        "huge_then_tiny_other" => vec![TailOp::Huge(0, targets[0]), TailOp::Tiny(1)],
        "two_streams_interleaved" => {
            let mut v = vec![TailOp::Huge(0, targets[0]), TailOp::Huge(1, targets[1])];
            if rng.bool() {
                v.push(TailOp::Tiny(0));
            }
            v
        }
        "huge_then_tiny_same" => vec![TailOp::Huge(0, targets[0]), TailOp::Tiny(0)],
        "huge_handoff" => {
            let mut v = vec![TailOp::HugeHandoff(targets[0])];
            if rng.bool() {
                v.push(TailOp::Tiny(0));
            }
            v
        }
        _ => vec![TailOp::Huge(0, targets[0]), TailOp::Huge(0, targets[1])],
    };
    {
        let mut g = shared.lock().unwrap();
        g.conts = conts.clone();
        g.acked = acked.len();
        g.active = true;
    }
    let mut lines: Vec<usize> = Vec::new();
    let mut desc: Vec<String> = Vec::new();
    for (oi, op) in tail.iter().enumerate() {
        {
            let mut g = shared.lock().unwrap();
            g.op_index = oi;
            g.huge_op = !matches!(op, TailOp::Tiny(_));
            g.op_kind = match op {
                TailOp::Huge(si, t) => format!("HugeMsg[{layout};stream{si};line{t}]"),
                TailOp::Tiny(si) => format!("TinyAfterHuge[{layout};stream{si}]"),
                TailOp::HugeHandoff(t) => format!("HugeHandoff[{layout};summary{t}]"),
            };
        }
        let mut new_acked: Vec<String> = Vec::new();
        match *op {
            TailOp::Huge(si, target) => {
                let mut content = format!("{tag}-huge{oi} ");
                let want = target.saturating_sub(overhead[si]).max(content.len());
                let pad = filler(rng, want - content.len());
                content.push_str(&pad);
                match st.append_message(&conts[si], "rv-huge".into(), "rv".into(), content) {
                    Ok(id) => new_acked.push(id),
                    Err(e) => r.inconclusive(&format!("huge case {idx}: huge append failed: {e}")),
                }
                let got = last_line_len(&log_path);
                lines.push(got);
                r.count("huge_frames_appended", 1);
                r.count("huge_frame_bytes_appended", got as u64);
                if got == target {
                    r.count("huge_frames_exactly_on_wanted_line_length", 1);
                }
                r.count(&format!("huge_line_class:{}", size_class(got)), 1);
                desc.push(format!("huge(stream{si},{got}B)"));
            }
            TailOp::Tiny(si) => {
                let kind = *rng.pick(&[OpKind::Msg, OpKind::Msg, OpKind::RunSpawned, OpKind::Cursor, OpKind::SideEffects]);
                let res = exec(&app, &store.data, &conts[si..si + 1], &mut known, kind, rng, &tag);
                new_acked.extend(res.acked);
                desc.push(format!("tiny(stream{si},{:?})", res.kind.unwrap_or(kind)));
            }
            TailOp::HugeHandoff(target) => {
                let summary = format!("{tag}-handoff {}", filler(rng, target));
                match st.handoff(&a, Some("huge".into()), (Some(summary), None), None, None, ("rv-huge".into(), "rv".into())) {
                    Ok((child, _, _)) => {
                        conts.push(child);
                        // the creation frames are not reported individually by `handoff`; the oracle still demands
                        // gap-free numbering and usability of the new thread
                    }
                    Err(e) => r.inconclusive(&format!("huge case {idx}: handoff failed: {e}")),
                }
                let frames = truth::parse_log(&store.log_bytes()).unwrap_or_default();
                let got = frames.iter().map(|f| f.v.to_string().len()).max().unwrap_or(0);
                lines.push(got);
                r.count("huge_frames_appended", 1);
                r.count("huge_handoff_frames_appended", 1);
                r.count("huge_frame_bytes_appended", got as u64);
                r.count(&format!("huge_line_class:{}", size_class(got)), 1);
                desc.push(format!("huge_handoff(~{got}B)"));
            }
        }
        acked.extend(new_acked);
        let mut g = shared.lock().unwrap();
        g.acked = acked.len();
        g.conts = conts.clone();
    }
    let (mut candidates, hits, skipped) = {
        let mut g = shared.lock().unwrap();
        g.active = false;
        (std::mem::take(&mut g.images), g.hits, g.skipped)
    };
    s.set_custom(None);
    drop(st);
    drop(app);
    r.count("huge_histories", 1);
    r.count(&format!("huge_layout:{layout}"), 1);
    r.count("huge_tail_hook_hits", hits);
    r.count("huge_tail_images_taken", candidates.len() as u64);
    r.count("huge_tail_hits_not_imaged", skipped);
    let classes: Vec<String> = lines.iter().map(|l| size_class(*l)).collect();

    // ---- which images are restarted: always the clean restart of the finished history, then a few of the tail's
    //      crash images: first the two where a huge line has just reached the log ("body written, no newline yet" and
    //      "whole line in the log, caches not yet", alternating which comes first), the others drawn from all
    //      boundaries -------------------------------------------------------------------------------------------------
    let n_crash = cfg.tier.pick(2usize, 6usize);
    let mut chosen: Vec<Image> = Vec::new();
    let order = if (idx / cfg.shard.1.max(1) + idx) % 2 == 0 {
        ["log.append.after_body", "log.append.after_flush"]
    } else {
        ["log.append.after_flush", "log.append.after_body"]
    };
    for prefer in order {
        if let Some(p) = {
            let of = |f: &dyn Fn(&(Image, u8)) -> bool| -> Vec<usize> { candidates.iter().enumerate().filter(|(_, c)| f(c)).map(|(i, _)| i).collect() };
            let mut pri = of(&|c| c.1 == 2 && c.0.point == prefer);
            if pri.is_empty() {
                pri = of(&|c| c.1 == 2);
            }
            if pri.is_empty() {
                pri = of(&|c| c.1 == 1);
            }
            if pri.is_empty() { None } else { Some(pri[rng.usize(pri.len())]) }
        } {
            chosen.push(candidates.remove(p).0);
        }
    }
    while chosen.len() < n_crash && !candidates.is_empty() {
        let p = rng.usize(candidates.len());
        chosen.push(candidates.remove(p).0);
    }
    for (c, _) in &candidates {
        let _ = std::fs::remove_dir_all(&c.dir);
    }
    // the clean restart works on the store itself (nothing else needs it any more)
    let clean = Image {
        dir: store.dir.clone(),
        point: CLEAN_RESTART,
        op_index: tail.len(),
        op_kind: format!("CleanRestartAfterHugeTail[{layout};lines{lines:?}]"),
        acked: acked.len(),
        conts: conts.clone(),
    };
    let mut judged = 0u64;
    for (n, img) in std::iter::once(&clean).chain(chosen.iter()).enumerate() {
        // the clean restart of a history that was built and its first crash image (a huge line as the file tail,
        // where there is one) are always judged; further crash images only inside the time box
        if n > 1 && r.elapsed() > time_box * 1.25 {
            r.count("huge_tail_images_not_judged_time_box", 1);
            continue;
        }
        judge_image(r, img, &acked[..img.acked.min(acked.len())], case);
        r.eval();
        judged += 1;
        let op = img.op_kind.split('[').next().unwrap_or("");
        r.distinct_str(&format!("huge:{layout}:{classes:?}:{op}@{}", img.point));
        if img.point == CLEAN_RESTART {
            r.count("huge_clean_restarts_judged", 1);
        } else {
            r.count("huge_crash_images_judged", 1);
            r.count(&format!("huge_point:{}", img.point), 1);
        }
    }
    for img in &chosen {
        let _ = std::fs::remove_dir_all(&img.dir);
    }
    if r.samples.len() < 2 {
        r.sample(json!({"case": case, "layout": layout, "wanted_line_bytes": targets, "tail": desc, "line_bytes": lines,
            "images_restarted": judged, "crash_images": chosen.iter().map(|i| json!({"op": i.op_kind, "point": i.point})).collect::<Vec<_>>()}));
    }
}

fn one_history(cfg: &Cfg, r: &mut Report, s: &Arc<crate::sched::Sched>, rt: &tokio::runtime::Runtime, rng: &mut Rng, idx: u64) {
    let store = Store::new("c05");
    let img_root = store.dir.join("images");
    let _ = std::fs::create_dir_all(&img_root);
    let shared = Arc::new(Mutex::new(Shared {
        root: img_root.clone(),
        data: store.data.clone(),
        ws: store.ws.clone(),
        max_images: cfg.tier.pick(700, 1500),
        ..Default::default()
    }));
    s.reset();
    let sh2 = shared.clone();
    s.set_custom(Some(Arc::new(move |point: &'static str, _ctx: &str| {
        if !wanted(point) {
            return;
        }
        let mut g = sh2.lock().unwrap();
        if !g.active {
            return;
        }
        let h = {
            let e = g.hits.entry(point).or_insert(0);
            *e += 1;
            *e
        };
        // image the first 12 hits of a point always, then every 5th (keeps long histories affordable)
        if h > 12 && h % 5 != 0 {
            g.skipped += 1;
            return;
        }
        if g.images.len() >= g.max_images {
            g.skipped += 1;
            return;
        }
        let n = g.images.len();
        let dir = g.root.join(format!("{n}"));
        copy_dir(&g.data, &dir.join("data"));
        copy_dir(&g.ws.join(".rip"), &dir.join("ws").join(".rip"));
        let img = Image {
            dir,
            point,
            op_index: g.op_index,
            op_kind: g.op_kind.clone(),
            acked: g.acked.len(),
            conts: g.conts.clone(),
        };
        g.images.push(img);
    })));

    // ---- workload (sequential) --------------------------------------------------------------
    let app = App::open(&store, None).expect("open");
    {
        let mut g = shared.lock().unwrap();
        g.active = true; // the creation of the default thread is imaged too
        g.op_kind = "EnsureDefault".into();
    }
    let c0 = app.store().ensure_default().expect("default");
    {
        let mut g = shared.lock().unwrap();
        g.conts.push(c0.clone());
    }
    let mut known = Known::default();
    let ops = plan_ops(rng, cfg.tier.pick(8, 30));
    let mut op_desc: Vec<String> = Vec::new();
    for (i, kind) in ops.iter().enumerate() {
        {
            let mut g = shared.lock().unwrap();
            g.op_index = i;
            g.op_kind = format!("{kind:?}");
        }
        let conts: Vec<String> = shared.lock().unwrap().conts.clone();
        let res = exec(&app, &store.data, &conts, &mut known, *kind, rng, &format!("c{idx}"));
        op_desc.push(format!("{:?}", res.kind.unwrap_or(*kind)));
        let mut g = shared.lock().unwrap();
        g.op_kind = format!("{:?}", res.kind.unwrap_or(*kind));
        g.acked.extend(res.acked);
        if g.conts.len() < 4 {
            g.conts.extend(res.new_conts);
        }
        // a read that rebuilds a lost sidecar (crash points inside the rebuild)
        if i == 9 {
            drop(g);
            let _ = std::fs::remove_file(store.streams_dir().join(format!("{c0}.jsonl")));
            {
                let mut g = shared.lock().unwrap();
                g.op_kind = "ReplayRebuild".into();
            }
            let _ = app.store().replay_events(&c0);
        }
    }
    // a session through the router (snapshot + session frames)
    {
        let mut g = shared.lock().unwrap();
        g.op_index = ops.len();
        g.op_kind = "RouterRun".into();
    }
    let app2 = app.clone();
    let c0b = c0.clone();
    let log_path = store.log_path();
    let ran = rt.block_on(async move {
        let (st, v) = app2
            .json(
                "POST",
                &format!("/threads/{c0b}/messages"),
                Some(&json!({"content": json!({"tool":"write","args":{"path":"c05.txt","content":"x"}}).to_string()})),
            )
            .await;
        if st != 202 {
            return false;
        }
        let sid = v["session_id"].as_str().unwrap_or("").to_string();
        wait_for(Duration::from_secs(20), || {
            let t = String::from_utf8_lossy(&std::fs::read(&log_path).unwrap_or_default()).to_string();
            if t.contains("continuity_run_ended") && t.contains(&sid) && t.matches(&sid).count() >= 3 && t.rfind("continuity_run_ended").map(|p| t[p..].contains(&sid) || true).unwrap_or(false) {
                // run_ended for this session present?
                for line in t.lines().rev().take(50) {
                    if line.contains("continuity_run_ended") && line.contains(&sid) {
                        return Some(());
                    }
                }
            }
            None
        })
        .await
        .is_some()
    });
    if !ran {
        r.inconclusive(&format!("case {idx}: router run did not finish"));
    }
    let (images, acked_all, skipped) = {
        let mut g = shared.lock().unwrap();
        g.active = false;
        (std::mem::take(&mut g.images), g.acked.clone(), g.skipped)
    };
    s.set_custom(None);
    drop(app);
    r.count("images_taken", images.len() as u64);
    r.count("image_hits_sampled_out", skipped);
    r.count("workload_ops", ops.len() as u64 + 1);

    // ---- judge every image -----------------------------------------------------------------
    let mut per_point: BTreeMap<&'static str, u64> = BTreeMap::new();
    for img in &images {
        if r.over(cfg) && cfg.tier == crate::report::Tier::Quick && r.elapsed() > cfg.budget_s * 1.5 {
            r.count("images_not_judged_time_budget", 1);
            continue;
        }
        *per_point.entry(img.point).or_insert(0) += 1;
        judge_image(r, img, &acked_all[..img.acked], idx);
        r.eval();
        r.distinct_str(&format!("{}@{}", img.op_kind, img.point));
        let _ = std::fs::remove_dir_all(&img.dir);
    }
    for (p, n) in per_point {
        r.count(&format!("point:{p}"), n);
    }
    if r.samples.len() < r.max_samples {
        r.sample(json!({"case": idx, "ops": op_desc, "images": images.len(),
            "first_images": images.iter().take(6).map(|i| json!({"op": i.op_kind, "point": i.point, "acked_before": i.acked})).collect::<Vec<_>>()}));
    }
}

fn judge_image(r: &mut Report, img: &Image, acked: &[String], case: u64) {
    let st = Store::at(&img.dir, true);
    let _ = std::fs::create_dir_all(&st.ws);
    let wit = |extra: Value| json!({"case": case, "op_index": img.op_index, "op": img.op_kind, "crash_point": img.point, "detail": extra});
    // a clean restart (engine dropped, store reopened) is the degenerate crash point
    let at = if img.point == CLEAN_RESTART { CLEAN_RESTART.to_string() } else { format!("crash@{}", img.point) };

    // (1) restart
    let app = match App::open(&st, None) {
        Ok(a) => a,
        Err(e) => {
            r.violation(&format!("C05/restart_failed/{at}"), &format!("engine cannot be constructed on the crash image: {e}"), wit(json!(e)));
            return;
        }
    };
    // (2) replay
    let bytes = st.log_bytes();
    if let Ok(log) = rip_log::EventLog::new(st.log_path()) {
        if let Err(e) = log.replay_validated() {
            r.violation(
                &format!("C05/replay_fails_on_crash_image/{at}"),
                &format!("replay_validated fails on the crash image ({} during {}): {e}", img.point, img.op_kind),
                wit(json!(e.to_string())),
            );
            return;
        }
    }
    // independent parse; an unterminated but complete last line is what a crash between body and newline leaves
    let mut b2 = bytes.clone();
    if !b2.is_empty() && *b2.last().unwrap() != b'\n' {
        b2.push(b'\n');
        r.count("images_with_unterminated_last_line", 1);
    }
    let frames = match truth::parse_log(&b2) {
        Ok(f) => f,
        Err(e) => {
            r.violation(&format!("C05/torn_log_on_crash_image/{}/{at}", e.kind), &format!("log on the crash image is not whole frames: {}", e.detail), wit(json!(e.detail)));
            return;
        }
    };
    if let Err(e) = truth::check_streams(&frames) {
        r.violation(&format!("C05/stream_order_on_crash_image/{}/{at}", e.kind), &e.detail, wit(json!(e.detail)));
        return;
    }
    // (3) acknowledged appends present exactly once
    let mut count: HashMap<&str, u32> = HashMap::new();
    for f in &frames {
        *count.entry(f.id()).or_insert(0) += 1;
    }
    for id in acked {
        let n = count.get(id.as_str()).copied().unwrap_or(0);
        if n != 1 {
            r.violation(
                &format!("C05/acknowledged_append_{}/{at}", if n == 0 { "lost" } else { "duplicated" }),
                &format!("append acknowledged before the crash occurs {n} times after restart"),
                wit(json!({"id": id, "n": n})),
            );
            return;
        }
    }
    // (5a) caches reconciled or ignored — before any further append
    let conts: Vec<String> = img.conts.iter().filter(|c| frames.iter().any(|f| f.stream_id() == c.as_str())).cloned().collect();
    differential(r, &st, &frames, &conts, "before_append", &at, &wit);

    // (4) further appends continue the numbering
    let store = app.store();
    // every thread the restarted authority lists (index.json) and the default thread it hands out must be usable:
    // an index entry written before its creation frame would name a thread that has no stream
    let mut to_probe: Vec<String> = store.list().into_iter().map(|m| m.continuity_id).collect();
    if let Ok(d) = store.ensure_default() {
        to_probe.push(d);
    }
    to_probe.sort();
    to_probe.dedup();
    for id in to_probe {
        if let Err(e) = store.append_message(&id, "rv".into(), "rv".into(), "probe-after-crash".into()) {
            r.violation(
                &format!("C05/thread_listed_but_unusable/{at}"),
                &format!("after a crash at {} the restarted authority lists / hands out thread {id} but appending to it fails: {e}", img.point),
                wit(json!({"thread": id, "error": e})),
            );
            return;
        }
        r.count("listed_threads_probed_after_restart", 1);
    }
    for c in &conts {
        match store.append_message(c, "rv".into(), "rv".into(), "after-crash".into()) {
            Ok(_) => {}
            Err(e) => {
                r.violation(&format!("C05/append_after_restart_failed/{at}"), &format!("append after restart failed: {e}"), wit(json!(e)));
                return;
            }
        }
        let _ = store.append_run_spawned(c, "m", "s-after", "rv".into(), "rv".into());
    }
    if let Some(c) = conts.first() {
        let _ = store.compaction_auto_v1(
            c,
            ripd::CompactionAutoV1Request { stride_messages: Some(1), max_new_checkpoints: Some(1), dry_run: Some(false), actor_id: "rv".into(), origin: "rv".into() },
        );
    }
    drop(app);
    let bytes = st.log_bytes();
    let frames2 = match truth::parse_log(&bytes) {
        Ok(f) => f,
        Err(e) => {
            r.violation(
                &format!("C05/log_torn_after_restart_append/{}/{at}", e.kind),
                &format!("after restart + one append the log is no longer whole frames ({}): {}", img.point, e.detail),
                wit(json!(e.detail)),
            );
            return;
        }
    };
    if let Err(e) = truth::check_streams(&frames2) {
        r.violation(
            &format!("C05/numbering_broken_after_restart_append/{}/{at}", e.kind),
            &format!("after restart + one append: {}", e.detail),
            wit(json!(e.detail)),
        );
        return;
    }
    if let Ok(log) = rip_log::EventLog::new(st.log_path()) {
        if let Err(e) = log.replay_validated() {
            r.violation(&format!("C05/replay_fails_after_restart_append/{at}"), &format!("replay_validated fails after restart + append: {e}"), wit(json!(e.to_string())));
            return;
        }
    }
    // (5b) differential after the further appends
    differential(r, &st, &frames2, &conts, "after_append", &at, &wit);
    r.count("frames_on_images", frames2.len() as u64);
}

fn differential(
    r: &mut Report,
    st: &Store,
    frames: &[truth::Frame],
    conts: &[String],
    when: &str,
    at: &str,
    wit: &dyn Fn(Value) -> Value,
) {
    // only the first (default) continuity and the newest one: keeps the cost per image bounded
    let mut pick: Vec<&String> = Vec::new();
    if let Some(c) = conts.first() {
        pick.push(c);
    }
    if conts.len() > 1 {
        pick.push(conts.last().unwrap());
    }
    for c in pick {
        let tf = truth::stream(frames, "continuity", c);
        let msgs = truth::messages(&tf);
        let head = tf.last().map(|f| f.seq()).unwrap_or(0);
        let qs = queries(&msgs, head, true);
        let reference = st.fork_sharing_ws("c05ref");
        let _ = std::fs::remove_dir_all(reference.streams_dir());
        for q in qs.iter().filter(|q| {
            matches!(q.class, "replay" | "cursor_status" | "selection_status" | "status" | "cut_points")
                || q.name == "compile(anchor=tail)"
                || q.name == "branch(none)"
        }) {
            if q.class == "cut_points" && !q.name.contains("stride=1,limit=None") {
                continue;
            }
            if q.class == "status" && !q.name.contains("stride=1") {
                continue;
            }
            if q.class == "selection_status" && !q.name.contains("limit=None") {
                continue;
            }
            let fa = st.fork_sharing_ws("c05a");
            let fb = reference.fork_sharing_ws("c05b");
            let a = run_query(&fa, c, q);
            let b = run_query(&fb, c, q);
            r.count("recovered_store_queries_compared", 1);
            if a != b {
                r.violation(
                    &format!("C05/recovered_cache_disagrees_with_truth/{}/{when}/{at}", q.class),
                    &format!(
                        "after a crash at {at} the restarted store answers {} from a cache that was neither reconciled nor ignored ({when}): {}",
                        q.name,
                        diff_summary(&a, &b)
                    ),
                    wit(json!({"query": q.name, "when": when, "diff": diff_summary(&a, &b)})),
                );
            }
        }
    }
}
