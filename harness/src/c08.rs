//! C08 — the compiled context is a pure function of thread truth up to the cut point.
//!
//! Reference-model monitor: for generated thread histories (real routed runs with output, dense
//! side effects, cursors, manual and automatic checkpoints at chosen boundaries) the run-time
//! compile entry point is called for many anchors and its decision + bundle are compared with a
//! small model computed from the raw log only (cut point, eligible checkpoints, halving
//! hierarchy, ≤16 recent messages after the latest summary, reply texts). Metamorphic checks:
//! identical under every cache state, identical after frames are appended beyond the cut,
//! identical with the session snapshot removed, and identical while appenders race with it.
//!
//! Two further dimensions of the history space are enumerated and seeded:
//! * INTERLEAVED RUNS — runs of older messages that end late (K run_ended frames, K from 1 to more than a
//!   thousand, landing one by one between the most recent messages or in a burst right before a cut), several
//!   runs per message, runs that never end, quick question/answer turns overlapping one slow run; every reply
//!   is real text in the truth log (and, seeded, a snapshot), so the model's "last run ended at or before the
//!   cut" pairing is observable in the bundle;
//! * DISTANCE — later traffic (big messages) puts the anchor region at a chosen distance from the tail of the
//!   messages+runs sidecar: beyond the 8 MiB tail-scan limit (seekable-window path), or with one of the byte
//!   budgets 256 KiB … 8 MiB falling inside the region; in such layouts every message of the region is an anchor,
//!   plus the messages of the later traffic that sit around each byte budget;
//! * RUN OUTCOMES — a seeded share (directed: all / half) of the frame-only runs (turn runs, late runs, runs of the
//!   later traffic) ends the way a run that did NOT complete ends: session = started, some streamed output text
//!   (partial reply) or none, ended with one of the reasons rip ends runs with (provider_error, invalid_request,
//!   max_tool_calls_exceeded, context_compile_failed, unknown, a hook's abort reason), snapshot or not, then the
//!   `continuity_run_ended` frame with that reason. The run answered its message, so its (partial) reply text belongs
//!   to the bundle whatever the read path (sidecar as the appends left it / rebuilt / removed / replay).

use crate::c04::{diff_summary, run_query, QueryDef};
use crate::fixture::{runtime, wait_for, App, Store};
use crate::gen_hist::{exec, Known, OpKind};
use crate::prng::Rng;
use crate::report::{Cfg, Report};
use crate::sched::sched;
use crate::truth;
use rip_kernel::{Event, EventKind};
use serde_json::{json, Value};
use std::collections::HashMap;
use std::sync::atomic::{AtomicBool, Ordering};
use std::sync::Arc;
use std::time::Duration;

const LIMIT: usize = 16;
const MAX_REFS: usize = 3;

/// The model: expected compile outcome for `anchor` from the raw frames of the whole log.
fn model(frames: &[truth::Frame], thread: &str, anchor: &str) -> Option<Value> {
    let tf = truth::stream(frames, "continuity", thread);
    let head = tf.last()?.seq();
    let msgs: Vec<&&truth::Frame> = tf.iter().filter(|f| f.ty() == "continuity_message_appended").collect();
    let ai = msgs.iter().position(|m| m.id() == anchor)?;
    let aseq = msgs[ai].seq();
    let from_seq = match msgs.get(ai + 1) {
        Some(next) => next.seq().saturating_sub(1),
        None => head,
    }
    .max(aseq);
    // eligible cumulative checkpoints with to_seq <= from_seq; latest frame per to_seq wins
    let mut by_to: HashMap<u64, (u64, Value)> = HashMap::new();
    for f in tf.iter().filter(|f| f.ty() == "continuity_compaction_checkpoint_created") {
        let to = f.u("to_seq").unwrap_or(u64::MAX);
        if to > from_seq || f.s("summary_kind") != "cumulative_v1" {
            continue;
        }
        let rec = json!({
            "checkpoint_id": f.s("checkpoint_id"), "summary_kind": f.s("summary_kind"),
            "summary_artifact_id": f.s("summary_artifact_id"), "to_seq": to,
        });
        match by_to.get(&to) {
            Some((s, _)) if *s >= f.seq() => {}
            _ => {
                by_to.insert(to, (f.seq(), rec));
            }
        }
    }
    let mut unique: Vec<(u64, Value)> = by_to.into_iter().map(|(to, (_, v))| (to, v)).collect();
    unique.sort_by_key(|x| x.0);
    let mut selected: Vec<(u64, Value)> = Vec::new();
    if let Some(latest) = unique.last().cloned() {
        let mut cur = latest.0;
        selected.push(latest);
        while selected.len() < MAX_REFS {
            if cur <= 1 {
                break;
            }
            let threshold = cur / 2;
            if threshold == 0 {
                break;
            }
            // greatest to_seq <= threshold
            let cand = unique.iter().filter(|(to, _)| *to <= threshold).last().cloned();
            match cand {
                Some(c) if c.0 < cur => {
                    cur = c.0;
                    selected.push(c);
                }
                _ => break,
            }
        }
    }
    selected.sort_by_key(|x| x.0);
    let strategy = match selected.len() {
        0 => "recent_messages_v1",
        1 => "summaries_recent_messages_v1",
        _ => "hierarchical_summaries_recent_messages_v1",
    };
    let after = selected.last().map(|x| x.0);
    // last run_ended (seq <= from_seq) per message
    let mut ended: HashMap<&str, &str> = HashMap::new();
    for f in tf.iter().filter(|f| f.ty() == "continuity_run_ended" && f.seq() <= from_seq) {
        ended.insert(f.s("message_id"), f.s("run_session_id"));
    }
    let mut window: Vec<&&&truth::Frame> = msgs
        .iter()
        .filter(|m| m.seq() <= from_seq && after.map(|a| m.seq() > a).unwrap_or(true))
        .collect();
    if window.len() > LIMIT {
        window = window.split_off(window.len() - LIMIT);
    }
    let mut items: Vec<Value> = Vec::new();
    for (to, v) in &selected {
        items.push(json!({"type": "summary_ref", "artifact_id": v["summary_artifact_id"], "note": format!("compaction checkpoint to_seq={to}")}));
    }
    for m in window {
        items.push(json!({
            "type": "message", "role": "user", "content": m.s("content"), "actor_id": m.s("actor_id"),
            "origin": m.s("origin"), "thread_seq": m.seq(), "thread_event_id": m.id(),
        }));
        if let Some(sess) = ended.get(m.id()) {
            let text: String = truth::stream(frames, "session", sess)
                .iter()
                .filter(|f| f.ty() == "output_text_delta")
                .map(|f| f.s("delta").to_string())
                .collect();
            if !text.is_empty() {
                items.push(json!({"type": "message", "role": "assistant", "content": text, "actor_id": null,
                    "origin": null, "thread_seq": null, "thread_event_id": null}));
            }
        }
    }
    Some(json!({
        "from_seq": from_seq,
        "from_message_id": anchor,
        "compiler_strategy": strategy,
        "compaction_checkpoints": selected.iter().map(|x| x.1.clone()).collect::<Vec<_>>(),
        "compaction_checkpoint": selected.last().map(|x| x.1.clone()),
        "items": items,
    }))
}

/// The comparable projection of what the real compile returned.
fn project(ans: &Value) -> Value {
    let ok = &ans["ok"];
    if ok.is_null() {
        return json!({"error": ans["err"]});
    }
    json!({
        "from_seq": ok["from_seq"],
        "from_message_id": ok["from_message_id"],
        "compiler_strategy": ok["compiler_strategy"],
        "compaction_checkpoints": ok["compaction_checkpoints"],
        "compaction_checkpoint": ok["compaction_checkpoint"],
        "items": ok["bundle"]["items"],
        "bundle_source": ok["bundle"]["source"],
        "bundle_strategy": ok["bundle"]["compiler"]["strategy"],
    })
}

fn expect_from_model(m: &Value, thread: &str) -> Value {
    let mut e = m.clone();
    e["bundle_source"] = json!({"thread_id": thread, "from_seq": m["from_seq"], "from_message_id": m["from_message_id"]});
    e["bundle_strategy"] = m["compiler_strategy"].clone();
    e
}

#[derive(Clone, Debug)]
struct Layout {
    name: &'static str,
    /// per message i: (dense side effects after it, routed real run?, fake run frames?)
    msgs: usize,
    dense: usize,
    real_runs_every: usize,
    /// manual checkpoints: message ordinals (1-based), may repeat (equal to_seq)
    ckpts: Vec<usize>,
    auto_stride: Option<u64>,
    /// extra bytes per message: makes the messages+runs sidecar larger than the 256 KiB initial tail window
    filler: usize,
    /// compile every message as anchor (window-boundary effects sit at unpredictable positions)
    all_anchors: bool,
    /// percent of the (non-routed) messages that get a frame-only run directly after them (sequential turns)
    seq_runs: u64,
    /// interleaved (parallel) runs: runs of OLDER messages whose run_ended lands between more recent messages
    late: Option<Late>,
    /// later traffic after the anchor region: sets the DISTANCE between the anchors and the tail of the
    /// messages+runs sidecar relative to the internal read budgets
    pad: Option<Pad>,
    /// RUN OUTCOMES: percent of the frame-only runs that end with a reason other than "completed" (None = seeded
    /// per case from a separate random stream)
    fail_pct: Option<u64>,
}

/// How one frame-only run ended.
#[derive(Clone, Copy, Debug)]
struct Outcome {
    reason: &'static str,
    /// the run streamed output text before it ended
    text: bool,
}

/// The reasons rip ends a run with besides "completed" (session.rs: provider loop errors, tool-call budget, failed
/// context compile, no end frame seen) and a free-form one (a hook's abort reason ends the session with any string).
const FAIL_REASONS: [&str; 6] = ["provider_error", "invalid_request", "max_tool_calls_exceeded", "context_compile_failed", "unknown", "aborted_by_hook"];

/// Seeded run outcomes of one case; its own random stream, so the other dimensions of a layout do not move.
struct Outcomes {
    rng: Rng,
    fail_pct: u64,
    /// directed part: the first failing runs of a case go through every reason once
    next_reason: usize,
}

impl Outcomes {
    fn pick(&mut self, r: &mut Report, what: &str) -> Outcome {
        let failed = self.rng.below(100) < self.fail_pct;
        let oc = if failed {
            let reason = if self.next_reason < FAIL_REASONS.len() { FAIL_REASONS[self.next_reason] } else { *self.rng.pick(&FAIL_REASONS) };
            self.next_reason += 1;
            Outcome { reason, text: self.rng.chance(3, 4) }
        } else {
            Outcome { reason: "completed", text: self.rng.chance(5, 6) }
        };
        r.count(&format!("run_outcomes_placed:{}:{}", oc.reason, if oc.text { "reply_text" } else { "no_text" }), 1);
        r.count(&format!("run_outcomes_placed_on:{what}:{}", if failed { "not_completed" } else { "completed" }), 1);
        oc
    }
}

/// Runs that overlap later turns of the same thread.
#[derive(Clone, Debug)]
struct Late {
    /// number of run_ended frames of older runs that land late
    k: usize,
    /// where they land: "spread" = one by one between the most recent messages before a cut, "burst" = all
    /// right before one cut, "mixed" = half and half
    place: &'static str,
    /// how many older messages own these runs (k > owners: several runs per message, the last run_ended wins)
    owners: usize,
    /// runs that are spawned and never end
    never: usize,
}

/// Bytes of later traffic (big messages) appended after the anchor region.
#[derive(Clone, Debug)]
struct Pad {
    /// an internal byte budget: 256 KiB << n (initial tail window … 8 MiB tail-scan limit)
    threshold: usize,
    /// true: the region lies wholly beyond `threshold` bytes from the tail; false: the threshold falls INSIDE the
    /// anchor region (anchors on both sides of it)
    beyond: bool,
    /// bytes per pad message
    msg: usize,
    /// pad messages are answered (one frame-only run each)
    runs: bool,
}

const KIB: usize = 1024;
const MIB: usize = 1024 * 1024;
/// byte budgets the read paths switch on (tail window doubling 256 KiB → 8 MiB; beyond: seekable window)
const BUDGETS: [usize; 6] = [256 * KIB, 512 * KIB, MIB, 2 * MIB, 4 * MIB, 8 * MIB];

fn dist_class(d: u64) -> &'static str {
    const NAMES: [&str; 6] = ["le256K", "le512K", "le1M", "le2M", "le4M", "le8M"];
    for (i, b) in BUDGETS.iter().enumerate() {
        if d <= *b as u64 {
            return NAMES[i];
        }
    }
    "gt8M"
}

/// K of a class: few / around the message limit / up to a few tens / hundreds (crosses frame-count strides) /
/// more than a thousand (their bytes alone exceed the initial 256 KiB window)
fn late_k(rng: &mut Rng, lo_class: usize, span: usize) -> usize {
    let class = lo_class + rng.usize(span.max(1));
    match class {
        0 => 1 + rng.usize(3),
        1 => 4 + rng.usize(13),
        2 => 17 + rng.usize(24),
        3 => 100 + rng.usize(200),
        _ => 900 + rng.usize(500),
    }
}

fn fixed_layouts(rng: &mut Rng) -> Vec<Layout> {
    let fixed: Vec<Layout> = vec![
        Layout { name: "exactly_15", msgs: 15, dense: 0, real_runs_every: 4, ckpts: vec![], auto_stride: None, filler: 0, all_anchors: false, seq_runs: 33, late: None, pad: None, fail_pct: None },
        Layout { name: "exactly_16", msgs: 16, dense: 1, real_runs_every: 5, ckpts: vec![], auto_stride: None, filler: 0, all_anchors: false, seq_runs: 33, late: None, pad: None, fail_pct: None },
        Layout { name: "exactly_17", msgs: 17, dense: 0, real_runs_every: 6, ckpts: vec![], auto_stride: None, filler: 0, all_anchors: false, seq_runs: 33, late: None, pad: None, fail_pct: None },
        Layout { name: "ckpt_then_16", msgs: 20, dense: 0, real_runs_every: 7, ckpts: vec![4], auto_stride: None, filler: 0, all_anchors: false, seq_runs: 33, late: None, pad: None, fail_pct: None },
        Layout { name: "ckpt_then_17", msgs: 21, dense: 2, real_runs_every: 0, ckpts: vec![4], auto_stride: None, filler: 0, all_anchors: false, seq_runs: 33, late: None, pad: None, fail_pct: None },
        Layout { name: "ckpt_at_last", msgs: 9, dense: 0, real_runs_every: 3, ckpts: vec![9], auto_stride: None, filler: 0, all_anchors: false, seq_runs: 33, late: None, pad: None, fail_pct: None },
        Layout { name: "equal_to_seq_twice", msgs: 10, dense: 0, real_runs_every: 0, ckpts: vec![5, 5, 5], auto_stride: None, filler: 0, all_anchors: false, seq_runs: 33, late: None, pad: None, fail_pct: None },
        Layout { name: "halving_4", msgs: 40, dense: 0, real_runs_every: 0, ckpts: vec![2, 5, 10, 20, 38], auto_stride: None, filler: 0, all_anchors: false, seq_runs: 33, late: None, pad: None, fail_pct: None },
        Layout { name: "halving_dense", msgs: 24, dense: 3, real_runs_every: 9, ckpts: vec![1, 3, 6, 12, 23], auto_stride: None, filler: 0, all_anchors: false, seq_runs: 33, late: None, pad: None, fail_pct: None },
        Layout { name: "auto_every_3", msgs: 19, dense: 1, real_runs_every: 5, ckpts: vec![], auto_stride: Some(3), filler: 0, all_anchors: false, seq_runs: 33, late: None, pad: None, fail_pct: None },
        Layout { name: "dense_side_effects", msgs: 8, dense: 60, real_runs_every: 3, ckpts: vec![3], auto_stride: None, filler: 0, all_anchors: false, seq_runs: 33, late: None, pad: None, fail_pct: None },
        Layout { name: "single_message", msgs: 1, dense: 2, real_runs_every: 1, ckpts: vec![1], auto_stride: None, filler: 0, all_anchors: false, seq_runs: 33, late: None, pad: None, fail_pct: None },
    ];
    let mut fixed = fixed;
    fixed.push(Layout { name: "big_messages_60", msgs: 60, dense: 0, real_runs_every: 0, ckpts: vec![], auto_stride: None, filler: 6000, all_anchors: true, seq_runs: 33, late: None, pad: None, fail_pct: None });
    fixed.push(Layout { name: "big_messages_ckpt", msgs: 70, dense: 1, real_runs_every: 0, ckpts: vec![8], auto_stride: None, filler: 5000, all_anchors: true, seq_runs: 33, late: None, pad: None, fail_pct: None });
    fixed.push(Layout { name: "big_messages_runs", msgs: 48, dense: 0, real_runs_every: 7, ckpts: vec![], auto_stride: None, filler: 8000, all_anchors: true, seq_runs: 33, late: None, pad: None, fail_pct: None });
    // interleaved runs (a slow run overlapped by quick turns, bursts of late run ends, runs that never end) for
    // anchors near the tail, at every tail-scan budget, and beyond the 8 MiB tail-scan limit (seekable window)
    let base = Layout { name: "", msgs: 30, dense: 0, real_runs_every: 0, ckpts: vec![], auto_stride: None, filler: 0, all_anchors: true, seq_runs: 33, late: None, pad: None, fail_pct: None };
    let far = |msg: usize| Some(Pad { threshold: 8 * MIB, beyond: true, msg, runs: true });
    let places = ["spread", "burst", "mixed"];
    fixed.push(Layout { name: "far_one_slow_run_quick_turns", msgs: 30, seq_runs: 100,
        late: Some(Late { k: late_k(rng, 0, 1), place: places[rng.usize(3)], owners: 1, never: 0 }), pad: far(60_000), ..base.clone() });
    fixed.push(Layout { name: "far_late_burst", msgs: 34, dense: 1,
        late: Some(Late { k: late_k(rng, 2, 1), place: "burst", owners: 3 + rng.usize(6), never: 1 }), pad: far(60_000), ..base.clone() });
    fixed.push(Layout { name: "tail_scan_limit_inside_region_ckpt", msgs: 48, filler: 800, seq_runs: 50, real_runs_every: 9, ckpts: vec![4],
        late: Some(Late { k: late_k(rng, 1, 2), place: places[rng.usize(3)], owners: 2 + rng.usize(9), never: 2 }),
        pad: Some(Pad { threshold: 8 * MIB, beyond: false, msg: 56_000, runs: true }), ..base.clone() });
    fixed.push(Layout { name: "far_late_flood", msgs: 28, seq_runs: 60,
        late: Some(Late { k: late_k(rng, 3, 2), place: "mixed", owners: 1 + rng.usize(8), never: 0 }), pad: far(64_000), ..base.clone() });
    fixed.push(Layout { name: "near_one_slow_run_quick_turns", msgs: 26, seq_runs: 100,
        late: Some(Late { k: late_k(rng, 0, 1), place: places[rng.usize(3)], owners: 1, never: 1 }), ..base.clone() });
    fixed.push(Layout { name: "near_late_burst_never_ckpt", msgs: 40, real_runs_every: 7, ckpts: vec![5],
        late: Some(Late { k: late_k(rng, 1, 2), place: "burst", owners: 2 + rng.usize(8), never: 3 }), ..base.clone() });
    fixed.push(Layout { name: "mid_budget_inside_region", msgs: 40, filler: 600, seq_runs: 50,
        late: Some(Late { k: late_k(rng, 1, 2), place: places[rng.usize(3)], owners: 1 + rng.usize(6), never: 1 }),
        pad: Some(Pad { threshold: BUDGETS[rng.usize(3)], beyond: false, msg: 12_000, runs: rng.bool() }), ..base.clone() });
    fixed.push(Layout { name: "near_late_flood", msgs: 30,
        late: Some(Late { k: late_k(rng, 3, 2), place: "mixed", owners: 1 + rng.usize(8), never: 0 }), ..base.clone() });
    // run outcomes, directed (no draws from `rng` here: the case stream of the older layouts stays as it was): every
    // turn's run failed / half of them, with late run ends and a checkpoint / a byte budget inside the region; far
    // anchors: the multi-MiB layouts above, whose runs take seeded outcomes like those of every other layout
    let outcome_layouts = vec![
        Layout { name: "near_every_run_failed", msgs: 22, seq_runs: 100, fail_pct: Some(100), ..base.clone() },
        Layout { name: "near_mixed_outcomes_late_ckpt", msgs: 36, seq_runs: 66, ckpts: vec![6], real_runs_every: 8, fail_pct: Some(50),
            late: Some(Late { k: 9, place: "spread", owners: 4, never: 1 }), ..base.clone() },
        Layout { name: "mid_budget_mixed_outcomes", msgs: 34, filler: 600, seq_runs: 100, fail_pct: Some(60),
            pad: Some(Pad { threshold: 512 * KIB, beyond: false, msg: 12_000, runs: true }), ..base.clone() },
    ];
    // run order (case index = position; shard = index mod shards): the four multi-MiB layouts early, one per quick
    // shard, so that a loaded machine reaches them within the budget; the big-message layouts keep their indexes
    const ORDER: [usize; 23] = [0, 1, 2, 3, 4, 5, 6, 7, 15, 16, 17, 18, 12, 13, 14, 8, 9, 10, 11, 19, 20, 21, 22];
    if fixed.len() == ORDER.len() {
        fixed = ORDER.iter().map(|i| fixed[*i].clone()).collect();
    }
    fixed.extend(outcome_layouts);
    fixed
}

fn layouts(rng: &mut Rng, idx: u64, allow_heavy: bool) -> Layout {
    let fixed = fixed_layouts(rng);
    let places = ["spread", "burst", "mixed"];
    if (idx as usize) < fixed.len() {
        return fixed[idx as usize].clone();
    }
    let msgs = 1 + rng.usize(45);
    let nck = rng.usize(6);
    let late = if rng.chance(1, 2) {
        let class = [0, 0, 1, 1, 2, 2, 2, 3, 4][rng.usize(9)];
        Some(Late { k: late_k(rng, class, 1), place: places[rng.usize(3)], owners: 1 + rng.usize(8), never: rng.usize(4) })
    } else {
        None
    };
    // distance classes: every byte budget, region beyond it or straddling it; the multi-MiB ones are rare (cost)
    let pad = match rng.below(16) {
        0 if allow_heavy => Some(Pad { threshold: 8 * MIB, beyond: rng.bool(), msg: 30_000 + rng.usize(40_000), runs: rng.bool() }),
        1 if allow_heavy => Some(Pad { threshold: BUDGETS[3 + rng.usize(2)], beyond: rng.bool(), msg: 20_000 + rng.usize(40_000), runs: rng.bool() }),
        2 | 3 | 4 => Some(Pad { threshold: BUDGETS[rng.usize(3)], beyond: rng.bool(), msg: 4_000 + rng.usize(20_000), runs: rng.bool() }),
        _ => None,
    };
    Layout {
        name: "random",
        msgs,
        dense: [0, 0, 1, 3, 12][rng.usize(5)],
        real_runs_every: [0, 2, 3, 5][rng.usize(4)],
        ckpts: (0..nck).map(|_| 1 + rng.usize(msgs)).collect(),
        auto_stride: if rng.chance(1, 4) { Some(rng.range(1, 6)) } else { None },
        filler: if rng.chance(1, 5) { 3000 + rng.usize(6000) } else { 0 },
        all_anchors: rng.chance(1, 5) || pad.is_some(),
        seq_runs: [33, 33, 100, 0][rng.usize(4)],
        late,
        pad,
        fail_pct: None,
    }
}

pub fn run(cfg: &Cfg) -> i32 {
    let mut r = Report::new(
        "C08",
        "exploration",
        "enumerated boundary layouts (15/16/17 messages, checkpoint at/after/beyond the cut, equal to_seq, 1-4 halving levels, \
         dense side effects, real routed runs with output; interleaved runs: 1..1400 run_ended frames of older runs landing \
         between recent messages or in a burst before a cut, never-ending runs, quick turns over one slow run; anchor regions \
         beyond the 8 MiB tail-scan limit or straddling a 256 KiB..8 MiB byte budget of the messages+runs sidecar; run \
         outcomes: a directed / seeded share of the runs ended with each non-completed reason after streaming a partial \
         reply or nothing) plus seeded \
         random layouts over the same dimensions; every sampled anchor (every message of the region in the long layouts) is \
         compiled by the real entry point and compared with a raw-log model, then re-compiled under other cache states, after \
         appends beyond the cut, without the session snapshot, and while appenders race; distinct = distinct (layout shape, \
         anchor position + distance class, strategy, late run ends in the window or not, failed runs / their partial \
         replies in the window or not)",
    );
    r.assume("the model follows context_bundle.md / ADR-0010 / ADR-0018 as implemented in context_compiler.rs and read from the docs");
    let s = sched();
    let rt = runtime(6);
    // `--case=N` (or a witness given with --replay): exactly that case index, with the same seed
    let witness: Option<Value> = cfg.replay.as_ref().and_then(|p| serde_json::from_slice(&std::fs::read(p).ok()?).ok());
    let only: Option<u64> = cfg
        .extra
        .iter()
        .find_map(|e| e.strip_prefix("--case=").and_then(|v| v.parse().ok()))
        .or_else(|| witness.as_ref()?["witness"]["case"].as_u64());
    let seed = witness.as_ref().and_then(|w| w["witness"]["seed"].as_u64()).unwrap_or(cfg.seed);
    let verbose = cfg.has_flag("--verbose");
    // the enumerated layouts may start a little past the soft budget (a loaded machine must not silently drop the
    // directed cases); seeded random layouts only within it
    let fixed_n = fixed_layouts(&mut Rng::new(0)).len() as u64;
    let mut idx = 0u64;
    while idx < cfg.tier.pick(400, 1_000_000) && (!r.over(cfg) || (idx < fixed_n && r.elapsed() < cfg.budget_s * 1.15)) {
        let i = idx;
        idx += 1;
        match only {
            Some(o) if o != i => continue,
            None if !cfg.mine(i) => continue,
            _ => {}
        }
        let mut rng = Rng::derive(seed, i);
        let t0 = r.elapsed();
        one_case(cfg, &mut r, &rt, &mut rng, i, seed);
        if verbose {
            eprintln!("case {i}: {:.1}s (evaluations so far {})", r.elapsed() - t0, r.evaluations);
        }
    }
    s.reset();
    r.finish(cfg)
}

fn compile_q(anchor: &str) -> QueryDef {
    QueryDef { name: "compile".into(), class: "compile", args: json!({"message_id": anchor}) }
}

/// One planned overlapping run: spawned right after its (older) message, ended after message `end_after`.
#[derive(Clone, Debug)]
struct RunPlan {
    owner: usize,
    end_after: Option<usize>,
    sid: String,
    text: String,
    snapshot: bool,
    /// reason of its run_ended frame (and of the session's end frame)
    reason: &'static str,
}

/// Where the late run ends go: a focus cut `c` (1-based message ordinal) with its 16-message window, owners
/// mostly older than that window.
fn plan_late(rng: &mut Rng, late: &Late, n: usize, tag: &str, always_snapshot: bool) -> (Vec<RunPlan>, usize) {
    let mut plans = Vec::new();
    if n < 2 {
        return (plans, n);
    }
    let c = if n >= 18 && rng.bool() { 17 + rng.usize(n - 16) } else { n };
    let ws = c.saturating_sub(LIMIT - 1).max(1);
    let mut owners: Vec<usize> = Vec::new();
    for _ in 0..late.owners.max(1) {
        let o = if ws > 1 && rng.chance(3, 4) { 1 + rng.usize(ws - 1) } else { 1 + rng.usize(c.max(2) - 1) };
        owners.push(o);
    }
    for j in 0..late.k {
        let owner = owners[j % owners.len()];
        let burst = match late.place {
            "burst" => true,
            "spread" => false,
            _ => j % 2 == 0,
        };
        let lo = ws.max(owner);
        let end = if burst || lo >= c { c } else { lo + rng.usize(c - lo + 1) };
        plans.push(RunPlan {
            owner,
            end_after: Some(end.max(owner)),
            sid: format!("late-{tag}-{j}"),
            text: format!("late reply {tag} m{owner} r{j} {}", rng.unicode(4)),
            snapshot: always_snapshot || rng.bool(),
            reason: "completed",
        });
    }
    for j in 0..late.never {
        let owner = 1 + rng.usize(n);
        plans.push(RunPlan { owner, end_after: None, sid: format!("open-{tag}-{j}"), text: format!("partial {tag} {j}"), snapshot: false, reason: "completed" });
    }
    (plans, c)
}

/// A session written straight into the truth log (and optionally its snapshot), the way a finished or a still
/// running run leaves it behind: started, output text in two deltas (none for an empty text: the run ended before
/// it streamed anything), ended with `end` = the reason (None: still running).
fn write_session(log: &rip_log::EventLog, snapshot_dir: Option<&std::path::Path>, sid: &str, text: &str, end: Option<&str>) {
    let cut = text.char_indices().nth(text.chars().count() / 2).map(|x| x.0).unwrap_or(0);
    let mut kinds = vec![EventKind::SessionStarted { input: "q".into() }];
    if !text.is_empty() {
        kinds.push(EventKind::OutputTextDelta { delta: text[..cut].to_string() });
        kinds.push(EventKind::OutputTextDelta { delta: text[cut..].to_string() });
    }
    if let Some(reason) = end {
        kinds.push(EventKind::SessionEnded { reason: reason.into() });
    }
    let events: Vec<Event> = kinds
        .into_iter()
        .enumerate()
        .map(|(i, kind)| Event { id: format!("{sid}-e{i}"), session_id: sid.to_string(), timestamp_ms: i as u64, seq: i as u64, kind })
        .collect();
    for e in &events {
        let _ = log.append(e);
    }
    if let Some(dir) = snapshot_dir {
        let _ = rip_log::write_snapshot(dir, sid, &events);
    }
}

fn one_case(cfg: &Cfg, r: &mut Report, rt: &tokio::runtime::Runtime, rng: &mut Rng, idx: u64, seed: u64) {
    // multi-MiB layouts only while there is budget left for them
    let allow_heavy = r.elapsed() < cfg.budget_s * 0.55;
    let lay = layouts(rng, idx, allow_heavy);
    let store = Store::new("c08");
    let app = match App::open(&store, None) {
        Ok(a) => a,
        Err(e) => {
            r.inconclusive(&format!("open: {e}"));
            return;
        }
    };
    let st = app.store();
    let thread = st.ensure_default().expect("default");
    let conts = vec![thread.clone()];
    let mut known = Known::default();
    let mut msg_ids: Vec<String> = Vec::new();
    let tag = format!("c{idx}");
    let log = app.engine.verif_event_log();
    let snapshot_dir = store.data.join("snapshots");
    let mr_path = store.streams_dir().join(format!("{thread}.mr.v1.jsonl"));
    // a big log makes every reply lookup without a snapshot a full log scan: multi-MiB layouts keep snapshots
    let heavy = lay.pad.as_ref().map(|p| p.threshold >= 2 * MIB).unwrap_or(false);
    let (mut plans, focus) = match &lay.late {
        Some(l) => plan_late(rng, l, lay.msgs, &tag, heavy || l.k >= 100),
        None => (Vec::new(), 0),
    };
    // run outcomes: own random stream (the draws of the other dimensions stay where they were)
    let mut orng = Rng::derive(seed ^ 0x0c08_0c08_0c08, idx);
    let fixed_n = fixed_layouts(&mut Rng::new(0)).len() as u64;
    let fail_pct = lay.fail_pct.unwrap_or_else(|| if idx < fixed_n { [30, 60, 100][orng.usize(3)] } else { [0, 30, 60, 100][orng.usize(4)] });
    let mut outs = Outcomes { rng: orng, fail_pct, next_reason: 0 };
    for p in plans.iter_mut().filter(|p| p.end_after.is_some()) {
        let oc = outs.pick(r, "late_run");
        p.reason = oc.reason;
        if !oc.text {
            p.text.clear();
        }
    }
    for m in 1..=lay.msgs {
        let real = lay.real_runs_every > 0 && m % lay.real_runs_every == 0;
        if real {
            // routed prompt: real session with output text + snapshot + run frames
            let app2 = app.clone();
            let t2 = thread.clone();
            let content = format!("prompt {tag} #{m} {}", rng.unicode(6));
            let log_path = store.log_path();
            let got = rt.block_on(async move {
                let (stc, v) = app2.json("POST", &format!("/threads/{t2}/messages"), Some(&json!({"content": content}))).await;
                if stc != 202 {
                    return None;
                }
                let mid = v["message_id"].as_str()?.to_string();
                let sid = v["session_id"].as_str()?.to_string();
                wait_for(Duration::from_secs(20), || {
                    let t = String::from_utf8_lossy(&std::fs::read(&log_path).unwrap_or_default()).to_string();
                    t.lines().rev().take(40).any(|l| l.contains("continuity_run_ended") && l.contains(&sid)).then_some(())
                })
                .await?;
                Some(mid)
            });
            match got {
                Some(mid) => {
                    known.msgs.push((thread.clone(), mid.clone()));
                    msg_ids.push(mid);
                }
                None => {
                    r.inconclusive(&format!("case {idx}: routed run did not finish"));
                    return;
                }
            }
        } else {
            if lay.filler > 0 {
                let content = format!("msg {tag} #{m} {}", rng.ascii(lay.filler));
                if let Ok(id) = st.append_message(&thread, "a".into(), "rv".into(), content) {
                    known.msgs.push((thread.clone(), id.clone()));
                    msg_ids.push(id);
                }
            } else {
                let res = exec(&app, &store.data, &conts, &mut known, OpKind::Msg, rng, &tag);
                if let Some(id) = res.acked.first() {
                    msg_ids.push(id.clone());
                }
            }
            if rng.below(100) < lay.seq_runs {
                // a fake (frame-only) run for this message, sometimes two (last run_ended wins)
                let mid = msg_ids.last().cloned().unwrap_or_default();
                for k in 0..(1 + rng.usize(2)) {
                    let sid = format!("fake-{tag}-{m}-{k}");
                    let _ = st.append_run_spawned(&thread, &mid, &sid, "a".into(), "rv".into());
                    let oc = outs.pick(r, "turn_run");
                    let text = if oc.text { format!("quick reply {tag} m{m} r{k}") } else { String::new() };
                    // (multi-MiB layouts: always a snapshot, also for a run without text - see `heavy`)
                    let snap = heavy || outs.rng.bool();
                    if heavy || oc.text || outs.rng.bool() {
                        write_session(&log, snap.then_some(snapshot_dir.as_path()), &sid, &text, Some(oc.reason));
                    }
                    let _ = st.append_run_ended(&thread, &mid, &sid, oc.reason.into(), "a".into(), "rv".into());
                }
            }
        }
        // overlapping runs of this message start now (and stay open while later turns go on)
        if msg_ids.len() == m {
            for p in plans.iter().filter(|p| p.owner == m) {
                let _ = st.append_run_spawned(&thread, &msg_ids[m - 1], &p.sid, "a".into(), "rv".into());
                if p.end_after.is_none() {
                    write_session(&log, None, &p.sid, &p.text, None);
                    r.count("never_ending_runs_placed", 1);
                }
            }
        }
        for _ in 0..lay.dense {
            let k = [OpKind::SideEffects, OpKind::SideEffects, OpKind::Cursor][rng.usize(3)];
            let _ = exec(&app, &store.data, &conts, &mut known, k, rng, &tag);
        }
        // older runs end here, between this message and the next one
        for p in plans.iter().filter(|p| p.end_after == Some(m)) {
            if let Some(mid) = msg_ids.get(p.owner - 1) {
                write_session(&log, p.snapshot.then_some(snapshot_dir.as_path()), &p.sid, &p.text, Some(p.reason));
                let _ = st.append_run_ended(&thread, mid, &p.sid, p.reason.into(), "a".into(), "rv".into());
                r.count("late_run_ended_frames_placed", 1);
            }
        }
        for (ci, c) in lay.ckpts.iter().enumerate() {
            // place the checkpoint for message `c` some time after it was appended
            if *c + (ci % 3) == m || (*c > lay.msgs.saturating_sub(2) && m == lay.msgs && *c <= m && *c + (ci % 3) > m) {
                if let Some(mid) = msg_ids.get(*c - 1) {
                    let _ = st.compaction_checkpoint_cumulative_v1(
                        &thread,
                        ripd::CompactionCheckpointCumulativeV1Request {
                            summary_markdown: Some(format!("summary up to message {c} ({tag}/{ci})")),
                            summary_artifact_id: None,
                            to_message_id: Some(mid.clone()),
                            to_seq: None,
                            stride_messages: None,
                            actor_id: "a".into(),
                            origin: "rv".into(),
                        },
                    );
                }
            }
        }
        if let Some(stride) = lay.auto_stride {
            if m as u64 % stride == 0 {
                let _ = st.compaction_auto_v1(
                    &thread,
                    ripd::CompactionAutoV1Request { stride_messages: Some(stride), max_new_checkpoints: Some(2), dry_run: Some(false), actor_id: "a".into(), origin: "rv".into() },
                );
            }
        }
    }
    // trailing non-message frames after the last message (cut = head, not the last message)
    for _ in 0..rng.usize(4) {
        let _ = exec(&app, &store.data, &conts, &mut known, OpKind::SideEffects, rng, &tag);
    }
    // later traffic: big messages until the messages+runs sidecar has grown by the planned distance
    let region_n = msg_ids.len();
    let mr_len = |fallback: u64| std::fs::metadata(&mr_path).map(|m| m.len()).unwrap_or(fallback);
    if let Some(pad) = &lay.pad {
        let region_end = mr_len(0);
        // (the sidecar holds nothing but this thread's messages and run ends, so the region starts at offset 0)
        let region_bytes = region_end.max(1) as usize;
        // beyond: the whole region is further than the budget from the tail; inside: the budget boundary falls on
        // a seeded point of the region
        let target = if pad.beyond { pad.threshold + rng.usize(pad.msg.max(1)) + 2 * KIB } else { pad.threshold.saturating_sub(rng.usize(region_bytes)) };
        let block = rng.ascii(pad.msg.max(16));
        let mut est = region_end;
        let mut i = 0usize;
        while i < 4000 {
            let grown = mr_len(est).saturating_sub(region_end) as usize;
            if grown + 300 >= target {
                break;
            }
            let room = target - grown;
            let size = pad.msg.min(room.saturating_sub(if pad.runs { 700 } else { 330 })).max(8);
            i += 1;
            let content = format!("pad {tag} #{i} {}", &block[..size.min(block.len())]);
            est += content.len() as u64 + 330;
            let Ok(id) = st.append_message(&thread, "a".into(), "rv".into(), content) else {
                break;
            };
            known.msgs.push((thread.clone(), id.clone()));
            if pad.runs {
                let sid = format!("pad-{tag}-{i}");
                let _ = st.append_run_spawned(&thread, &id, &sid, "a".into(), "rv".into());
                let oc = outs.pick(r, "later_traffic_run");
                let text = if oc.text { format!("pad reply {i}") } else { String::new() };
                write_session(&log, Some(&snapshot_dir), &sid, &text, Some(oc.reason));
                let _ = st.append_run_ended(&thread, &id, &sid, oc.reason.into(), "a".into(), "rv".into());
                est += 370;
            }
            msg_ids.push(id);
        }
        r.count("pad_layout_cases", 1);
        r.count("pad_bytes_built", mr_len(est).saturating_sub(region_end));
    }
    if lay.late.is_some() {
        r.count("late_run_layout_cases", 1);
    }
    drop(log);
    drop(app);

    let verbose = cfg.has_flag("--verbose");
    if verbose {
        eprintln!("case {idx}: {} built at {:.1}s", lay.name, r.elapsed());
    }
    let frames = match truth::parse_log(&store.log_bytes_settled()) {
        Ok(f) => f,
        Err(e) => {
            r.inconclusive(&format!("case {idx}: log unreadable: {}", e.detail));
            return;
        }
    };
    let n = msg_ids.len();
    if n == 0 {
        return;
    }
    // anchors: boundary ones + random sample
    let mut picks: Vec<usize> = vec![0, n - 1, n.saturating_sub(2), n / 2];
    for off in [15usize, 16, 17] {
        if n > off {
            picks.push(n - 1 - off);
        }
    }
    for c in &lay.ckpts {
        picks.push(c - 1);
        if *c < n {
            picks.push(*c);
        }
    }
    for _ in 0..cfg.tier.pick(4, 10) {
        picks.push(rng.usize(n));
    }
    if lay.all_anchors {
        picks = (0..n).collect();
    }
    // distance of every message (start of its line) from the tail of the messages+runs sidecar
    let (offsets, mr_total) = mr_message_offsets(&mr_path);
    let dist_of = |ai: usize| -> Option<u64> { offsets.get(&msg_ids[ai]).map(|o| mr_total.saturating_sub(*o)) };
    if lay.pad.is_some() && n > region_n {
        // every message of the anchor region, the first / last message of the later traffic, and for every byte
        // budget the messages around it: j = first message wholly inside the budget-sized tail, j-1 just outside,
        // j+15 / j+14 = first anchor whose 16-message window fits into that tail / last one whose window does not
        picks = (0..region_n).collect();
        picks.extend([region_n, n - 1, n.saturating_sub(LIMIT)]);
        for b in BUDGETS {
            let Some(j) = (0..n).find(|&i| dist_of(i).map(|d| d <= b as u64).unwrap_or(false)) else {
                continue;
            };
            let around = [j.saturating_sub(1), j, j + LIMIT - 2, j + LIMIT - 1];
            // quick tier, budget boundary in the later traffic: one anchor of each pair
            let half = if cfg.tier.pick(true, false) && j >= region_n { Some((rng.usize(2), 2 + rng.usize(2))) } else { None };
            for (k, a) in around.into_iter().enumerate() {
                if a < n && half.map(|(x, y)| k == x || k == y).unwrap_or(true) {
                    picks.push(a);
                }
            }
        }
    }
    picks.sort();
    picks.dedup();

    // multi-MiB stores: one fork per cache state serves every anchor (a compile that appends no frames leaves the
    // store as it was, apart from caches it rebuilds); fresh forks for a few anchors only
    let big_store = std::fs::metadata(store.log_path()).map(|m| m.len()).unwrap_or(0) > 2 * MIB as u64;
    let mut shared: Vec<Option<(Store, App)>> = vec![None, None, None, None];
    let mut fresh_done = 0usize;

    for (pi, &ai) in picks.iter().enumerate() {
        if r.elapsed() > cfg.budget_s * 1.3 {
            r.count("anchors_skipped_for_time", (picks.len() - pi) as u64);
            break;
        }
        let anchor = &msg_ids[ai];
        let Some(m) = model(&frames, &thread, anchor) else {
            r.inconclusive("anchor not in truth");
            continue;
        };
        let expect = expect_from_model(&m, &thread);
        let q = compile_q(anchor);
        let pos = if ai + 1 == n { "tail" } else if n - 1 - ai >= 17 { "far" } else { "mid" };
        let dist = dist_of(ai);
        let pos_class = match (&lay.pad, dist) {
            (Some(_), Some(d)) => format!("{pos}@{}", dist_class(d)),
            _ => pos.to_string(),
        };
        let pos_class = pos_class.as_str();
        let ws = window_stats(&frames, &thread, &m);
        if ws.failed_answers > 0 {
            r.count("anchors_with_window_message_answered_by_failed_run", 1);
            r.count(&format!("anchors_with_partial_reply_of_failed_run_in_bundle:{}", if ws.failed_replies == 0 { "none" } else { pos }), 1);
            if ws.failed_replies > 0 {
                if let Some(d) = dist {
                    r.count(&format!("anchors_with_partial_reply_of_failed_run_by_mr_distance:{}", dist_class(d)), 1);
                }
            }
        }
        if lay.late.is_some() || lay.pad.is_some() {
            if let Some(d) = dist {
                r.count(&format!("anchors_by_mr_distance_to_tail:{}", dist_class(d)), 1);
            }
            r.count(&format!("anchors_by_mr_frames_in_window:{}", match ws.mr_frames { 0..=16 => "le16", 17..=32 => "17-32", 33..=48 => "33-48", 49..=64 => "49-64", 65..=128 => "65-128", 129..=256 => "129-256", 257..=1024 => "257-1024", _ => "gt1024" }), 1);
            if ws.late_ends > 0 {
                r.count("anchors_with_run_ended_of_older_message_in_window", 1);
                if dist.map(|d| d > 8 * MIB as u64).unwrap_or(false) {
                    r.count("anchors_beyond_tail_scan_with_late_run_ended_in_window", 1);
                }
            }
        }
        let wit = |variant: &str, got: &Value| {
            json!({"case": idx, "seed": cfg.seed, "layout": format!("{lay:?}"), "anchor_index": ai, "messages": n,
                   "region_messages": region_n, "late_focus_cut_message": focus, "mr_distance_to_tail": dist,
                   "mr_frames_in_window": ws.mr_frames, "run_ended_of_older_messages_in_window": ws.late_ends,
                   "failed_run_percent": fail_pct, "window_messages_answered_by_failed_run": ws.failed_answers,
                   "partial_replies_of_failed_runs_in_window": ws.failed_replies,
                   "variant": variant, "diff": diff_summary(got, &expect)})
        };
        // variants: caches as built / mr sidecars removed / every cache removed / snapshots removed
        let variants: [(&str, &[&str], bool); 4] = [
            ("caches_intact", &[], false),
            ("mr_sidecar_removed", &[".mr.v1.jsonl", ".mr.seek.v1.jsonl", ".mr.messages.v1.bin", ".mr.msgord.v1.bin"], false),
            ("all_caches_removed", &["*"], false),
            ("snapshots_removed", &[], true),
        ];
        let mut first: Option<Value> = None;
        let prepare = |remove: &[&str], drop_snap: bool| -> Store {
            let f = fork_light(&store);
            if remove.contains(&"*") {
                let _ = std::fs::remove_dir_all(f.streams_dir());
            } else {
                for suf in remove {
                    let _ = std::fs::remove_file(f.streams_dir().join(format!("{thread}{suf}")));
                }
            }
            if drop_snap {
                let _ = std::fs::remove_dir_all(f.data.join("snapshots"));
            }
            f
        };
        // big stores: fresh forks (cold rebuild of the removed caches for exactly this anchor) for the anchors around
        // the late-run focus and a few others
        let want_fresh = big_store && fresh_done < cfg.tier.pick(1, 8) && (ai + 1 == focus || (focus == 0 && pi == 3) || (cfg.tier.pick(false, true) && pi % 16 == 7));
        if want_fresh {
            fresh_done += 1;
        }
        for (vi, (vname, remove, drop_snap)) in variants.into_iter().enumerate() {
            let got = if big_store {
                if vi == 3 && !want_fresh {
                    continue; // without snapshots every reply is a scan of the whole log
                }
                // rebuilt caches are the same files for every anchor: a quarter of the anchors (and the focus) suffice
                if (vi == 1 || vi == 2) && !want_fresh && pi % 4 != 1 && ai + 1 != focus && ai != focus {
                    continue;
                }
                if vi == 3 || (want_fresh && vi != 0) {
                    let f = prepare(remove, drop_snap);
                    r.count("big_store_compiles_on_fresh_fork", 1);
                    project(&run_query(&f, &thread, &q))
                } else {
                    if shared[vi].is_none() {
                        let f = prepare(remove, drop_snap);
                        match App::open(&f, None) {
                            Ok(a) => shared[vi] = Some((f, a)),
                            Err(e) => {
                                r.inconclusive(&format!("case {idx}: open fork: {e}"));
                                continue;
                            }
                        }
                    }
                    let (f, a) = shared[vi].as_ref().expect("shared fork");
                    r.count("big_store_compiles_on_shared_fork", 1);
                    project(&run_query_live(a, f, &thread, &q))
                }
            } else {
                if lay.all_anchors && vi % 2 == 1 && ai % 8 != 0 {
                    continue; // long layouts: caches intact + all removed for every anchor, the rest for every 8th
                }
                if lay.all_anchors && vi == 0 {
                    // nothing is removed and nothing is appended: one fork (one long-lived engine, as in a server)
                    // serves every anchor
                    if shared[0].is_none() {
                        let f = prepare(remove, drop_snap);
                        if let Ok(a) = App::open(&f, None) {
                            shared[0] = Some((f, a));
                        }
                    }
                    match shared[0].as_ref() {
                        Some((f, a)) => project(&run_query_live(a, f, &thread, &q)),
                        None => project(&run_query(&prepare(remove, drop_snap), &thread, &q)),
                    }
                } else {
                    let f = prepare(remove, drop_snap);
                    project(&run_query(&f, &thread, &q))
                }
            };
            r.eval();
            r.count("compiles_compared_with_model", 1);
            if got != expect {
                r.violation(
                    &format!("C08/compile_differs_from_truth_model/{}/{vname}/{pos_class}", m["compiler_strategy"].as_str().unwrap_or("?")),
                    &format!("compiled context for anchor {ai}/{n} ({vname}) differs from the raw-log model: {}", diff_summary(&got, &expect)),
                    wit(vname, &got),
                );
            }
            match &first {
                None => first = Some(got),
                Some(f0) => {
                    if *f0 != got {
                        r.violation(
                            &format!("C08/compile_depends_on_cache_state/{vname}/{pos_class}"),
                            &format!("compile result differs between cache states: {}", diff_summary(&got, f0)),
                            wit(vname, &got),
                        );
                    }
                }
            }
        }
        r.distinct_str(&format!("{}|{}|{}|ck{}|dense{}|late{}|failed{}", lay.name, pos_class, m["compiler_strategy"].as_str().unwrap_or("?"),
            m["compaction_checkpoints"].as_array().map(|a| a.len()).unwrap_or(0), lay.dense.min(3), (ws.late_ends > 0) as u8,
            if ws.failed_replies > 0 { 2 } else { (ws.failed_answers > 0) as u8 }));
        r.count(&format!("strategy:{}", m["compiler_strategy"].as_str().unwrap_or("?")), 1);
        let items = m["items"].as_array().map(|a| a.len()).unwrap_or(0);
        r.count("bundle_items_checked", items as u64);
        if m["items"].as_array().map(|a| a.iter().any(|i| i["role"] == "assistant")).unwrap_or(false) {
            r.count("bundles_with_reply_text", 1);
        }
    }

    drop(shared);
    if verbose {
        eprintln!("case {idx}: {} anchors compiled at {:.1}s", picks.len(), r.elapsed());
    }
    // (b) appends beyond the cut do not change the result; (d) nor do racing appenders
    let fixed: Vec<usize> = picks.iter().copied().filter(|ai| ai + 1 < n).collect();
    if !fixed.is_empty() {
        let ai = fixed[rng.usize(fixed.len())];
        let anchor = msg_ids[ai].clone();
        let expect = model(&frames, &thread, &anchor).map(|m| expect_from_model(&m, &thread)).unwrap_or(Value::Null);
        let work = store.fork("c08w");
        let app = App::open(&work, None).expect("open work");
        let q = compile_q(&anchor);
        let before = project(&run_query_live(&app, &work, &thread, &q));
        // directed: a checkpoint for the anchor itself (to_seq <= cut) appended after the cut
        if idx % 4 == 0 {
            let _ = app.store().compaction_checkpoint_cumulative_v1(
                &thread,
                ripd::CompactionCheckpointCumulativeV1Request {
                    summary_markdown: Some("late summary".into()),
                    summary_artifact_id: None,
                    to_message_id: Some(anchor.clone()),
                    to_seq: None,
                    stride_messages: None,
                    actor_id: "a".into(),
                    origin: "rv".into(),
                },
            );
        }
        // sequential appends
        let mut k2 = Known::default();
        k2.msgs = known.msgs.clone();
        for _ in 0..(5 + rng.usize(30)) {
            let kind = [OpKind::Msg, OpKind::SideEffects, OpKind::Cursor, OpKind::ManualCkpt, OpKind::Auto, OpKind::RunSpawned, OpKind::RunEnded][rng.usize(7)];
            let _ = exec(&app, &work.data, &conts, &mut k2, kind, rng, "after");
        }
        let after = project(&run_query_live(&app, &work, &thread, &q));
        r.eval();
        r.count("recompiles_after_appends_beyond_cut", 1);
        // checkpoints appended later with to_seq <= cut legitimately change the selection: the statement
        // says "frames appended after the cut point" do not matter, a later checkpoint *for an earlier seq* is
        // still a frame after the cut, so compare against the ORIGINAL model
        if before != expect || after != expect {
            let mut which = if before != expect { "before_appends".to_string() } else { "after_appends".to_string() };
            if before == expect && later_checkpoint_explains(&work, &thread, &expect, &after) {
                which = "later_checkpoint_frame_for_earlier_to_seq".to_string();
            }
            r.violation(
                &format!("C08/compile_changed_by_frames_after_cut/{which}"),
                &format!(
                    "anchor {ai}/{n} (cut fixed by a following message): {}",
                    diff_summary(if before != expect { &before } else { &after }, &expect)
                ),
                json!({"case": idx, "seed": cfg.seed, "layout": format!("{lay:?}"), "anchor_index": ai, "which": which}),
            );
        }
        // racing appenders
        if rng.chance(1, 2) {
            let stop = Arc::new(AtomicBool::new(false));
            let mut hs = Vec::new();
            for t in 0..3 {
                let app = app.clone();
                let data = work.data.clone();
                let conts = conts.clone();
                let stop = stop.clone();
                let mut trng = Rng::derive(rng.next_u64(), t);
                let mut kn = Known::default();
                kn.msgs = known.msgs.clone();
                hs.push(std::thread::spawn(move || {
                    let mut n = 0;
                    while !stop.load(Ordering::Relaxed) && n < 400 {
                        let kind = [OpKind::Msg, OpKind::SideEffects, OpKind::Cursor, OpKind::RunSpawned, OpKind::RunEnded][trng.usize(5)];
                        let _ = exec(&app, &data, &conts, &mut kn, kind, &mut trng, "race");
                        n += 1;
                    }
                    n
                }));
            }
            let s = sched();
            s.set_noise(rng.next_u64(), &[("cache.scan", 800), ("cont.cache.enter", 200)]);
            let mut raced = Vec::new();
            for _ in 0..4 {
                raced.push(project(&run_query_live(&app, &work, &thread, &q)));
            }
            stop.store(true, Ordering::Relaxed);
            let appended: usize = hs.into_iter().map(|h| h.join().unwrap_or(0)).sum();
            s.reset();
            r.count("racing_compiles", raced.len() as u64);
            r.count("frames_appended_while_compiling", appended as u64);
            for got in raced {
                r.eval();
                if got != expect {
                    let sig = if later_checkpoint_explains(&work, &thread, &expect, &got) {
                        "C08/compile_changed_by_frames_after_cut/later_checkpoint_frame_for_earlier_to_seq"
                    } else {
                        "C08/compile_changed_by_racing_appends"
                    };
                    r.violation(
                        sig,
                        &format!("anchor {ai}/{n} compiled while 3 appenders were running: {}", diff_summary(&got, &expect)),
                        json!({"case": idx, "seed": cfg.seed, "layout": format!("{lay:?}"), "anchor_index": ai}),
                    );
                }
            }
        }
    }
    if r.samples.len() < r.max_samples {
        r.sample(json!({"case": idx, "layout": format!("{lay:?}"), "failed_run_percent": fail_pct, "messages": n, "anchors": picks,
            "frames": frames.len()}));
    }
}

/// Like `Store::fork_sharing_ws` (copy of `data/`, shared workspace), but the session snapshots — read-only for a
/// compile, and there can be thousands of them — are hard-linked instead of copied.
fn fork_light(store: &Store) -> Store {
    static NEXT: std::sync::atomic::AtomicU64 = std::sync::atomic::AtomicU64::new(0);
    let n = NEXT.fetch_add(1, Ordering::Relaxed);
    let dir = crate::fixture::scratch_root().join(format!("c08f-{n}"));
    let _ = std::fs::remove_dir_all(&dir);
    let data = dir.join("data");
    let _ = std::fs::create_dir_all(&data);
    if let Ok(rd) = std::fs::read_dir(&store.data) {
        for e in rd.flatten() {
            let (src, dst) = (e.path(), data.join(e.file_name()));
            match e.file_type() {
                Ok(t) if t.is_dir() && e.file_name() == "snapshots" => {
                    let _ = std::fs::create_dir_all(&dst);
                    for s in std::fs::read_dir(&src).into_iter().flatten().flatten() {
                        let to = dst.join(s.file_name());
                        if std::fs::hard_link(s.path(), &to).is_err() {
                            let _ = std::fs::copy(s.path(), &to);
                        }
                    }
                }
                Ok(t) if t.is_dir() => crate::fixture::copy_dir(&src, &dst),
                Ok(t) if t.is_file() => {
                    let _ = std::fs::copy(&src, &dst);
                }
                _ => {}
            }
        }
    }
    Store { dir, data, ws: store.ws.clone(), keep: false }
}

/// message id -> byte offset of its line in the messages+runs sidecar, and the sidecar's length (workload
/// selection and evidence only, never part of the verdict)
fn mr_message_offsets(path: &std::path::Path) -> (HashMap<String, u64>, u64) {
    let mut out = HashMap::new();
    let Ok(bytes) = std::fs::read(path) else {
        return (out, 0);
    };
    let mut off = 0u64;
    for line in bytes.split_inclusive(|b| *b == b'\n') {
        // the envelope (id, type) precedes the payload; big contents need not be parsed
        let head = &line[..line.len().min(400)];
        let text = String::from_utf8_lossy(head);
        if text.contains("\"type\":\"continuity_message_appended\"") {
            if let Some(p) = text.find("\"id\":\"") {
                let rest = &text[p + 6..];
                if let Some(e) = rest.find('"') {
                    out.insert(rest[..e].to_string(), off);
                }
            }
        }
        off += line.len() as u64;
    }
    (out, bytes.len() as u64)
}

struct WindowStats {
    /// message + run_ended frames between the oldest window message and the cut (what the sidecar window holds)
    mr_frames: usize,
    /// run_ended frames in that range whose message is older than the window
    late_ends: usize,
    /// window messages whose answering run (last run_ended at or before the cut) did not complete
    failed_answers: usize,
    /// ... and streamed output text before it ended: a partial reply the bundle has to carry
    failed_replies: usize,
}

fn window_stats(frames: &[truth::Frame], thread: &str, m: &Value) -> WindowStats {
    let from_seq = m["from_seq"].as_u64().unwrap_or(0);
    let first = m["items"].as_array().and_then(|a| a.iter().find_map(|i| i["thread_seq"].as_u64())).unwrap_or(from_seq);
    let tf = truth::stream(frames, "continuity", thread);
    let seq_of: HashMap<&str, u64> = tf.iter().filter(|f| f.ty() == "continuity_message_appended").map(|f| (f.id(), f.seq())).collect();
    let mut ws = WindowStats { mr_frames: 0, late_ends: 0, failed_answers: 0, failed_replies: 0 };
    let mut answered: HashMap<&str, (&str, &str)> = HashMap::new();
    for f in tf.iter().filter(|f| f.ty() == "continuity_run_ended" && f.seq() <= from_seq) {
        answered.insert(f.s("message_id"), (f.s("run_session_id"), f.s("reason")));
    }
    for id in m["items"].as_array().into_iter().flatten().filter_map(|i| i["thread_event_id"].as_str()) {
        if let Some((sid, reason)) = answered.get(id) {
            if *reason != "completed" {
                ws.failed_answers += 1;
                if truth::stream(frames, "session", sid).iter().any(|f| f.ty() == "output_text_delta" && !f.s("delta").is_empty()) {
                    ws.failed_replies += 1;
                }
            }
        }
    }
    for f in tf.iter().filter(|f| f.seq() >= first && f.seq() <= from_seq) {
        match f.ty() {
            "continuity_message_appended" => ws.mr_frames += 1,
            "continuity_run_ended" => {
                ws.mr_frames += 1;
                if seq_of.get(f.s("message_id")).map(|s| *s < first).unwrap_or(false) {
                    ws.late_ends += 1;
                }
            }
            _ => {}
        }
    }
    ws
}

/// Is the difference between `expect` (model on the truth as it was) and `got` exactly what the
/// model yields on the truth as it is NOW, and does the now-truth contain a checkpoint frame that was
/// appended after the cut for a to_seq at or before the cut? Then the cause is the known one: the
/// compiler selects checkpoints by `to_seq <= cut` regardless of where the checkpoint frame itself sits.
fn later_checkpoint_explains(work: &Store, thread: &str, expect: &Value, got: &Value) -> bool {
    let Ok(frames) = truth::parse_log(&work.log_bytes_settled()) else {
        return false;
    };
    let anchor = expect["from_message_id"].as_str().unwrap_or("");
    let cut = expect["from_seq"].as_u64().unwrap_or(0);
    let Some(now) = model(&frames, thread, anchor) else {
        return false;
    };
    if expect_from_model(&now, thread) != *got {
        return false;
    }
    truth::stream(&frames, "continuity", thread).iter().any(|f| {
        f.ty() == "continuity_compaction_checkpoint_created" && f.seq() > cut && f.u("to_seq").unwrap_or(u64::MAX) <= cut
    })
}

/// compile on a live app (no fork), same normalisation as c04::run_query
fn run_query_live(app: &App, store: &Store, thread: &str, q: &QueryDef) -> Value {
    let link = ripd::ContinuityRunLink {
        continuity_id: thread.to_string(),
        message_id: q.args["message_id"].as_str().unwrap_or("").to_string(),
        actor_id: "q".into(),
        origin: "q".into(),
    };
    match ripd::verif_export::compile_context_for_run(&app.engine, &store.data, &link, "q-session", false) {
        Ok(mut v) => {
            let art = v["bundle_artifact_id"].as_str().unwrap_or("").to_string();
            let bundle: Value = std::fs::read(store.ws.join(".rip/artifacts/blobs").join(&art))
                .ok()
                .and_then(|b| serde_json::from_slice(&b).ok())
                .unwrap_or(json!("bundle unreadable"));
            if let Some(o) = v.as_object_mut() {
                o.remove("bundle_artifact_id");
                o.insert("bundle".into(), bundle);
            }
            json!({"ok": v})
        }
        Err(e) => json!({"err": e.chars().take(60).collect::<String>()}),
    }
}
