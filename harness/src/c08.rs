//! C08 — the compiled context is a pure function of thread truth up to the cut point.
//!
//! Reference-model monitor: for generated thread histories (real routed runs with output, dense
//! side effects, cursors, manual and automatic checkpoints at chosen boundaries) the run-time
//! compile entry point is called for many anchors and its decision + bundle are compared with a
//! small model computed from the raw log only (cut point, eligible checkpoints, halving
//! hierarchy, ≤16 recent messages after the latest summary, reply texts). Metamorphic checks:
//! identical under every cache state, identical after frames are appended beyond the cut,
//! identical with the session snapshot removed, and identical while appenders race with it.

use crate::c04::{diff_summary, run_query, QueryDef};
use crate::fixture::{runtime, wait_for, App, Store};
use crate::gen_hist::{exec, Known, OpKind};
use crate::prng::Rng;
use crate::report::{Cfg, Report};
use crate::sched::sched;
use crate::truth;
use serde_json::{json, Value};
use std::collections::HashMap;
use std::sync::atomic::{AtomicBool, Ordering};
use std::sync::Arc;
use std::time::Duration;

const LIMIT: usize = 16;
const MAX_REFS: usize = 3;

/// The model: expected compile outcome for `anchor` from the raw frames of the whole log.
fn model(frames: &[truth::Frame], thread: &str, anchor: &str) -> Option<Value> {
    let tf = truth::stream(frames, "continuity", thread);
    let head = tf.last()?.seq();
    let msgs: Vec<&&truth::Frame> = tf.iter().filter(|f| f.ty() == "continuity_message_appended").collect();
    let ai = msgs.iter().position(|m| m.id() == anchor)?;
    let aseq = msgs[ai].seq();
    let from_seq = match msgs.get(ai + 1) {
        Some(next) => next.seq().saturating_sub(1),
        None => head,
    }
    .max(aseq);
    // eligible cumulative checkpoints with to_seq <= from_seq; latest frame per to_seq wins
    let mut by_to: HashMap<u64, (u64, Value)> = HashMap::new();
    for f in tf.iter().filter(|f| f.ty() == "continuity_compaction_checkpoint_created") {
        let to = f.u("to_seq").unwrap_or(u64::MAX);
        if to > from_seq || f.s("summary_kind") != "cumulative_v1" {
            continue;
        }
        let rec = json!({
            "checkpoint_id": f.s("checkpoint_id"), "summary_kind": f.s("summary_kind"),
            "summary_artifact_id": f.s("summary_artifact_id"), "to_seq": to,
        });
        match by_to.get(&to) {
            Some((s, _)) if *s >= f.seq() => {}
            _ => {
                by_to.insert(to, (f.seq(), rec));
            }
        }
    }
    let mut unique: Vec<(u64, Value)> = by_to.into_iter().map(|(to, (_, v))| (to, v)).collect();
    unique.sort_by_key(|x| x.0);
    let mut selected: Vec<(u64, Value)> = Vec::new();
    if let Some(latest) = unique.last().cloned() {
        let mut cur = latest.0;
        selected.push(latest);
        while selected.len() < MAX_REFS {
            if cur <= 1 {
                break;
            }
            let threshold = cur / 2;
            if threshold == 0 {
                break;
            }
            // greatest to_seq <= threshold
            let cand = unique.iter().filter(|(to, _)| *to <= threshold).last().cloned();
            match cand {
                Some(c) if c.0 < cur => {
                    cur = c.0;
                    selected.push(c);
                }
                _ => break,
            }
        }
    }
    selected.sort_by_key(|x| x.0);
    let strategy = match selected.len() {
        0 => "recent_messages_v1",
        1 => "summaries_recent_messages_v1",
        _ => "hierarchical_summaries_recent_messages_v1",
    };
    let after = selected.last().map(|x| x.0);
    // last run_ended (seq <= from_seq) per message
    let mut ended: HashMap<&str, &str> = HashMap::new();
    for f in tf.iter().filter(|f| f.ty() == "continuity_run_ended" && f.seq() <= from_seq) {
        ended.insert(f.s("message_id"), f.s("run_session_id"));
    }
    let mut window: Vec<&&&truth::Frame> = msgs
        .iter()
        .filter(|m| m.seq() <= from_seq && after.map(|a| m.seq() > a).unwrap_or(true))
        .collect();
    if window.len() > LIMIT {
        window = window.split_off(window.len() - LIMIT);
    }
    let mut items: Vec<Value> = Vec::new();
    for (to, v) in &selected {
        items.push(json!({"type": "summary_ref", "artifact_id": v["summary_artifact_id"], "note": format!("compaction checkpoint to_seq={to}")}));
    }
    for m in window {
        items.push(json!({
            "type": "message", "role": "user", "content": m.s("content"), "actor_id": m.s("actor_id"),
            "origin": m.s("origin"), "thread_seq": m.seq(), "thread_event_id": m.id(),
        }));
        if let Some(sess) = ended.get(m.id()) {
            let text: String = truth::stream(frames, "session", sess)
                .iter()
                .filter(|f| f.ty() == "output_text_delta")
                .map(|f| f.s("delta").to_string())
                .collect();
            if !text.is_empty() {
                items.push(json!({"type": "message", "role": "assistant", "content": text, "actor_id": null,
                    "origin": null, "thread_seq": null, "thread_event_id": null}));
            }
        }
    }
    Some(json!({
        "from_seq": from_seq,
        "from_message_id": anchor,
        "compiler_strategy": strategy,
        "compaction_checkpoints": selected.iter().map(|x| x.1.clone()).collect::<Vec<_>>(),
        "compaction_checkpoint": selected.last().map(|x| x.1.clone()),
        "items": items,
    }))
}

/// The comparable projection of what the real compile returned.
fn project(ans: &Value) -> Value {
    let ok = &ans["ok"];
    if ok.is_null() {
        return json!({"error": ans["err"]});
    }
    json!({
        "from_seq": ok["from_seq"],
        "from_message_id": ok["from_message_id"],
        "compiler_strategy": ok["compiler_strategy"],
        "compaction_checkpoints": ok["compaction_checkpoints"],
        "compaction_checkpoint": ok["compaction_checkpoint"],
        "items": ok["bundle"]["items"],
        "bundle_source": ok["bundle"]["source"],
        "bundle_strategy": ok["bundle"]["compiler"]["strategy"],
    })
}

fn expect_from_model(m: &Value, thread: &str) -> Value {
    let mut e = m.clone();
    e["bundle_source"] = json!({"thread_id": thread, "from_seq": m["from_seq"], "from_message_id": m["from_message_id"]});
    e["bundle_strategy"] = m["compiler_strategy"].clone();
    e
}

#[derive(Clone, Debug)]
struct Layout {
    name: &'static str,
    /// per message i: (dense side effects after it, routed real run?, fake run frames?)
    msgs: usize,
    dense: usize,
    real_runs_every: usize,
    /// manual checkpoints: message ordinals (1-based), may repeat (equal to_seq)
    ckpts: Vec<usize>,
    auto_stride: Option<u64>,
    /// extra bytes per message: makes the messages+runs sidecar larger than the 256 KiB initial tail window
    filler: usize,
    /// compile every message as anchor (window-boundary effects sit at unpredictable positions)
    all_anchors: bool,
}

fn layouts(rng: &mut Rng, idx: u64) -> Layout {
    let fixed: Vec<Layout> = vec![
        Layout { name: "exactly_15", msgs: 15, dense: 0, real_runs_every: 4, ckpts: vec![], auto_stride: None, filler: 0, all_anchors: false },
        Layout { name: "exactly_16", msgs: 16, dense: 1, real_runs_every: 5, ckpts: vec![], auto_stride: None, filler: 0, all_anchors: false },
        Layout { name: "exactly_17", msgs: 17, dense: 0, real_runs_every: 6, ckpts: vec![], auto_stride: None, filler: 0, all_anchors: false },
        Layout { name: "ckpt_then_16", msgs: 20, dense: 0, real_runs_every: 7, ckpts: vec![4], auto_stride: None, filler: 0, all_anchors: false },
        Layout { name: "ckpt_then_17", msgs: 21, dense: 2, real_runs_every: 0, ckpts: vec![4], auto_stride: None, filler: 0, all_anchors: false },
        Layout { name: "ckpt_at_last", msgs: 9, dense: 0, real_runs_every: 3, ckpts: vec![9], auto_stride: None, filler: 0, all_anchors: false },
        Layout { name: "equal_to_seq_twice", msgs: 10, dense: 0, real_runs_every: 0, ckpts: vec![5, 5, 5], auto_stride: None, filler: 0, all_anchors: false },
        Layout { name: "halving_4", msgs: 40, dense: 0, real_runs_every: 0, ckpts: vec![2, 5, 10, 20, 38], auto_stride: None, filler: 0, all_anchors: false },
        Layout { name: "halving_dense", msgs: 24, dense: 3, real_runs_every: 9, ckpts: vec![1, 3, 6, 12, 23], auto_stride: None, filler: 0, all_anchors: false },
        Layout { name: "auto_every_3", msgs: 19, dense: 1, real_runs_every: 5, ckpts: vec![], auto_stride: Some(3), filler: 0, all_anchors: false },
        Layout { name: "dense_side_effects", msgs: 8, dense: 60, real_runs_every: 3, ckpts: vec![3], auto_stride: None, filler: 0, all_anchors: false },
        Layout { name: "single_message", msgs: 1, dense: 2, real_runs_every: 1, ckpts: vec![1], auto_stride: None, filler: 0, all_anchors: false },
    ];
    let mut fixed = fixed;
    fixed.push(Layout { name: "big_messages_60", msgs: 60, dense: 0, real_runs_every: 0, ckpts: vec![], auto_stride: None, filler: 6000, all_anchors: true });
    fixed.push(Layout { name: "big_messages_ckpt", msgs: 70, dense: 1, real_runs_every: 0, ckpts: vec![8], auto_stride: None, filler: 5000, all_anchors: true });
    fixed.push(Layout { name: "big_messages_runs", msgs: 48, dense: 0, real_runs_every: 7, ckpts: vec![], auto_stride: None, filler: 8000, all_anchors: true });
    if (idx as usize) < fixed.len() {
        return fixed[idx as usize].clone();
    }
    let msgs = 1 + rng.usize(45);
    let nck = rng.usize(6);
    Layout {
        name: "random",
        msgs,
        dense: [0, 0, 1, 3, 12][rng.usize(5)],
        real_runs_every: [0, 2, 3, 5][rng.usize(4)],
        ckpts: (0..nck).map(|_| 1 + rng.usize(msgs)).collect(),
        auto_stride: if rng.chance(1, 4) { Some(rng.range(1, 6)) } else { None },
        filler: if rng.chance(1, 5) { 3000 + rng.usize(6000) } else { 0 },
        all_anchors: rng.chance(1, 5),
    }
}

pub fn run(cfg: &Cfg) -> i32 {
    let mut r = Report::new(
        "C08",
        "exploration",
        "enumerated boundary layouts (15/16/17 messages, checkpoint at/after/beyond the cut, equal to_seq, 1-4 halving levels, \
         dense side effects, real routed runs with output) plus seeded random layouts; every sampled anchor is compiled by the real \
         entry point and compared with a raw-log model, then re-compiled under other cache states, after appends beyond the cut, \
         without the session snapshot, and while appenders race; distinct = distinct (layout shape, anchor position class, strategy)",
    );
    r.assume("the model follows context_bundle.md / ADR-0010 / ADR-0018 as implemented in context_compiler.rs and read from the docs");
    let s = sched();
    let rt = runtime(6);
    let mut idx = 0u64;
    while !r.over(cfg) && idx < cfg.tier.pick(400, 1_000_000) {
        let i = idx;
        idx += 1;
        if !cfg.mine(i) {
            continue;
        }
        let mut rng = cfg.case_rng(i);
        one_case(cfg, &mut r, &rt, &mut rng, i);
    }
    s.reset();
    r.finish(cfg)
}

fn compile_q(anchor: &str) -> QueryDef {
    QueryDef { name: "compile".into(), class: "compile", args: json!({"message_id": anchor}) }
}

fn one_case(cfg: &Cfg, r: &mut Report, rt: &tokio::runtime::Runtime, rng: &mut Rng, idx: u64) {
    let lay = layouts(rng, idx);
    let store = Store::new("c08");
    let app = match App::open(&store, None) {
        Ok(a) => a,
        Err(e) => {
            r.inconclusive(&format!("open: {e}"));
            return;
        }
    };
    let st = app.store();
    let thread = st.ensure_default().expect("default");
    let conts = vec![thread.clone()];
    let mut known = Known::default();
    let mut msg_ids: Vec<String> = Vec::new();
    let tag = format!("c{idx}");
    for m in 1..=lay.msgs {
        let real = lay.real_runs_every > 0 && m % lay.real_runs_every == 0;
        if real {
            // routed prompt: real session with output text + snapshot + run frames
            let app2 = app.clone();
            let t2 = thread.clone();
            let content = format!("prompt {tag} #{m} {}", rng.unicode(6));
            let log_path = store.log_path();
            let got = rt.block_on(async move {
                let (stc, v) = app2.json("POST", &format!("/threads/{t2}/messages"), Some(&json!({"content": content}))).await;
                if stc != 202 {
                    return None;
                }
                let mid = v["message_id"].as_str()?.to_string();
                let sid = v["session_id"].as_str()?.to_string();
                wait_for(Duration::from_secs(20), || {
                    let t = String::from_utf8_lossy(&std::fs::read(&log_path).unwrap_or_default()).to_string();
                    t.lines().rev().take(40).any(|l| l.contains("continuity_run_ended") && l.contains(&sid)).then_some(())
                })
                .await?;
                Some(mid)
            });
            match got {
                Some(mid) => {
                    known.msgs.push((thread.clone(), mid.clone()));
                    msg_ids.push(mid);
                }
                None => {
                    r.inconclusive(&format!("case {idx}: routed run did not finish"));
                    return;
                }
            }
        } else {
            if lay.filler > 0 {
                let content = format!("msg {tag} #{m} {}", rng.ascii(lay.filler));
                if let Ok(id) = st.append_message(&thread, "a".into(), "rv".into(), content) {
                    known.msgs.push((thread.clone(), id.clone()));
                    msg_ids.push(id);
                }
            } else {
                let res = exec(&app, &store.data, &conts, &mut known, OpKind::Msg, rng, &tag);
                if let Some(id) = res.acked.first() {
                    msg_ids.push(id.clone());
                }
            }
            if rng.chance(1, 3) {
                // a fake (frame-only) run for this message, sometimes two (last run_ended wins)
                let mid = msg_ids.last().cloned().unwrap_or_default();
                for k in 0..(1 + rng.usize(2)) {
                    let sid = format!("fake-{tag}-{m}-{k}");
                    let _ = st.append_run_spawned(&thread, &mid, &sid, "a".into(), "rv".into());
                    let _ = st.append_run_ended(&thread, &mid, &sid, "completed".into(), "a".into(), "rv".into());
                }
            }
        }
        for _ in 0..lay.dense {
            let k = [OpKind::SideEffects, OpKind::SideEffects, OpKind::Cursor][rng.usize(3)];
            let _ = exec(&app, &store.data, &conts, &mut known, k, rng, &tag);
        }
        for (ci, c) in lay.ckpts.iter().enumerate() {
            // place the checkpoint for message `c` some time after it was appended
            if *c + (ci % 3) == m || (*c > lay.msgs.saturating_sub(2) && m == lay.msgs && *c <= m && *c + (ci % 3) > m) {
                if let Some(mid) = msg_ids.get(*c - 1) {
                    let _ = st.compaction_checkpoint_cumulative_v1(
                        &thread,
                        ripd::CompactionCheckpointCumulativeV1Request {
                            summary_markdown: Some(format!("summary up to message {c} ({tag}/{ci})")),
                            summary_artifact_id: None,
                            to_message_id: Some(mid.clone()),
                            to_seq: None,
                            stride_messages: None,
                            actor_id: "a".into(),
                            origin: "rv".into(),
                        },
                    );
                }
            }
        }
        if let Some(stride) = lay.auto_stride {
            if m as u64 % stride == 0 {
                let _ = st.compaction_auto_v1(
                    &thread,
                    ripd::CompactionAutoV1Request { stride_messages: Some(stride), max_new_checkpoints: Some(2), dry_run: Some(false), actor_id: "a".into(), origin: "rv".into() },
                );
            }
        }
    }
    // trailing non-message frames after the last message (cut = head, not the last message)
    for _ in 0..rng.usize(4) {
        let _ = exec(&app, &store.data, &conts, &mut known, OpKind::SideEffects, rng, &tag);
    }
    drop(app);

    let frames = match truth::parse_log(&store.log_bytes_settled()) {
        Ok(f) => f,
        Err(e) => {
            r.inconclusive(&format!("case {idx}: log unreadable: {}", e.detail));
            return;
        }
    };
    let n = msg_ids.len();
    if n == 0 {
        return;
    }
    // anchors: boundary ones + random sample
    let mut picks: Vec<usize> = vec![0, n - 1, n.saturating_sub(2), n / 2];
    for off in [15usize, 16, 17] {
        if n > off {
            picks.push(n - 1 - off);
        }
    }
    for c in &lay.ckpts {
        picks.push(c - 1);
        if *c < n {
            picks.push(*c);
        }
    }
    for _ in 0..cfg.tier.pick(4, 10) {
        picks.push(rng.usize(n));
    }
    if lay.all_anchors {
        picks = (0..n).collect();
    }
    picks.sort();
    picks.dedup();

    for &ai in &picks {
        let anchor = &msg_ids[ai];
        let Some(m) = model(&frames, &thread, anchor) else {
            r.inconclusive("anchor not in truth");
            continue;
        };
        let expect = expect_from_model(&m, &thread);
        let q = compile_q(anchor);
        let pos_class = if ai + 1 == n { "tail" } else if n - 1 - ai >= 17 { "far" } else { "mid" };
        let wit = |variant: &str, got: &Value| {
            json!({"case": idx, "seed": cfg.seed, "layout": format!("{lay:?}"), "anchor_index": ai, "messages": n,
                   "variant": variant, "diff": diff_summary(got, &expect)})
        };
        // variants: caches as built / mr sidecars removed / every cache removed / snapshots removed
        let variants: [(&str, &[&str], bool); 4] = [
            ("caches_intact", &[], false),
            ("mr_sidecar_removed", &[".mr.v1.jsonl", ".mr.seek.v1.jsonl", ".mr.messages.v1.bin", ".mr.msgord.v1.bin"], false),
            ("all_caches_removed", &["*"], false),
            ("snapshots_removed", &[], true),
        ];
        let mut first: Option<Value> = None;
        for (vi, (vname, remove, drop_snap)) in variants.into_iter().enumerate() {
            if lay.all_anchors && vi % 2 == 1 && ai % 8 != 0 {
                continue; // long layouts: caches intact + all removed for every anchor, the rest for every 8th
            }
            let f = store.fork_sharing_ws("c08v");
            if remove.contains(&"*") {
                let _ = std::fs::remove_dir_all(f.streams_dir());
            } else {
                for suf in remove {
                    let _ = std::fs::remove_file(f.streams_dir().join(format!("{thread}{suf}")));
                }
            }
            if drop_snap {
                let _ = std::fs::remove_dir_all(f.data.join("snapshots"));
            }
            let got = project(&run_query(&f, &thread, &q));
            r.eval();
            r.count("compiles_compared_with_model", 1);
            if got != expect {
                r.violation(
                    &format!("C08/compile_differs_from_truth_model/{}/{vname}/{pos_class}", m["compiler_strategy"].as_str().unwrap_or("?")),
                    &format!("compiled context for anchor {ai}/{n} ({vname}) differs from the raw-log model: {}", diff_summary(&got, &expect)),
                    wit(vname, &got),
                );
            }
            match &first {
                None => first = Some(got),
                Some(f0) => {
                    if *f0 != got {
                        r.violation(
                            &format!("C08/compile_depends_on_cache_state/{vname}/{pos_class}"),
                            &format!("compile result differs between cache states: {}", diff_summary(&got, f0)),
                            wit(vname, &got),
                        );
                    }
                }
            }
        }
        r.distinct_str(&format!("{}|{}|{}|ck{}|dense{}", lay.name, pos_class, m["compiler_strategy"].as_str().unwrap_or("?"),
            m["compaction_checkpoints"].as_array().map(|a| a.len()).unwrap_or(0), lay.dense.min(3)));
        r.count(&format!("strategy:{}", m["compiler_strategy"].as_str().unwrap_or("?")), 1);
        let items = m["items"].as_array().map(|a| a.len()).unwrap_or(0);
        r.count("bundle_items_checked", items as u64);
        if m["items"].as_array().map(|a| a.iter().any(|i| i["role"] == "assistant")).unwrap_or(false) {
            r.count("bundles_with_reply_text", 1);
        }
    }

    // (b) appends beyond the cut do not change the result; (d) nor do racing appenders
    let fixed: Vec<usize> = picks.iter().copied().filter(|ai| ai + 1 < n).collect();
    if !fixed.is_empty() {
        let ai = fixed[rng.usize(fixed.len())];
        let anchor = msg_ids[ai].clone();
        let expect = model(&frames, &thread, &anchor).map(|m| expect_from_model(&m, &thread)).unwrap_or(Value::Null);
        let work = store.fork("c08w");
        let app = App::open(&work, None).expect("open work");
        let q = compile_q(&anchor);
        let before = project(&run_query_live(&app, &work, &thread, &q));
        // directed: a checkpoint for the anchor itself (to_seq <= cut) appended after the cut
        if idx % 4 == 0 {
            let _ = app.store().compaction_checkpoint_cumulative_v1(
                &thread,
                ripd::CompactionCheckpointCumulativeV1Request {
                    summary_markdown: Some("late summary".into()),
                    summary_artifact_id: None,
                    to_message_id: Some(anchor.clone()),
                    to_seq: None,
                    stride_messages: None,
                    actor_id: "a".into(),
                    origin: "rv".into(),
                },
            );
        }
        // sequential appends
        let mut k2 = Known::default();
        k2.msgs = known.msgs.clone();
        for _ in 0..(5 + rng.usize(30)) {
            let kind = [OpKind::Msg, OpKind::SideEffects, OpKind::Cursor, OpKind::ManualCkpt, OpKind::Auto, OpKind::RunSpawned, OpKind::RunEnded][rng.usize(7)];
            let _ = exec(&app, &work.data, &conts, &mut k2, kind, rng, "after");
        }
        let after = project(&run_query_live(&app, &work, &thread, &q));
        r.eval();
        r.count("recompiles_after_appends_beyond_cut", 1);
        // checkpoints appended later with to_seq <= cut legitimately change the selection: the statement
        // says "frames appended after the cut point" do not matter, a later checkpoint *for an earlier seq* is
        // still a frame after the cut, so compare against the ORIGINAL model
        if before != expect || after != expect {
            let mut which = if before != expect { "before_appends".to_string() } else { "after_appends".to_string() };
            if before == expect && later_checkpoint_explains(&work, &thread, &expect, &after) {
                which = "later_checkpoint_frame_for_earlier_to_seq".to_string();
            }
            r.violation(
                &format!("C08/compile_changed_by_frames_after_cut/{which}"),
                &format!(
                    "anchor {ai}/{n} (cut fixed by a following message): {}",
                    diff_summary(if before != expect { &before } else { &after }, &expect)
                ),
                json!({"case": idx, "seed": cfg.seed, "layout": format!("{lay:?}"), "anchor_index": ai, "which": which}),
            );
        }
        // racing appenders
        if rng.chance(1, 2) {
            let stop = Arc::new(AtomicBool::new(false));
            let mut hs = Vec::new();
            for t in 0..3 {
                let app = app.clone();
                let data = work.data.clone();
                let conts = conts.clone();
                let stop = stop.clone();
                let mut trng = Rng::derive(rng.next_u64(), t);
                let mut kn = Known::default();
                kn.msgs = known.msgs.clone();
                hs.push(std::thread::spawn(move || {
                    let mut n = 0;
                    while !stop.load(Ordering::Relaxed) && n < 400 {
                        let kind = [OpKind::Msg, OpKind::SideEffects, OpKind::Cursor, OpKind::RunSpawned, OpKind::RunEnded][trng.usize(5)];
                        let _ = exec(&app, &data, &conts, &mut kn, kind, &mut trng, "race");
                        n += 1;
                    }
                    n
                }));
            }
            let s = sched();
            s.set_noise(rng.next_u64(), &[("cache.scan", 800), ("cont.cache.enter", 200)]);
            let mut raced = Vec::new();
            for _ in 0..4 {
                raced.push(project(&run_query_live(&app, &work, &thread, &q)));
            }
            stop.store(true, Ordering::Relaxed);
            let appended: usize = hs.into_iter().map(|h| h.join().unwrap_or(0)).sum();
            s.reset();
            r.count("racing_compiles", raced.len() as u64);
            r.count("frames_appended_while_compiling", appended as u64);
            for got in raced {
                r.eval();
                if got != expect {
                    let sig = if later_checkpoint_explains(&work, &thread, &expect, &got) {
                        "C08/compile_changed_by_frames_after_cut/later_checkpoint_frame_for_earlier_to_seq"
                    } else {
                        "C08/compile_changed_by_racing_appends"
                    };
                    r.violation(
                        sig,
                        &format!("anchor {ai}/{n} compiled while 3 appenders were running: {}", diff_summary(&got, &expect)),
                        json!({"case": idx, "seed": cfg.seed, "layout": format!("{lay:?}"), "anchor_index": ai}),
                    );
                }
            }
        }
    }
    if r.samples.len() < r.max_samples {
        r.sample(json!({"case": idx, "layout": format!("{lay:?}"), "messages": n, "anchors": picks,
            "frames": frames.len()}));
    }
}

/// Is the difference between `expect` (model on the truth as it was) and `got` exactly what the
/// model yields on the truth as it is NOW, and does the now-truth contain a checkpoint frame that was
/// appended after the cut for a to_seq at or before the cut? Then the cause is the known one: the
/// compiler selects checkpoints by `to_seq <= cut` regardless of where the checkpoint frame itself sits.
fn later_checkpoint_explains(work: &Store, thread: &str, expect: &Value, got: &Value) -> bool {
    let Ok(frames) = truth::parse_log(&work.log_bytes_settled()) else {
        return false;
    };
    let anchor = expect["from_message_id"].as_str().unwrap_or("");
    let cut = expect["from_seq"].as_u64().unwrap_or(0);
    let Some(now) = model(&frames, thread, anchor) else {
        return false;
    };
    if expect_from_model(&now, thread) != *got {
        return false;
    }
    truth::stream(&frames, "continuity", thread).iter().any(|f| {
        f.ty() == "continuity_compaction_checkpoint_created" && f.seq() > cut && f.u("to_seq").unwrap_or(u64::MAX) <= cut
    })
}

/// compile on a live app (no fork), same normalisation as c04::run_query
fn run_query_live(app: &App, store: &Store, thread: &str, q: &QueryDef) -> Value {
    let link = ripd::ContinuityRunLink {
        continuity_id: thread.to_string(),
        message_id: q.args["message_id"].as_str().unwrap_or("").to_string(),
        actor_id: "q".into(),
        origin: "q".into(),
    };
    match ripd::verif_export::compile_context_for_run(&app.engine, &store.data, &link, "q-session", false) {
        Ok(mut v) => {
            let art = v["bundle_artifact_id"].as_str().unwrap_or("").to_string();
            let bundle: Value = std::fs::read(store.ws.join(".rip/artifacts/blobs").join(&art))
                .ok()
                .and_then(|b| serde_json::from_slice(&b).ok())
                .unwrap_or(json!("bundle unreadable"));
            if let Some(o) = v.as_object_mut() {
                o.remove("bundle_artifact_id");
                o.insert("bundle".into(), bundle);
            }
            json!({"ok": v})
        }
        Err(e) => json!({"err": e.chars().take(60).collect::<String>()}),
    }
}
