//! C02 — the truth log is append-only; read-only / dry-run / no-op capabilities never write.
//!
//! Sequential histories through the real router + store. After EVERY call the harness re-reads
//! `data/events.jsonl` and checks (1) the retained old bytes are an exact prefix, (2) the added
//! suffix is a sequence of whole `\n`-terminated JSON frames, (3) calls classified
//! *must-add-nothing* (all GETs incl. the three SSE GETs, the four status/cut-point POSTs,
//! dry_run=true, auto/schedule answers `noop`/`dry_run`, rotate answering `rotated:false`, every
//! 4xx-rejected request, unknown / malformed ids, malformed bodies, direct replays, cache
//! rebuilds after cache deletion/corruption, restarts) added no byte, (4) ids acknowledged by a
//! writing call are already in the file when the call returns (flush).
//!
//! Asynchronous writers (runs, tasks, compaction jobs) are waited for (their documented last
//! frame / snapshot file) before the next "before" snapshot is taken, so a read-only call is
//! never blamed for bytes of a still-running run.
//!
//! Thorough tier (or `--strace`): a second observer runs the real `rip serve` under strace and
//! asserts events.jsonl is only opened O_APPEND-for-write or read-only, never truncated,
//! renamed, unlinked or positionally written. Skips (note, not failure) when strace or the
//! binary is missing.

use crate::fixture::{runtime, App, Store};
use crate::gen_hist::{exec, Known, OpKind};
use crate::prng::Rng;
use crate::provider::{ev_completed, ev_created, ev_text_delta, sse_done, sse_event, Provider, Reply};
use crate::report::{Cfg, Report};
use crate::truth;
use axum::body::Body;
use axum::http::Request;
use http_body_util::BodyExt;
use ripd::verif_export::{OpenResponsesConfig, ToolChoiceParam};
use serde_json::{json, Value};
use std::path::PathBuf;
use std::sync::Arc;
use std::time::{Duration, Instant};
use tower::ServiceExt;

#[path = "c02_strace.rs"]
mod strace_obs;

pub fn run(cfg: &Cfg) -> i32 {
    let mut r = Report::new(
        "C02",
        "exploration",
        "seeded sequential histories (60–250 calls) over the real router + store: writers (messages with tool / \
         checkpoint / prompt inputs, sessions, tasks, branch, handoff, checkpoints, rotate, auto, schedule, direct store \
         ops), read-only capabilities with fuzzed parameters and ids, malformed requests, cache deletion/corruption, \
         restarts; the log is re-read after every call; a call is non-trivial when it was judged against a non-empty \
         log; distinct = distinct (route, status, id class, parameter shape, expectation, fault context) tuples",
    );
    r.assume("asynchronous writers end with their documented last frame (run_ended / job_ended) or snapshot file");
    r.assume("histories are sequential: concurrent interleavings are C01's subject");
    let rt = runtime(6);
    quiet_panics();

    if let Some(path) = cfg.replay.clone() {
        let (seed, case) = read_replay(&path);
        let mut rng = Rng::derive(seed, case);
        one_history(cfg, &mut r, &rt, &mut rng, case);
        note_panics(&mut r);
        drop(rt);
        return r.finish(cfg);
    }

    // second observer: real binary under strace (thorough tier or on request), once, shard 0
    if (cfg.tier == crate::report::Tier::Thorough || cfg.has_flag("--strace")) && cfg.shard.0 == 0 {
        strace_obs::observe(cfg, &mut r);
    }

    let mut case = 0u64;
    let max_cases = cfg.tier.pick(2_000u64, 1_000_000u64);
    while case < max_cases && !r.over(cfg) {
        let idx = case;
        case += 1;
        if !cfg.mine(idx) {
            continue;
        }
        let mut rng = cfg.case_rng(idx);
        one_history(cfg, &mut r, &rt, &mut rng, idx);
    }
    note_panics(&mut r);
    if r.counters.get("must_add_nothing_calls").copied().unwrap_or(0) == 0 && r.violations.is_empty() {
        r.fatal_inconclusive("no must-add-nothing call was judged");
    }
    drop(rt);
    r.finish(cfg)
}

fn note_panics(r: &mut Report) {
    let g = PANICS.lock().map(|g| g.clone()).unwrap_or_default();
    if !g.is_empty() {
        let mut uniq: Vec<String> = Vec::new();
        for m in &g {
            // location + message without addresses
            if !uniq.contains(m) && uniq.len() < 5 {
                uniq.push(m.clone());
            }
        }
        r.count("handler_panics_survived", g.len() as u64);
        r.note("handler_panic_messages", json!(uniq));
    }
}

fn read_replay(path: &PathBuf) -> (u64, u64) {
    let v: Value = std::fs::read(path)
        .ok()
        .and_then(|b| serde_json::from_slice(&b).ok())
        .unwrap_or(Value::Null);
    let seed = v.get("seed").and_then(|x| x.as_u64()).unwrap_or(1);
    let case = v.pointer("/witness/case").and_then(|x| x.as_u64()).unwrap_or(0);
    (seed, case)
}

// ---------------------------------------------------------------------------------------------

#[derive(Clone, Copy, Debug, PartialEq, Eq)]
enum Act {
    Ensure,
    PostMessage,
    StoreOp,
    Branch,
    Handoff,
    Checkpoint,
    Rotate,
    Auto,
    Schedule,
    SessionCreate,
    SessionInput,
    SessionCancel,
    TaskCreate,
    TaskCancel,
    TaskMisc,
    ReadOnlyPost,
    Get,
    Sse,
    Malformed,
    DirectRead,
    Restart,
    CacheFault,
}

const ALL_ACTS: &[(Act, u64)] = &[
    (Act::Ensure, 2),
    (Act::PostMessage, 12),
    (Act::StoreOp, 16),
    (Act::Branch, 2),
    (Act::Handoff, 2),
    (Act::Checkpoint, 3),
    (Act::Rotate, 4),
    (Act::Auto, 5),
    (Act::Schedule, 5),
    (Act::SessionCreate, 2),
    (Act::SessionInput, 2),
    (Act::SessionCancel, 1),
    (Act::TaskCreate, 2),
    (Act::TaskCancel, 1),
    (Act::TaskMisc, 1),
    (Act::ReadOnlyPost, 22),
    (Act::Get, 9),
    (Act::Sse, 3),
    (Act::Malformed, 6),
    (Act::DirectRead, 3),
    (Act::Restart, 2),
    (Act::CacheFault, 3),
];

enum Pending {
    RunEnded(String),
    SessionEnded(String),
    TaskSnapshot(String),
    JobEnded(String),
}

#[derive(Debug, Clone, PartialEq, Eq)]
enum Expect {
    /// must add no byte; the string is the reason class
    Nothing(&'static str),
    MayWrite,
}

struct Outcome {
    route: String,
    status: u16,
    id_class: &'static str,
    shape: String,
    expect: Expect,
    acked: Vec<String>,
    detail: Value,
}

struct Hist {
    idx: u64,
    store: Store,
    app: Option<App>,
    provider_cfg: Option<OpenResponsesConfig>,
    provider_endpoint: Option<String>,
    threads: Vec<String>,
    msgs: Vec<(String, String)>,
    sessions_fresh: Vec<String>,
    sessions_used: Vec<String>,
    tasks: Vec<String>,
    stale: Vec<String>,
    known: Known,
    old: Vec<u8>,
    pending: Vec<Pending>,
    fault_armed: u32,
    /// a cache fault was applied earlier in this case (well-formed but stale cache files may exist: C04's known class)
    any_cache_fault: bool,
    last_fault: &'static str,
    ensured: bool,
    step: usize,
    hung: bool,
    allow_reuse: bool,
    orphan_job: bool,
}

const MALFORMED_IDS: &[&str] = &[
    "",
    " ",
    ".",
    "..",
    "../events",
    "../../data/events",
    "../continuities/index",
    "events",
    "a/b",
    "x\u{0}y",
    "\u{202e}abc",
    "🙂",
    "null",
    "0",
    "-1",
    "{id}",
    "*",
    "%",
    "C:\\x",
    "\n",
    "00000000-0000-0000-0000-000000000000",
    "not-a-uuid",
];

fn enc(s: &str) -> String {
    let mut out = String::new();
    for b in s.bytes() {
        if b.is_ascii_alphanumeric() || b == b'-' || b == b'_' || b == b'.' || b == b'~' {
            out.push(b as char);
        } else {
            out.push_str(&format!("%{b:02X}"));
        }
    }
    out
}

fn has_prefix(new: &[u8], old: &[u8]) -> bool {
    new.len() >= old.len() && new[..old.len()] == old[..]
}

fn contains(hay: &[u8], needle: &[u8]) -> bool {
    !needle.is_empty() && hay.windows(needle.len()).any(|w| w == needle)
}

async fn send(
    app: &App,
    method: &str,
    path: &str,
    ctype: Option<&str>,
    body: Vec<u8>,
) -> Option<(u16, Vec<u8>)> {
    let mut b = Request::builder().method(method).uri(path);
    if let Some(c) = ctype {
        b = b.header("content-type", c);
    }
    let req = b.body(Body::from(body)).ok()?;
    let router = app.router.clone();
    // run the handler on its own task, as the real server does: a panicking handler must not take the
    // harness down (status 598 = handler panicked, 0 = watchdog)
    let join = tokio::spawn(async move {
        let resp = router.oneshot(req).await.ok()?;
        let status = resp.status().as_u16();
        let bytes = resp.into_body().collect().await.map(|c| c.to_bytes().to_vec()).unwrap_or_default();
        Some((status, bytes))
    });
    match tokio::time::timeout(Duration::from_secs(20), join).await {
        Ok(Ok(v)) => v,
        Ok(Err(_)) => Some((598, Vec::new())),
        Err(_) => Some((0, Vec::new())),
    }
}

static PANICS: std::sync::Mutex<Vec<String>> = std::sync::Mutex::new(Vec::new());

fn quiet_panics() {
    std::panic::set_hook(Box::new(|info| {
        let msg = info.to_string();
        if let Ok(mut g) = PANICS.lock() {
            if g.len() < 50 {
                g.push(msg.chars().take(200).collect());
            }
        }
    }));
}

fn jbody(v: &Value) -> Vec<u8> {
    serde_json::to_vec(v).unwrap_or_default()
}

fn parse(b: &[u8]) -> Value {
    serde_json::from_slice(b).unwrap_or(Value::Null)
}

impl Hist {
    fn app(&self) -> App {
        self.app.clone().expect("app open")
    }

    fn log(&self) -> Vec<u8> {
        self.store.log_bytes()
    }

    /// (decoded id, class)
    fn pick_thread_id(&self, rng: &mut Rng, real_bias: u64) -> (String, &'static str) {
        let x = rng.below(100);
        if x < real_bias && !self.threads.is_empty() {
            return (rng.pick(&self.threads).clone(), "real");
        }
        match rng.below(6) {
            0 | 1 => (
                format!(
                    "{}-{}-{}-{}-{}",
                    rng.hex(8),
                    rng.hex(4),
                    rng.hex(4),
                    rng.hex(4),
                    rng.hex(12)
                ),
                "unknown_uuid",
            ),
            2 | 3 => (MALFORMED_IDS[rng.usize(MALFORMED_IDS.len())].to_string(), "malformed"),
            4 => {
                // variants of a real id that map to neighbouring cache files or differ in case
                if let Some(t) = self.threads.first() {
                    let v = match rng.below(5) {
                        0 => t.to_uppercase(),
                        1 => format!("{t}.mr.v1"),
                        2 => format!("{t} "),
                        3 => format!("./{t}"),
                        _ => format!("{t}.comp.v1"),
                    };
                    (v, "real_variant")
                } else {
                    ("x".repeat(300), "malformed")
                }
            }
            _ => {
                // wrong kind: a session / task / stale id
                let pool: Vec<&String> = self
                    .sessions_used
                    .iter()
                    .chain(self.tasks.iter())
                    .chain(self.stale.iter())
                    .collect();
                if pool.is_empty() {
                    ("x".repeat(300), "malformed")
                } else {
                    (pool[rng.usize(pool.len())].clone(), "wrong_kind")
                }
            }
        }
    }

    fn opt_u(rng: &mut Rng, pool: &[Value]) -> Option<Value> {
        if rng.chance(1, 5) {
            None
        } else {
            Some(pool[rng.usize(pool.len())].clone())
        }
    }

    fn stride_pool() -> Vec<Value> {
        vec![
            json!(0),
            json!(1),
            json!(1),
            json!(2),
            json!(2),
            json!(3),
            json!(5),
            json!(10_000),
            json!(u64::MAX),
            json!(null),
            json!(-1),
            json!("3"),
            json!(1.5),
        ]
    }

    fn limit_pool() -> Vec<Value> {
        vec![
            json!(0),
            json!(1),
            json!(33),
            json!(u32::MAX),
            json!(u32::MAX as u64 + 1),
            json!(null),
            json!(-1),
            json!("7"),
        ]
    }

    fn shape_of(v: &Value) -> String {
        // parameter shape: keys with a coarse value class
        match v {
            Value::Object(m) => {
                let mut parts: Vec<String> = m
                    .iter()
                    .map(|(k, v)| {
                        let c = match v {
                            Value::Null => "null".to_string(),
                            Value::Bool(b) => b.to_string(),
                            Value::Number(n) => {
                                if let Some(u) = n.as_u64() {
                                    match u {
                                        0 => "0".into(),
                                        1 => "1".into(),
                                        2..=99 => "small".into(),
                                        100..=4_294_967_295 => "mid".into(),
                                        _ => "huge".into(),
                                    }
                                } else if n.is_i64() {
                                    "neg".into()
                                } else {
                                    "float".into()
                                }
                            }
                            Value::String(s) => {
                                if s.is_empty() {
                                    "str0".into()
                                } else {
                                    "str".into()
                                }
                            }
                            Value::Array(_) => "arr".into(),
                            Value::Object(_) => "obj".into(),
                        };
                        format!("{k}={c}")
                    })
                    .collect();
                parts.sort();
                parts.join(",")
            }
            other => format!("non_object:{}", other.to_string().chars().take(12).collect::<String>()),
        }
    }
}

include!("c02_steps.rs");
