//! C06 — a stream subscriber sees every frame exactly once, in order.
//!
//! Observed: the bytes of `GET /sessions/{id}/events`, `/tasks/{id}/events`, `/threads/{id}/events`
//! served by the real router, parsed back into frames, per subscriber, compared with the truth log.
//!
//! Phases
//!  A. driven joins (fault_enumeration): for every frame k of a producer and every placement of the
//!     subscriber's two steps (subscribe, snapshot) relative to the producer's steps of frame k the
//!     rendezvous rules of `sched` park one side at its hook until the other passed the chosen hook.
//!  B. stress: 1–32 subscribers attach at random instants to sessions / tasks / threads that are
//!     producing, with seeded noise at the emit / stream hook points.
//!  C. burst: a producer emits more frames than the broadcast channel holds (16 384) while a
//!     subscriber does not read; then the subscriber reads everything it is given.

use crate::fixture::{runtime, wait_for, App, Store};
use crate::prng::Rng;
use crate::report::{Cfg, Report};
use crate::sched::{sched, Ev, ParkRule, Sched};
use crate::truth;
use serde_json::{json, Value};
use std::collections::{BTreeMap, BTreeSet, HashMap};
use std::sync::atomic::{AtomicBool, AtomicU64, Ordering};
use std::sync::Arc;
use std::time::{Duration, Instant};

const QS: &str = "server.stream.subscribed";
const QN: &str = "server.stream.snapshotted";
const DONE_POINT: &str = "rv.c06.producer_done";
const CHANNEL_CAPACITY: u64 = 16_384;

#[derive(Clone, Copy, Debug, PartialEq, Eq, Hash, PartialOrd, Ord)]
pub enum Kind {
    Session,
    Task,
    Thread,
}

impl Kind {
    fn name(&self) -> &'static str {
        match self {
            Kind::Session => "session",
            Kind::Task => "task",
            Kind::Thread => "thread",
        }
    }
    fn log_kind(&self) -> &'static str {
        match self {
            Kind::Session => "session",
            Kind::Task => "task",
            Kind::Thread => "continuity",
        }
    }
    fn path(&self, id: &str) -> String {
        match self {
            Kind::Session => format!("/sessions/{id}/events"),
            Kind::Task => format!("/tasks/{id}/events"),
            Kind::Thread => format!("/threads/{id}/events"),
        }
    }
}

// ---------------------------------------------------------------------------------------------
// heartbeat: a hook that parks (or sleeps in) a tokio worker can leave the runtime's I/O + timer
// driver unattended (the worker that held it is the one now blocked, the others sleep on condvars);
// timers of the orchestration would then stall until the parked thread is released. A plain thread
// that injects an empty task every 300 µs makes some idle worker wake up, run it and park again on
// the driver, so timers keep firing.

pub struct Heartbeat {
    stop: Arc<AtomicBool>,
    th: Option<std::thread::JoinHandle<()>>,
}

impl Heartbeat {
    pub fn start(h: tokio::runtime::Handle) -> Heartbeat {
        let stop = Arc::new(AtomicBool::new(false));
        let st = stop.clone();
        let th = std::thread::spawn(move || {
            while !st.load(Ordering::Relaxed) {
                let _ = h.spawn(async {});
                std::thread::sleep(Duration::from_micros(300));
            }
        });
        Heartbeat { stop, th: Some(th) }
    }
}

impl Drop for Heartbeat {
    fn drop(&mut self) {
        self.stop.store(true, Ordering::Relaxed);
        if let Some(t) = self.th.take() {
            let _ = t.join();
        }
    }
}

// ---------------------------------------------------------------------------------------------
// subscriber

pub struct SubCtl {
    /// producers of the stream are quiescent and `final_seq` is valid
    pub done: AtomicBool,
    /// last seq of the stream in the log (valid once `done`)
    pub final_seq: AtomicU64,
    /// the GET returned its response head (the handler ran: subscribed + snapshotted)
    pub joined: AtomicBool,
    /// while set the subscriber does not poll the body at all (slow reader)
    pub pause: AtomicBool,
    pub grace_ms: u64,
}

impl SubCtl {
    pub fn new(grace_ms: u64) -> Arc<SubCtl> {
        Arc::new(SubCtl {
            done: AtomicBool::new(false),
            final_seq: AtomicU64::new(u64::MAX),
            joined: AtomicBool::new(false),
            pause: AtomicBool::new(false),
            grace_ms,
        })
    }
    fn finish(&self, final_seq: Option<u64>) {
        self.final_seq.store(final_seq.unwrap_or(u64::MAX), Ordering::SeqCst);
        self.done.store(true, Ordering::SeqCst);
    }
}

#[derive(Debug, Default)]
pub struct SubOut {
    pub status: u16,
    pub frames: Vec<Value>,
    pub malformed: Vec<String>,
    pub raw_bytes: u64,
    pub reached_final: bool,
    /// the server closed the stream by itself
    pub stream_ended: bool,
}

pub async fn subscribe_and_read(app: App, kind: Kind, id: String, ctl: Arc<SubCtl>) -> SubOut {
    let mut out = SubOut::default();
    let (status, rd) = app.sse(&kind.path(&id)).await;
    out.status = status;
    ctl.joined.store(true, Ordering::SeqCst);
    let Some(mut rd) = rd else {
        return out;
    };
    let start = Instant::now();
    let mut last_progress = Instant::now();
    let mut max_seq: Option<u64> = None;
    let mut done_seen_at: Option<Instant> = None;
    loop {
        if ctl.pause.load(Ordering::SeqCst) {
            tokio::time::sleep(Duration::from_millis(2)).await;
            last_progress = Instant::now();
            if start.elapsed() > Duration::from_secs(120) {
                break;
            }
            continue;
        }
        let done = ctl.done.load(Ordering::SeqCst);
        if done {
            if done_seen_at.is_none() {
                done_seen_at = Some(Instant::now());
            }
            let fin = ctl.final_seq.load(Ordering::SeqCst);
            if fin != u64::MAX && max_seq.map(|m| m >= fin).unwrap_or(false) {
                out.reached_final = true;
                // anything delivered after the last frame of the stream would be a repeat
                if let Some(d) = rd.next_data(Duration::from_millis(5)).await {
                    push_frame(&mut out, &d, &mut max_seq);
                }
                break;
            }
        }
        let t0 = Instant::now();
        match rd.next_data(Duration::from_millis(6)).await {
            Some(d) => {
                push_frame(&mut out, &d, &mut max_seq);
                last_progress = Instant::now();
            }
            None => {
                if t0.elapsed() < Duration::from_millis(2) {
                    // stream ended (not a timeout): do not spin
                    tokio::time::sleep(Duration::from_millis(5)).await;
                }
                if let Some(ds) = done_seen_at {
                    let grace = Duration::from_millis(ctl.grace_ms);
                    if last_progress.elapsed() > grace && ds.elapsed() > grace {
                        break;
                    }
                }
                if start.elapsed() > Duration::from_secs(60) {
                    break;
                }
            }
        }
    }
    out.raw_bytes = rd.raw_bytes;
    out.stream_ended = rd.ended;
    out
}

fn push_frame(out: &mut SubOut, data: &str, max_seq: &mut Option<u64>) {
    match serde_json::from_str::<Value>(data) {
        Ok(v) if v.is_object() => {
            if let Some(s) = v.get("seq").and_then(|x| x.as_u64()) {
                *max_seq = Some(max_seq.map(|m| m.max(s)).unwrap_or(s));
            }
            out.frames.push(v);
        }
        _ => {
            if out.malformed.len() < 4 {
                out.malformed.push(data.chars().take(200).collect());
            }
        }
    }
}

// ---------------------------------------------------------------------------------------------
// oracle: one subscriber's frames against the log's frames of that stream

#[derive(Debug, Default, Clone)]
pub struct Verdict {
    pub received: usize,
    pub max_seq: Option<u64>,
    pub dup: Vec<u64>,
    pub out_of_order: Vec<(u64, u64)>,
    pub differs: Vec<u64>,
    pub foreign: usize,
    pub no_seq: usize,
    pub not_in_log: Vec<u64>,
    /// seqs below the highest delivered seq that were never delivered
    pub lost: Vec<u64>,
    /// frames of the log above the highest delivered seq (not delivered within the grace window)
    pub tail_missing: u64,
    pub log_len: usize,
}

impl Verdict {
    fn clean(&self) -> bool {
        self.dup.is_empty()
            && self.out_of_order.is_empty()
            && self.differs.is_empty()
            && self.foreign == 0
            && self.no_seq == 0
            && self.not_in_log.is_empty()
            && self.lost.is_empty()
    }
}

/// `log` = frames of the stream from the truth log in seq order (seq i at index i).
pub fn compare(id: &str, frames: &[Value], log: &[Value]) -> Verdict {
    let mut v = Verdict {
        received: frames.len(),
        log_len: log.len(),
        ..Default::default()
    };
    let mut seen: BTreeSet<u64> = BTreeSet::new();
    let mut prev: Option<u64> = None;
    for f in frames {
        let sid = f
            .get("stream_id")
            .and_then(|x| x.as_str())
            .or_else(|| f.get("session_id").and_then(|x| x.as_str()))
            .unwrap_or("");
        if sid != id {
            v.foreign += 1;
            continue;
        }
        let Some(seq) = f.get("seq").and_then(|x| x.as_u64()) else {
            v.no_seq += 1;
            continue;
        };
        if !seen.insert(seq) {
            v.dup.push(seq);
        } else if let Some(p) = prev {
            if seq < p {
                v.out_of_order.push((p, seq));
            }
        }
        prev = Some(prev.map(|p| p.max(seq)).unwrap_or(seq));
        match log.get(seq as usize) {
            Some(l) => {
                if !truth::json_eq_lenient(f, l) {
                    v.differs.push(seq);
                }
            }
            None => v.not_in_log.push(seq),
        }
    }
    v.max_seq = seen.iter().next_back().copied();
    if let Some(m) = v.max_seq {
        for s in 0..m {
            if !seen.contains(&s) {
                v.lost.push(s);
            }
        }
        v.tail_missing = (log.len() as u64).saturating_sub(m + 1);
    } else {
        v.tail_missing = log.len() as u64;
    }
    v
}

/// Frames of one stream from the log, in seq order; None when the log itself is not 0,1,2,… for
/// that stream (then C06 cannot be judged against it — that is C01's business).
pub fn log_stream(frames: &[truth::Frame], kind: Kind, id: &str) -> Option<Vec<Value>> {
    let fs = truth::stream(frames, kind.log_kind(), id);
    for (i, f) in fs.iter().enumerate() {
        if f.seq() != i as u64 {
            return None;
        }
    }
    Some(fs.into_iter().map(|f| f.v.clone()).collect())
}

fn short(v: &[u64]) -> Vec<u64> {
    v.iter().take(12).copied().collect()
}

/// Violations that do not depend on the phase (everything except loss). Returns true if any.
fn report_common(r: &mut Report, kind: Kind, tag: &str, sub: &SubOut, v: &Verdict, witness: &Value) -> bool {
    let mut any = false;
    let k = kind.name();
    if !sub.malformed.is_empty() {
        r.violation(
            &format!("C06/malformed_sse_payload/{k}/{tag}"),
            &format!("{k} stream delivered a data payload that is not a JSON object: {:?}", sub.malformed),
            witness.clone(),
        );
        any = true;
    }
    if !v.dup.is_empty() {
        r.violation(
            &format!("C06/duplicate_frame/{k}/{tag}"),
            &format!("{k} stream delivered seq {:?} more than once to one subscriber", short(&v.dup)),
            witness.clone(),
        );
        any = true;
    }
    if !v.out_of_order.is_empty() {
        r.violation(
            &format!("C06/out_of_order/{k}/{tag}"),
            &format!("{k} stream delivered frames out of seq order: {:?}", &v.out_of_order[..v.out_of_order.len().min(6)]),
            witness.clone(),
        );
        any = true;
    }
    if !v.differs.is_empty() {
        r.violation(
            &format!("C06/frame_differs_from_log/{k}/{tag}"),
            &format!("{k} stream delivered frames that are not JSON-equal to the log's frame (seq {:?})", short(&v.differs)),
            witness.clone(),
        );
        any = true;
    }
    if v.foreign > 0 || v.no_seq > 0 {
        r.violation(
            &format!("C06/foreign_frame/{k}/{tag}"),
            &format!("{k} stream delivered {} frames of another stream and {} frames without seq", v.foreign, v.no_seq),
            witness.clone(),
        );
        any = true;
    }
    // The server closed the stream although the quiescent log holds frames this subscriber never got, and the
    // subscriber cannot have lagged (fewer frames exist than the channel holds): those frames are lost to it.
    if sub.stream_ended && sub.status == 200 && !sub.reached_final {
        let delivered_max = sub.frames.iter().filter_map(|f| f.get("seq").and_then(|x| x.as_u64())).max();
        if v.log_len > 0 && (v.log_len as u64) < 16_000 && delivered_max.map(|m| m + 1 < v.log_len as u64).unwrap_or(true) {
            r.violation(
                &format!("C06/stream_closed_before_last_frame/{k}/{tag}"),
                &format!(
                    "{k} stream was closed by the server after seq {:?} although the stream has {} frames and the subscriber cannot have lagged",
                    delivered_max, v.log_len
                ),
                witness.clone(),
            );
            any = true;
        }
    }
    if !v.not_in_log.is_empty() {
        r.violation(
            &format!("C06/frame_not_in_log/{k}/{tag}"),
            &format!("{k} stream delivered seq {:?} which the quiescent log does not hold", short(&v.not_in_log)),
            witness.clone(),
        );
        any = true;
    }
    any
}

// ---------------------------------------------------------------------------------------------
// producers

#[derive(Clone, Debug)]
pub struct Variant {
    pub kind: Kind,
    pub name: String,
    /// session: the input string; task: the bash command; thread: unused
    pub text: String,
    /// thread: number of appends
    pub appends: usize,
}

fn bash_lines_session(m: usize) -> Variant {
    let cmd = format!("for i in $(seq 1 {m}); do echo line$i; done");
    Variant {
        kind: Kind::Session,
        name: format!("bash{m}"),
        text: json!({"tool":"bash","args":{"command":cmd}}).to_string(),
        appends: 0,
    }
}

fn write_session() -> Variant {
    Variant {
        kind: Kind::Session,
        name: "write".into(),
        text: json!({"tool":"write","args":{"path":"c06.txt","content":"hello"}}).to_string(),
        appends: 0,
    }
}

fn task_lines(m: usize, sleep: &str) -> Variant {
    Variant {
        kind: Kind::Task,
        name: format!("task{m}"),
        text: format!("for i in $(seq 1 {m}); do echo out$i; sleep {sleep}; done"),
        appends: 0,
    }
}

fn thread_appends(m: usize) -> Variant {
    Variant {
        kind: Kind::Thread,
        name: format!("appends{m}"),
        text: String::new(),
        appends: m,
    }
}

/// One store + engine + router.
struct World {
    store: Store,
    app: App,
}

impl World {
    fn new() -> Result<World, String> {
        let store = Store::new("c06");
        let app = App::open(&store, None)?;
        Ok(World { store, app })
    }
    fn log_frames(&self) -> Option<Vec<truth::Frame>> {
        truth::parse_log(&self.store.log_bytes_settled()).ok()
    }
    /// Frames of one stream (only lines mentioning the id are parsed; worlds are reused).
    fn stream_log(&self, kind: Kind, id: &str) -> Option<Vec<Value>> {
        stream_from_bytes(&self.store.log_bytes_settled(), kind, id)
    }
}

pub fn stream_from_bytes(bytes: &[u8], kind: Kind, id: &str) -> Option<Vec<Value>> {
    let text = std::str::from_utf8(bytes).ok()?;
    if !text.is_empty() && !text.ends_with('\n') {
        return None;
    }
    let mut out = Vec::new();
    for line in text.lines() {
        if !line.contains(id) {
            continue;
        }
        let v: Value = serde_json::from_str(line).ok()?;
        if v.get("stream_kind").and_then(|x| x.as_str()) == Some(kind.log_kind())
            && v.get("stream_id").and_then(|x| x.as_str()) == Some(id)
        {
            if v.get("seq").and_then(|x| x.as_u64()) != Some(out.len() as u64) {
                return None;
            }
            out.push(v);
        }
    }
    Some(out)
}

/// A producer that has been prepared (ids allocated where the API allows) but not started.
struct Producer {
    kind: Kind,
    variant: Variant,
    /// known before start for sessions and threads, after start for tasks
    id: Option<String>,
    blocking: Option<tokio::task::JoinHandle<()>>,
}

impl Producer {
    async fn prepare(w: &World, variant: &Variant) -> Result<Producer, String> {
        let id = match variant.kind {
            Kind::Session => {
                let (st, v) = w.app.json("POST", "/sessions", None).await;
                if st != 201 {
                    return Err(format!("POST /sessions -> {st}"));
                }
                Some(v["session_id"].as_str().unwrap_or("").to_string())
            }
            Kind::Task => None,
            Kind::Thread => Some(w.app.store().ensure_default().map_err(|e| format!("ensure_default: {e}"))?),
        };
        Ok(Producer {
            kind: variant.kind,
            variant: variant.clone(),
            id,
            blocking: None,
        })
    }

    async fn start(&mut self, w: &World) -> Result<String, String> {
        match self.kind {
            Kind::Session => {
                let id = self.id.clone().unwrap();
                let (st, _) = w
                    .app
                    .json("POST", &format!("/sessions/{id}/input"), Some(&json!({"input": self.variant.text})))
                    .await;
                if st != 202 {
                    return Err(format!("POST input -> {st}"));
                }
                Ok(id)
            }
            Kind::Task => {
                let (st, v) = w
                    .app
                    .json("POST", "/tasks", Some(&json!({"tool":"bash","args":{"command": self.variant.text}})))
                    .await;
                if st != 201 {
                    return Err(format!("POST /tasks -> {st}"));
                }
                let id = v["task_id"].as_str().unwrap_or("").to_string();
                self.id = Some(id.clone());
                Ok(id)
            }
            Kind::Thread => {
                let id = self.id.clone().unwrap();
                let st = w.app.store();
                let n = self.variant.appends;
                let tid = id.clone();
                self.blocking = Some(tokio::task::spawn_blocking(move || {
                    for i in 0..n {
                        let _ = st.append_message(&tid, "rv".into(), "c06".into(), format!("m{i}"));
                    }
                }));
                Ok(id)
            }
        }
    }

    /// Wait until the producer emitted everything it will ever emit.
    async fn quiescent(&mut self, w: &World, timeout: Duration) -> bool {
        match self.kind {
            Kind::Session | Kind::Task => {
                let Some(id) = self.id.clone() else {
                    return false;
                };
                let dir = if self.kind == Kind::Session { "snapshots" } else { "task_snapshots" };
                let p = w.store.data.join(dir).join(format!("{id}.json"));
                wait_for(timeout, || if p.exists() { Some(()) } else { None }).await.is_some()
            }
            Kind::Thread => match self.blocking.take() {
                Some(h) => tokio::time::timeout(timeout, h).await.is_ok(),
                None => true,
            },
        }
    }
}

// ---------------------------------------------------------------------------------------------
// calibration: frame count of a variant, order of the emitter's two hooks, which hooks are hit
// while the lock that the snapshot needs is held

#[derive(Clone, Debug)]
pub struct Calib {
    /// number of frames the producer emits (for threads: number of appends)
    pub n: u64,
    /// hooks of one emission in the order they are hit, with "snapshot is blocked while a thread is
    /// parked here"
    pub hooks: Vec<(&'static str, bool)>,
}

fn emit_hooks(kind: Kind) -> [&'static str; 2] {
    match kind {
        Kind::Session => ["session.emit.after_send", "session.emit.after_record"],
        Kind::Task => ["task.emit.after_send", "task.emit.after_record"],
        Kind::Thread => ["", ""],
    }
}

async fn wait_fired(s: &Sched, at: &str, nth: u64, timeout: Duration) -> bool {
    wait_for(timeout, || {
        if s.rules().iter().any(|r| r.at == at && r.nth == nth && r.fired) {
            Some(())
        } else {
            None
        }
    })
    .await
    .is_some()
}

async fn calibrate(s: &Arc<Sched>, variant: &Variant) -> Result<Calib, String> {
    if variant.kind == Kind::Thread {
        return Ok(Calib {
            n: variant.appends as u64,
            hooks: vec![
                ("log.append.enter", false),
                ("log.append.after_flush", false),
                ("cont.cache.exit", false),
            ],
        });
    }
    let names = emit_hooks(variant.kind);
    // 1. plain run: frame count and hook order
    s.reset();
    s.record(true, &["session.emit.*", "task.emit.*"]);
    let w = World::new()?;
    let mut p = Producer::prepare(&w, variant).await?;
    let id = p.start(&w).await?;
    if !p.quiescent(&w, Duration::from_secs(10)).await {
        return Err(format!("calibration producer {} did not finish", variant.name));
    }
    let ev = s.take_events();
    let mine: Vec<&Ev> = ev.iter().filter(|e| e.ctx.starts_with(&id)).collect();
    let n = mine.iter().filter(|e| e.point == names[0]).count() as u64;
    let first = mine.iter().find(|e| e.ctx == format!("{id} 0")).map(|e| e.point);
    let order: [&'static str; 2] = match first {
        Some(p) if p == names[1] => [names[1], names[0]],
        Some(_) => [names[0], names[1]],
        None => return Err("calibration saw no emit hook".into()),
    };
    let logn = w
        .log_frames()
        .and_then(|f| log_stream(&f, variant.kind, &id))
        .map(|l| l.len() as u64)
        .unwrap_or(0);
    if logn != n || n < 3 {
        return Err(format!("calibration: {n} emit hooks but {logn} log frames"));
    }
    drop(w);
    // 2. probe: is the snapshot blocked while the producer is parked at hook h?
    let mut hooks = Vec::new();
    for h in order {
        s.reset();
        let w = World::new()?;
        let mut p = Producer::prepare(&w, variant).await?;
        let mut rule = ParkRule::new(h, "", 2, QN, "", 1);
        rule.timeout_ms = 250;
        s.add_rule(rule);
        let id = p.start(&w).await?;
        if !wait_fired(s, h, 2, Duration::from_secs(5)).await {
            s.release_all();
            return Err(format!("probe: hook {h} never reached"));
        }
        let ctl = SubCtl::new(50);
        let sub = tokio::spawn(subscribe_and_read(w.app.clone(), variant.kind, id.clone(), ctl.clone()));
        let _ = p.quiescent(&w, Duration::from_secs(10)).await;
        ctl.finish(None);
        let _ = sub.await;
        let held = s.rules().iter().any(|r| r.at == h && r.timed_out);
        s.release_all();
        hooks.push((h, held));
    }
    s.reset();
    Ok(Calib { n, hooks })
}

// ---------------------------------------------------------------------------------------------
// driven joins

#[derive(Clone, Debug)]
pub struct Driven {
    pub variant: usize,
    /// index of the frame among the producer's own emissions (0-based)
    pub k: u64,
    /// position of the subscribe step / of the snapshot step (see `positions`)
    pub sub: u8,
    pub snap: u8,
    /// the subscriber is held AFTER its snapshot (at `server.stream.snapshotted`) until the producer has
    /// finished: frames k.. exist only in the subscriber's live receiver when the handler continues
    pub late_resume: bool,
}

#[derive(Clone, Debug, PartialEq)]
enum Anchor {
    /// park the producer at the nth hit of `at`; `held` = the snapshot cannot run while parked here
    Hook { at: &'static str, nth: u64, held: bool },
    BeforeStart,
    AfterEnd,
    Impossible,
}

/// Position p of frame k →  where the producer stands while the subscriber's step happens.
///  session/task (two hooks h0,h1 per emission):  0 = before step 1 of frame k (= after h1 of k-1),
///    1 = between the two steps (at h0 of k), 2 = after step 2 (at h1 of k; for the last frame and
///    sub==snap: after the end of the stream).
///  thread (enter, after_flush, cache.exit, then send): 0 = before the log append of frame k,
///    1 = log written / sidecar not, 2 = sidecar written / not yet published, 3 = published.
fn anchor(kind: Kind, c: &Calib, k: u64, pos: u8, both_here: bool) -> Anchor {
    let last = k + 1 == c.n;
    match kind {
        Kind::Session | Kind::Task => match pos {
            0 => {
                if k == 0 {
                    if kind == Kind::Session {
                        Anchor::BeforeStart
                    } else {
                        Anchor::Impossible // a task id is only known once the task runs
                    }
                } else {
                    Anchor::Hook { at: c.hooks[1].0, nth: k, held: c.hooks[1].1 }
                }
            }
            1 => Anchor::Hook { at: c.hooks[0].0, nth: k + 1, held: c.hooks[0].1 },
            _ => {
                if both_here {
                    if last {
                        Anchor::AfterEnd
                    } else {
                        Anchor::Impossible // identical to (0,0) of frame k+1
                    }
                } else {
                    Anchor::Hook { at: c.hooks[1].0, nth: k + 1, held: c.hooks[1].1 }
                }
            }
        },
        Kind::Thread => match pos {
            0..=2 => Anchor::Hook { at: c.hooks[pos as usize].0, nth: k + 1, held: false },
            _ => {
                if last {
                    Anchor::AfterEnd
                } else if both_here {
                    Anchor::Impossible // identical to (0,0) of frame k+1
                } else {
                    Anchor::Hook { at: c.hooks[0].0, nth: k + 2, held: false }
                }
            }
        },
    }
}

fn positions(kind: Kind) -> u8 {
    match kind {
        Kind::Thread => 4,
        _ => 3,
    }
}

struct Plan {
    producer_rules: Vec<ParkRule>,
    /// (at, nth) of the producer rule whose firing is the moment to launch the subscriber
    launch_on: Option<(&'static str, u64)>,
    sub_rule: Option<ParkRule>,
    before_start: bool,
    after_end: bool,
    fire_done_point: bool,
}

fn plan(kind: Kind, c: &Calib, d: &Driven, pctx: &str, qctx: &str) -> Option<Plan> {
    let same = d.sub == d.snap;
    let a_sub = anchor(kind, c, d.k, d.sub, same);
    let a_snap = anchor(kind, c, d.k, d.snap, same);
    if a_sub == Anchor::Impossible || a_snap == Anchor::Impossible {
        return None;
    }
    let mut p = Plan {
        producer_rules: Vec::new(),
        launch_on: None,
        sub_rule: None,
        before_start: false,
        after_end: false,
        fire_done_point: false,
    };
    let to = 1500;
    match &a_sub {
        Anchor::BeforeStart => p.before_start = true,
        Anchor::AfterEnd => p.after_end = true,
        Anchor::Hook { at, nth, held } => {
            let until = if same && !*held { QN } else { QS };
            let mut r = ParkRule::new(at, pctx, *nth, until, qctx, 1);
            r.timeout_ms = to;
            p.producer_rules.push(r);
            p.launch_on = Some((at, *nth));
        }
        Anchor::Impossible => unreachable!(),
    }
    if !same {
        match &a_snap {
            Anchor::Hook { at, nth, held } => {
                let mut sr = ParkRule::new(QS, qctx, 1, at, pctx, 1);
                sr.timeout_ms = to;
                p.sub_rule = Some(sr);
                if !*held {
                    let mut r = ParkRule::new(at, pctx, *nth, QN, qctx, 1);
                    r.timeout_ms = to;
                    p.producer_rules.push(r);
                }
            }
            Anchor::AfterEnd => {
                let mut sr = ParkRule::new(QS, qctx, 1, DONE_POINT, pctx, 1);
                sr.timeout_ms = 4000;
                p.sub_rule = Some(sr);
                p.fire_done_point = true;
            }
            _ => return None,
        }
    }
    if d.late_resume {
        let mut sr = ParkRule::new(QN, qctx, 1, DONE_POINT, pctx, 1);
        sr.timeout_ms = 12_000;
        p.sub_rule = Some(sr);
        p.fire_done_point = true;
    }
    // sched stops scanning its rule list at the first rule that parks: a later hit of the same
    // point must be listed first or it would miss one hit.
    p.producer_rules.sort_by(|a, b| b.nth.cmp(&a.nth));
    Some(p)
}

pub struct DrivenOut {
    pub realised: bool,
    pub why_not: String,
    pub id: String,
    pub sub: Option<SubOut>,
    pub log: Option<Vec<Value>>,
    pub events: Vec<Ev>,
}

async fn run_driven(s: &Arc<Sched>, w: &World, variant: &Variant, c: &Calib, d: &Driven, grace_ms: u64) -> Result<DrivenOut, String> {
    let kind = variant.kind;
    s.reset();
    s.record(true, &["session.emit.*", "task.emit.*", "server.stream.*", "cont.cache.exit", "log.append.after_flush", "rv.c06.*"]);
    let mut p = Producer::prepare(&w, variant).await?;
    // tasks: the id is unknown until the task runs; it is the only task of this engine
    let pctx = p.id.clone().unwrap_or_default();
    let Some(pl) = plan(kind, c, d, &pctx, &pctx) else {
        return Err("impossible placement".into());
    };
    for r in &pl.producer_rules {
        s.add_rule(r.clone());
    }
    let ctl = SubCtl::new(grace_ms);
    let mut out = DrivenOut {
        realised: true,
        why_not: String::new(),
        id: String::new(),
        sub: None,
        log: None,
        events: Vec::new(),
    };
    let mut sub_task = None;
    if pl.before_start {
        let id = p.id.clone().ok_or("no id before start")?;
        if let Some(sr) = &pl.sub_rule {
            s.add_rule(sr.clone());
        }
        sub_task = Some(tokio::spawn(subscribe_and_read(w.app.clone(), kind, id, ctl.clone())));
        let ok = if pl.sub_rule.is_some() {
            wait_fired(s, QS, 1, Duration::from_secs(3)).await
        } else {
            let c2 = ctl.clone();
            wait_for(Duration::from_secs(3), || if c2.joined.load(Ordering::SeqCst) { Some(()) } else { None })
                .await
                .is_some()
        };
        if !ok {
            out.realised = false;
            out.why_not = "subscriber did not reach its first step before the producer start".into();
        }
    }
    let id = p.start(&w).await?;
    out.id = id.clone();
    if pl.after_end {
        if !p.quiescent(&w, Duration::from_secs(10)).await {
            out.realised = false;
            out.why_not = "producer did not finish".into();
        }
        sub_task = Some(tokio::spawn(subscribe_and_read(w.app.clone(), kind, id.clone(), ctl.clone())));
    } else if let Some((at, nth)) = pl.launch_on {
        if wait_fired(s, at, nth, Duration::from_secs(4)).await {
            if let Some(mut sr) = pl.sub_rule.clone() {
                sr.at_ctx = id.clone();
                s.add_rule(sr);
            }
            sub_task = Some(tokio::spawn(subscribe_and_read(w.app.clone(), kind, id.clone(), ctl.clone())));
        } else {
            out.realised = false;
            out.why_not = format!("producer never reached hit {nth} of {at}");
        }
    }
    let quiet = p.quiescent(&w, Duration::from_secs(10)).await;
    if !quiet && out.realised {
        out.realised = false;
        out.why_not = "producer did not become quiescent within the watchdog".into();
    }
    if pl.fire_done_point {
        rip_kernel::verif::point(DONE_POINT, &id);
    }
    // trailing appends of the same stream are over: read the log, publish the last seq
    let log = w.stream_log(kind, &id);
    ctl.finish(log.as_ref().and_then(|l| (l.len() as u64).checked_sub(1)));
    if let Some(t) = sub_task {
        match tokio::time::timeout(Duration::from_secs(20), t).await {
            Ok(Ok(so)) => out.sub = Some(so),
            _ => {
                out.realised = false;
                out.why_not = "subscriber task did not return".into();
            }
        }
    }
    let rules = s.rules();
    s.release_all();
    for r in &rules {
        if r.timed_out {
            out.realised = false;
            out.why_not = format!("rendezvous timed out at {} (waiting for {})", r.at, r.until);
        } else if !r.fired && out.realised {
            out.realised = false;
            out.why_not = format!("rule at {} nth {} never fired", r.at, r.nth);
        }
    }
    out.log = log;
    out.events = s.take_events();
    s.reset();
    Ok(out)
}

// ---------------------------------------------------------------------------------------------
// entry point

fn variants(cfg: &Cfg) -> Vec<Variant> {
    let mut v = vec![bash_lines_session(4), write_session(), task_lines(3, "0.01"), thread_appends(6), bash_lines_session(12)];
    if cfg.tier.pick(false, true) {
        v.push(bash_lines_session(34));
        v.push(task_lines(8, "0.008"));
        v.push(thread_appends(20));
    }
    v
}

fn enumerate(vars: &[Variant], calibs: &[Option<Calib>]) -> Vec<Driven> {
    let mut out = Vec::new();
    for (vi, v) in vars.iter().enumerate() {
        let Some(c) = &calibs[vi] else { continue };
        let p = positions(v.kind);
        for k in 0..c.n {
            for sub in 0..p {
                for snap in sub..p {
                    let same = sub == snap;
                    if anchor(v.kind, c, k, sub, same) == Anchor::Impossible
                        || anchor(v.kind, c, k, snap, same) == Anchor::Impossible
                    {
                        continue;
                    }
                    out.push(Driven { variant: vi, k, sub, snap, late_resume: false });
                }
            }
        }
        // snapshot before frame k, handler resumes only after the stream has ended
        let mut ks = vec![1u64, c.n / 2, c.n.saturating_sub(1)];
        ks.dedup();
        for k in ks {
            if k >= c.n || anchor(v.kind, c, k, 0, true) == Anchor::Impossible || matches!(anchor(v.kind, c, k, 0, true), Anchor::BeforeStart | Anchor::AfterEnd) {
                continue;
            }
            out.push(Driven { variant: vi, k, sub: 0, snap: 0, late_resume: true });
        }
    }
    out
}

struct Ctx<'a> {
    cfg: &'a Cfg,
    s: Arc<Sched>,
    rt: tokio::runtime::Runtime,
    tail_notes: BTreeSet<String>,
    /// reused engine (opening one costs ~100 ms) and the number of cases it served
    world: Option<(World, u32)>,
}

impl Ctx<'_> {
    fn world(&mut self) -> Result<(), String> {
        let fresh = match &self.world {
            Some((_, n)) => *n >= 40,
            None => true,
        };
        if fresh {
            self.world = None;
            let _g = self.rt.enter();
            self.world = Some((World::new()?, 0));
        }
        if let Some((_, n)) = self.world.as_mut() {
            *n += 1;
        }
        Ok(())
    }
}

pub fn run(cfg: &Cfg) -> i32 {
    let mut r = Report::new(
        "C06",
        "fault_enumeration",
        "A: driven joins — for every frame k of each producer variant (session tool envelopes, pipes task, thread \
         appends) and every placement (sub,snap) of the subscriber's subscribe/snapshot steps relative to the \
         producer's steps of frame k (session/task: 0 before publish, 1 between the emitter's two steps, 2 after \
         both; thread: 0 before log append, 1 log written, 2 sidecar written, 3 published), forced with sched \
         ParkRules; distinct = realised (kind, variant, k, sub, snap). B: stress — 1–32 subscribers attaching at \
         random instants to concurrently producing sessions/tasks/threads with seeded noise at the emit/stream \
         hooks; distinct = interleaving signature of cases with a mid-stream join. C: burst — producer emits more \
         than the 16 384-slot channel holds while the subscriber does not read. D: joins after the thread's sidecar was lost (deleted / torn / one line short): the first reader rebuilds it, stretched by a per-line delay, while an appender writes to the thread; the rebuilding reader and a subscriber attaching afterwards are judged. Oracle per subscriber: seqs \
         strictly increasing, no repeat, every frame JSON-equal to the log's, no seq missing below the highest \
         delivered one; frames of the tail not delivered within the grace window are inconclusive, not violations.",
    );
    r.assume("hook points do not change behaviour beyond timing");
    r.assume("positions whose hook is hit while the history lock is held let the snapshot run only after the lock is released (labelled held in evidence)");
    r.assume("in-process router (tower oneshot): no socket buffering between the handler's stream and the reader");
    r.max_samples = 6;
    let mut cx = Ctx {
        cfg,
        s: sched(),
        rt: runtime(12),
        tail_notes: BTreeSet::new(),
        world: None,
    };
    let _hb = Heartbeat::start(cx.rt.handle().clone());

    if let Some(path) = &cfg.replay {
        replay(&mut cx, &mut r, path);
        cx.s.reset();
        return r.finish(cfg);
    }

    // calibration (every shard does its own; cheap)
    let vars = variants(cfg);
    let mut calibs: Vec<Option<Calib>> = Vec::new();
    let mut calib_note = Vec::new();
    for v in &vars {
        let c = cx.rt.block_on(calibrate(&cx.s, v));
        match c {
            Ok(c) => {
                calib_note.push(json!({"variant": v.name, "kind": v.kind.name(), "frames": c.n,
                    "hooks": c.hooks.iter().map(|(h, held)| json!({"hook": h, "snapshot_blocked_while_parked": held})).collect::<Vec<_>>()}));
                calibs.push(Some(c));
            }
            Err(e) => {
                r.inconclusive(&format!("calibration of {} failed: {e}", v.name));
                calibs.push(None);
            }
        }
    }
    r.note("calibration", json!(calib_note));
    if calibs.iter().all(|c| c.is_none()) {
        r.fatal_inconclusive("no producer variant could be calibrated");
        return r.finish(cfg);
    }

    // A. driven joins
    let cases = enumerate(&vars, &calibs);
    r.note("driven_cases_enumerated", json!(cases.len()));
    let only_burst = cfg.has_flag("--only-burst");
    let driven_budget = if only_burst { -1.0 } else { cfg.budget_s * 0.62 };
    let mut done_all = true;
    for (i, d) in cases.iter().enumerate() {
        if !cfg.mine(i as u64) {
            continue;
        }
        if r.elapsed() > driven_budget {
            done_all = false;
            r.note("driven_enumeration_cut_at_case", json!(i));
            break;
        }
        driven_case(&mut cx, &mut r, &vars[d.variant], calibs[d.variant].as_ref().unwrap(), d);
    }
    r.note("driven_enumeration_complete_in_this_shard", json!(done_all));

    // C. burst (before stress so that it always runs)
    let base = cases.len() as u64;
    let bursts: Vec<Kind> = cfg.tier.pick(vec![Kind::Thread], vec![Kind::Thread, Kind::Session, Kind::Task]);
    for (j, k) in bursts.iter().enumerate() {
        if cfg.mine(base + j as u64) {
            burst_case(&mut cx, &mut r, *k);
        }
    }

    // D. joins after a lost thread sidecar (rebuild racing with appends)
    let rr = cfg.tier.pick(24u64, 400u64);
    for j in 0..rr {
        let i = base + 1000 + j;
        if only_burst || !cfg.mine(i) || r.elapsed() > cfg.budget_s * 0.78 {
            continue;
        }
        let mut rng = cfg.case_rng(i);
        rebuild_race_case(&mut cx, &mut r, i, &mut rng);
    }

    // B. stress until the budget is used
    let mut idx = base + 16;
    let stress_cap = cfg.tier.pick(400u64, 1_000_000u64);
    let mut n = 0;
    while !only_burst && n < stress_cap && r.elapsed() < cfg.budget_s * 0.9 {
        let i = idx;
        idx += 1;
        if !cfg.mine(i) {
            continue;
        }
        n += 1;
        let mut rng = cfg.case_rng(i);
        stress_case(&mut cx, &mut r, i, &mut rng);
    }
    cx.s.reset();
    cx.world = None;
    let Ctx { rt, .. } = cx;
    drop(rt);
    r.finish(cfg)
}

fn driven_tag(d: &Driven) -> String {
    format!("driven_sub{}_snap{}{}", d.sub, d.snap, if d.late_resume { "_late_resume" } else { "" })
}

fn driven_case(cx: &mut Ctx, r: &mut Report, v: &Variant, c: &Calib, d: &Driven) {
    let grace = cx.cfg.tier.pick(250, 400);
    let t0 = Instant::now();
    if let Err(e) = cx.world() {
        r.inconclusive(&format!("cannot open an engine: {e}"));
        return;
    }
    let res = cx.rt.block_on(run_driven(&cx.s, &cx.world.as_ref().unwrap().0, v, c, d, grace));
    if !matches!(&res, Ok(o) if o.realised) {
        cx.world = None; // leftovers of an unrealised schedule must not leak into the next case
    }
    if std::env::var("RV_C06_TIMING").is_ok() {
        eprintln!("driven {}/{} k={} ({},{}) {:?}", v.kind.name(), v.name, d.k, d.sub, d.snap, t0.elapsed());
    }
    let kind = v.kind;
    let k = kind.name();
    let out = match res {
        Ok(o) => o,
        Err(e) => {
            r.inconclusive(&format!("driven {k}/{} k={} ({},{}): {e}", v.name, d.k, d.sub, d.snap));
            return;
        }
    };
    r.eval();
    r.count(&format!("driven_{k}_cases"), 1);
    if !out.realised {
        r.count("driven_not_realised", 1);
        r.inconclusive(&format!(
            "driven {k}/{} k={} ({},{}): schedule not realised: {}",
            v.name, d.k, d.sub, d.snap, out.why_not
        ));
        return;
    }
    let (Some(sub), Some(log)) = (&out.sub, &out.log) else {
        r.inconclusive(&format!("driven {k}/{} k={}: no subscriber output or log stream not 0,1,2,…", v.name, d.k));
        return;
    };
    if sub.status != 200 {
        r.inconclusive(&format!("driven {k}/{} k={} ({},{}): GET returned {}", v.name, d.k, d.sub, d.snap, sub.status));
        return;
    }
    r.count("driven_realised", 1);
    r.count(&format!("driven_realised_p{}{}{}", d.sub, d.snap, if d.late_resume { "_late_resume" } else { "" }), 1);
    r.distinct_str(&format!("driven/{k}/{}/k{}/{}{}{}", v.name, d.k, d.sub, d.snap, d.late_resume));
    let ver = compare(&out.id, &sub.frames, log);
    r.count("frames_received", ver.received as u64);
    r.count("frames_compared_with_log", (ver.received - ver.not_in_log.len()) as u64);
    r.count("subscribers", 1);
    // frame index k of the producer → seq in the stream
    let seq_k = if kind == Kind::Thread { (log.len() as u64 + d.k).saturating_sub(c.n) } else { d.k };
    let near = [format!(" {}", seq_k), format!(" {}", seq_k.wrapping_sub(1)), format!(" {}", seq_k + 1)];
    let sched_trace: Vec<String> = out
        .events
        .iter()
        .filter(|e| e.point.starts_with("server.stream") || e.point.starts_with("rv.") || near.iter().any(|n| e.ctx.ends_with(n.as_str())))
        .take(40)
        .map(|e| format!("{}:{}@t{} seq={}", e.clock, e.point, e.thread, e.ctx.rsplit(' ').next().filter(|x| x.len() < 8).unwrap_or("-")))
        .collect();
    let witness = json!({
        "phase": "driven", "kind": k, "variant": v.name, "k": d.k, "sub": d.sub, "snap": d.snap, "late_resume": d.late_resume,
        "hooks": c.hooks.iter().map(|(h, held)| json!([h, held])).collect::<Vec<_>>(),
        "log_frames": log.len(), "received_seqs": sub.frames.iter().filter_map(|f| f.get("seq").and_then(|x| x.as_u64())).collect::<Vec<_>>(),
        "lost": short(&ver.lost), "schedule": sched_trace,
    });
    let tag = driven_tag(d);
    report_common(r, kind, &tag, sub, &ver, &witness);
    if !ver.lost.is_empty() {
        let between_send_and_record = kind != Kind::Thread
            && d.sub == 1
            && d.snap == 1
            && c.hooks[0].0.ends_with("after_send")
            && !c.hooks[0].1
            && ver.lost == vec![seq_k];
        if between_send_and_record {
            r.count(&format!("join_loss_{k}"), 1);
            r.violation(
                &format!("C06/join_loss/{k}/subscribe+snapshot_between_send_and_record"),
                &format!(
                    "{k} stream: a subscriber whose subscribe and snapshot both fall between the emitter's \
                     broadcast send and its push into the history buffer never receives that frame (later seqs are delivered)"
                ),
                witness.clone(),
            );
        } else {
            r.violation(
                &format!("C06/frame_lost/{k}/{tag}"),
                &format!("{k} stream: seq {:?} never delivered although a later seq was (frame k={}, placement sub={} snap={})", short(&ver.lost), d.k, d.sub, d.snap),
                witness.clone(),
            );
        }
    } else if ver.tail_missing > 0 {
        r.count("tail_not_delivered_within_grace", 1);
        let key = format!("{k} ({},{}) last_frame={}", d.sub, d.snap, d.k + 1 == c.n);
        if cx.tail_notes.insert(key.clone()) {
            r.inconclusive(&format!(
                "driven {k}/{} k={} placement {key}: join completed, producer quiescent, {} frame(s) at the end of the \
                 stream not delivered within {grace} ms and no later frame exists to prove a gap",
                v.name, d.k, ver.tail_missing
            ));
        }
    } else if ver.clean() {
        r.count("subscribers_exactly_once_in_order", 1);
    }
    if r.samples.len() < 3 {
        r.sample(witness);
    }
}

fn replay(cx: &mut Ctx, r: &mut Report, path: &std::path::Path) {
    let doc: Value = std::fs::read(path).ok().and_then(|b| serde_json::from_slice(&b).ok()).unwrap_or(Value::Null);
    let w = &doc["witness"];
    match w["phase"].as_str().unwrap_or("") {
        "driven" => {
            let mut vars = variants(cx.cfg);
            // thorough variants may be named in a witness replayed at quick tier
            for extra in [bash_lines_session(12), bash_lines_session(34), task_lines(8, "0.008"), thread_appends(20)] {
                if !vars.iter().any(|v| v.name == extra.name) {
                    vars.push(extra);
                }
            }
            let name = w["variant"].as_str().unwrap_or("");
            let Some(v) = vars.iter().find(|v| v.name == name).cloned() else {
                r.fatal_inconclusive("replay: unknown variant");
                return;
            };
            match cx.rt.block_on(calibrate(&cx.s, &v)) {
                Ok(c) => {
                    let d = Driven {
                        variant: 0,
                        k: w["k"].as_u64().unwrap_or(0),
                        sub: w["sub"].as_u64().unwrap_or(0) as u8,
                        snap: w["snap"].as_u64().unwrap_or(0) as u8,
                        late_resume: w["late_resume"].as_bool().unwrap_or(false),
                    };
                    driven_case(cx, r, &v, &c, &d);
                }
                Err(e) => r.fatal_inconclusive(&format!("replay: calibration failed: {e}")),
            }
        }
        "stress" => {
            let i = w["index"].as_u64().unwrap_or(0);
            let seed = doc["seed"].as_u64().unwrap_or(cx.cfg.seed);
            let mut rng = Rng::derive(seed, i);
            r.note("replay_note", json!("noise-driven schedule: reproducible in probability only; re-running the same generated case"));
            for _ in 0..5 {
                let mut g = rng.clone();
                stress_case(cx, r, i, &mut g);
            }
            let _ = rng.next_u64();
        }
        "burst" => {
            let k = match w["kind"].as_str().unwrap_or("") {
                "session" => Kind::Session,
                "task" => Kind::Task,
                _ => Kind::Thread,
            };
            burst_case(cx, r, k);
        }
        "rebuild_race" => {
            let i = w["case"].as_u64().unwrap_or(0);
            r.note("replay_note", json!("the racing append is timed by a hook flag, not by a rendezvous: re-running the same generated case five times"));
            for _ in 0..5 {
                let mut g = Rng::derive(doc["seed"].as_u64().unwrap_or(cx.cfg.seed), i);
                rebuild_race_case(cx, r, i, &mut g);
            }
        }
        _ => r.fatal_inconclusive("replay: witness has no phase"),
    }
}

// ---------------------------------------------------------------------------------------------
// C. burst: more frames than the channel holds while the subscriber does not read

fn burst_case(cx: &mut Ctx, r: &mut Report, kind: Kind) {
    let k = kind.name();
    let s = cx.s.clone();
    s.reset();
    let res: Result<(String, SubOut, Option<Vec<Value>>, u64), String> = cx.rt.block_on(async {
        let w = World::new()?;
        let extra = 700u64;
        let variant = match kind {
            Kind::Thread => thread_appends((CHANNEL_CAPACITY + extra) as usize),
            Kind::Session => Variant {
                kind,
                name: "burst".into(),
                text: json!({"tool":"bash","args":{"command": format!("seq 1 {}", CHANNEL_CAPACITY + extra), "max_bytes": 16_000_000}}).to_string(),
                appends: 0,
            },
            Kind::Task => Variant {
                kind,
                name: "burst".into(),
                // one write(2) per line, then a short busy loop so that the reader drains each line on its own
                text: "i=0; while [ $i -lt 48000 ]; do echo $i; i=$((i+1)); for j in {1..150}; do :; done; done".to_string(),
                appends: 0,
            },
        };
        let mut p = Producer::prepare(&w, &variant).await?;
        let ctl = SubCtl::new(600);
        ctl.pause.store(true, Ordering::SeqCst);
        let mut joined_at_frames = 0u64;
        let sub;
        match kind {
            Kind::Task => {
                let id = p.start(&w).await?;
                sub = tokio::spawn(subscribe_and_read(w.app.clone(), kind, id, ctl.clone()));
            }
            _ => {
                let id = p.id.clone().unwrap();
                if kind == Kind::Thread {
                    let st = w.app.store();
                    for i in 0..3 {
                        let _ = st.append_message(&id, "rv".into(), "c06".into(), format!("pre{i}"));
                    }
                    joined_at_frames = 4;
                }
                sub = tokio::spawn(subscribe_and_read(w.app.clone(), kind, id, ctl.clone()));
                let c2 = ctl.clone();
                wait_for(Duration::from_secs(5), || if c2.joined.load(Ordering::SeqCst) { Some(()) } else { None }).await;
                p.start(&w).await?;
            }
        }
        let id = p.id.clone().unwrap_or_default();
        if !p.quiescent(&w, Duration::from_secs(120)).await {
            ctl.pause.store(false, Ordering::SeqCst);
            ctl.finish(None);
            let _ = sub.await;
            return Err("burst producer did not finish within the watchdog".to_string());
        }
        let log = w.log_frames().and_then(|f| log_stream(&f, kind, &id));
        ctl.finish(log.as_ref().and_then(|l| (l.len() as u64).checked_sub(1)));
        ctl.pause.store(false, Ordering::SeqCst);
        let so = tokio::time::timeout(Duration::from_secs(120), sub)
            .await
            .map_err(|_| "burst subscriber did not return".to_string())?
            .map_err(|e| format!("join: {e}"))?;
        Ok((id, so, log, joined_at_frames))
    });
    s.reset();
    let (id, sub, log, joined_at) = match res {
        Ok(x) => x,
        Err(e) => {
            r.inconclusive(&format!("burst {k}: {e}"));
            return;
        }
    };
    let Some(log) = log else {
        r.inconclusive(&format!("burst {k}: log stream unreadable"));
        return;
    };
    r.eval();
    r.count(&format!("burst_{k}_cases"), 1);
    r.count(&format!("burst_{k}_frames_emitted"), log.len() as u64);
    let ver = compare(&id, &sub.frames, &log);
    r.count("frames_received", ver.received as u64);
    r.count("frames_compared_with_log", (ver.received - ver.not_in_log.len()) as u64);
    r.count("subscribers", 1);
    let emitted_after_join = (log.len() as u64).saturating_sub(joined_at);
    let witness = json!({
        "phase": "burst", "kind": k, "frames_in_log": log.len(), "frames_received": ver.received,
        "emitted_while_subscriber_paused": emitted_after_join, "channel_capacity": CHANNEL_CAPACITY,
        "lost_count": ver.lost.len(), "first_lost": ver.lost.first(), "last_lost": ver.lost.last(),
        "tail_missing": ver.tail_missing,
    });
    report_common(r, kind, "burst", &sub, &ver, &witness);
    if emitted_after_join <= CHANNEL_CAPACITY {
        r.count(&format!("burst_{k}_below_channel_capacity"), 1);
        r.note(
            &format!("burst_{k}_note"),
            json!(format!("producer emitted only {} frames (<= channel capacity): lag path not reached", log.len())),
        );
    } else {
        r.distinct_str(&format!("burst/{k}"));
    }
    if !ver.lost.is_empty() {
        let contiguous = ver.lost.windows(2).all(|w| w[1] == w[0] + 1);
        if emitted_after_join > CHANNEL_CAPACITY && contiguous && ver.lost[0] >= joined_at.saturating_sub(1) {
            r.count(&format!("lag_loss_{k}_frames"), ver.lost.len() as u64);
            r.violation(
                &format!("C06/lag_loss/{k}/slow_subscriber_beyond_channel_capacity"),
                &format!(
                    "{k} stream: a subscriber that falls more than {CHANNEL_CAPACITY} frames behind silently loses the \
                     overwritten frames (handler maps the broadcast Lagged error to nothing) and then continues with later seqs"
                ),
                witness.clone(),
            );
        } else {
            r.violation(
                &format!("C06/frame_lost/{k}/burst"),
                &format!("{k} stream: {} seqs never delivered although later seqs were", ver.lost.len()),
                witness.clone(),
            );
        }
    } else if ver.tail_missing > 0 {
        r.inconclusive(&format!("burst {k}: {} frames at the end not delivered within the grace window", ver.tail_missing));
    } else if ver.clean() {
        r.count("subscribers_exactly_once_in_order", 1);
    }
    r.sample(witness);
}


// ---------------------------------------------------------------------------------------------
// D. joins after the thread's history source (the per-thread sidecar) was lost: the first reader makes the
// store rebuild it from the log while an appender writes to the same thread; a subscriber that attaches
// afterwards (and one that attached as the rebuilding reader) must still see every frame. The rebuild is
// stretched with a delay per rewritten line so that an append which is allowed to run next to it does.

fn rebuild_race_case(cx: &mut Ctx, r: &mut Report, idx: u64, rng: &mut Rng) {
    let s = cx.s.clone();
    s.reset();
    let n0 = 30 + rng.usize(cx.cfg.tier.pick(220, 900));
    let fault = rng.below(4);
    let fault_name = ["delete_thread_sidecars", "delete_cache_dir", "tear_full_sidecar", "drop_last_sidecar_line"][fault as usize];
    let reader_is_subscriber = rng.bool();
    let racing_appends = 1 + rng.usize(3);
    let line_delay_us = *rng.pick(&[40u64, 120, 400]);
    type Out = (String, Vec<(&'static str, SubOut)>, Option<Vec<Value>>, bool, u64);
    let res: Result<Out, String> = cx.rt.block_on(async {
        let w = World::new()?;
        let st = w.app.store();
        let id = st.ensure_default().map_err(|e| format!("ensure_default: {e}"))?;
        for i in 0..n0 {
            st.append_message(&id, "rv".into(), "c06".into(), format!("pre{i}")).map_err(|e| format!("append: {e}"))?;
        }
        // the fault: only cache files are touched
        let dir = w.store.streams_dir();
        let mine: Vec<std::path::PathBuf> = std::fs::read_dir(&dir)
            .map(|rd| rd.flatten().map(|e| e.path()).filter(|p| p.file_name().map(|n| n.to_string_lossy().starts_with(&id)).unwrap_or(false)).collect())
            .unwrap_or_default();
        let full = mine.iter().filter(|p| p.is_file()).max_by_key(|p| std::fs::metadata(p).map(|m| m.len()).unwrap_or(0)).cloned();
        match fault {
            0 => {
                for p in &mine {
                    let _ = std::fs::remove_file(p);
                }
            }
            1 => {
                let _ = std::fs::remove_dir_all(&dir);
            }
            2 => {
                if let Some(f) = &full {
                    if let Ok(b) = std::fs::read(f) {
                        let cut = b.len().saturating_sub(7);
                        let _ = std::fs::write(f, &b[..cut]);
                    }
                }
            }
            _ => {
                if let Some(f) = &full {
                    if let Ok(b) = std::fs::read(f) {
                        let body = &b[..b.len().saturating_sub(1)];
                        let cut = body.iter().rposition(|c| *c == b'\n').map(|p| p + 1).unwrap_or(0);
                        let _ = std::fs::write(f, &b[..cut]);
                    }
                }
            }
        }
        let in_rebuild = Arc::new(AtomicBool::new(false));
        let lines = Arc::new(AtomicU64::new(0));
        {
            let f = in_rebuild.clone();
            let l = lines.clone();
            let tid = id.clone();
            s.set_custom(Some(Arc::new(move |p: &str, c: &str| {
                if !p.starts_with("cache.rebuild.") || !c.contains(tid.as_str()) {
                    return;
                }
                if p == "cache.rebuild.created" {
                    f.store(true, Ordering::SeqCst);
                } else if p == "cache.rebuild.line" {
                    l.fetch_add(1, Ordering::Relaxed);
                    std::thread::sleep(Duration::from_micros(line_delay_us));
                }
            })));
        }
        let mut subs: Vec<(&'static str, tokio::task::JoinHandle<SubOut>, Arc<SubCtl>)> = Vec::new();
        // the reader that meets the lost cache
        let reader = if reader_is_subscriber {
            let ctl = SubCtl::new(500);
            subs.push(("rebuilding_reader", tokio::spawn(subscribe_and_read(w.app.clone(), Kind::Thread, id.clone(), ctl.clone())), ctl));
            None
        } else {
            let (st2, id2) = (st.clone(), id.clone());
            Some(tokio::task::spawn_blocking(move || st2.replay_events(&id2).map(|e| e.len()).map_err(|e| e.to_string())))
        };
        // the appender: starts as soon as the rebuild has read the log (or after 1.5 s if no rebuild is seen)
        let (st3, id3, f3) = (st.clone(), id.clone(), in_rebuild.clone());
        let appender = tokio::task::spawn_blocking(move || {
            let t0 = Instant::now();
            while !f3.load(Ordering::SeqCst) && t0.elapsed() < Duration::from_millis(1500) {
                std::thread::sleep(Duration::from_micros(50));
            }
            for j in 0..racing_appends {
                let _ = st3.append_message(&id3, "rv".into(), "c06".into(), format!("racing{j}"));
            }
        });
        if let Some(h) = reader {
            let _ = tokio::time::timeout(Duration::from_secs(60), h).await.map_err(|_| "rebuilding reader did not return".to_string())?;
        } else {
            let c = subs[0].2.clone();
            wait_for(Duration::from_secs(60), || if c.joined.load(Ordering::SeqCst) { Some(()) } else { None }).await;
        }
        tokio::time::timeout(Duration::from_secs(60), appender).await.map_err(|_| "appender did not return".to_string())?.map_err(|e| format!("join: {e}"))?;
        s.set_custom(None);
        let saw_rebuild = in_rebuild.load(Ordering::SeqCst);
        // the late subscriber: attaches after everything is quiet, before the next append
        let ctl = SubCtl::new(500);
        subs.push(("late_subscriber", tokio::spawn(subscribe_and_read(w.app.clone(), Kind::Thread, id.clone(), ctl.clone())), ctl.clone()));
        wait_for(Duration::from_secs(10), || if ctl.joined.load(Ordering::SeqCst) { Some(()) } else { None }).await;
        // one live frame after the join: a hole in the history then lies below a delivered seq
        st.append_message(&id, "rv".into(), "c06".into(), "after_join".into()).map_err(|e| format!("append: {e}"))?;
        let log = w.stream_log(Kind::Thread, &id);
        let last = log.as_ref().and_then(|l| (l.len() as u64).checked_sub(1));
        let mut outs = Vec::new();
        for (name, h, c) in subs {
            c.finish(last);
            let so = tokio::time::timeout(Duration::from_secs(60), h).await.map_err(|_| "subscriber did not return".to_string())?.map_err(|e| format!("join: {e}"))?;
            outs.push((name, so));
        }
        Ok((id, outs, log, saw_rebuild, lines.load(Ordering::Relaxed)))
    });
    s.reset();
    let (id, outs, log, saw_rebuild, lines) = match res {
        Ok(x) => x,
        Err(e) => {
            r.inconclusive(&format!("rebuild race {idx}: {e}"));
            return;
        }
    };
    let Some(log) = log else {
        r.inconclusive(&format!("rebuild race {idx}: log stream unreadable"));
        return;
    };
    r.eval();
    r.count("rebuild_race_cases", 1);
    r.count(&format!("rebuild_race_fault:{fault_name}"), 1);
    if saw_rebuild {
        r.count("rebuild_race_cases_with_a_sidecar_rebuild_observed", 1);
        r.count("rebuild_race_lines_rewritten_under_delay", lines);
        r.distinct_str(&format!("rebuild_race/{fault_name}/reader_sub={reader_is_subscriber}/appends={racing_appends}"));
    }
    for (name, sub) in &outs {
        let ver = compare(&id, &sub.frames, &log);
        r.count("frames_received", ver.received as u64);
        r.count("subscribers", 1);
        let tag = "cache_rebuild_race";
        let witness = json!({
            "phase": "rebuild_race", "case": idx, "fault": fault_name, "subscriber": name, "messages_before_fault": n0,
            "racing_appends": racing_appends, "reader_is_subscriber": reader_is_subscriber, "line_delay_us": line_delay_us,
            "sidecar_rebuild_observed": saw_rebuild, "frames_in_log": log.len(), "frames_received": ver.received,
            "lost": short(&ver.lost), "tail_missing": ver.tail_missing,
        });
        report_common(r, Kind::Thread, tag, sub, &ver, &witness);
        if !ver.lost.is_empty() {
            r.violation(
                &format!("C06/frame_lost/thread/{tag}"),
                &format!(
                    "thread stream after a lost sidecar ({fault_name}): {name} never received seq {:?} although later seqs were delivered",
                    short(&ver.lost)
                ),
                witness.clone(),
            );
        } else if ver.tail_missing > 0 {
            r.inconclusive(&format!("rebuild race {idx}: {} frames at the end not delivered to {name} within the grace window", ver.tail_missing));
        } else if ver.clean() {
            r.count("subscribers_exactly_once_in_order", 1);
        }
        if idx % 16 == 0 {
            r.sample(witness);
        }
    }
}

// ---------------------------------------------------------------------------------------------
// B. stress

struct Target {
    kind: Kind,
    id: Arc<std::sync::Mutex<Option<String>>>,
    ctl: Arc<SubCtl>,
}

fn stress_case(cx: &mut Ctx, r: &mut Report, idx: u64, rng: &mut Rng) {
    let s = cx.s.clone();
    s.reset();
    s.record(true, &["session.emit.*", "task.emit.*", "server.stream.*", "cont.cache.exit"]);
    let amp = |rng: &mut Rng| [0u64, 150, 600, 2000][rng.usize(4)];
    let noise = [
        ("session.emit.after_send", amp(rng)),
        ("session.emit.after_record", amp(rng) / 2),
        ("task.emit.after_send", amp(rng)),
        ("task.emit.after_record", amp(rng) / 2),
        ("server.stream.subscribed", amp(rng)),
        ("server.stream.snapshotted", amp(rng) / 2),
        ("log.append.after_flush", amp(rng) / 4),
        ("cont.cache.exit", amp(rng) / 2),
    ];
    s.set_noise(rng.next_u64(), &noise);
    let n_sess = rng.usize(4);
    let n_task = rng.usize(3);
    let mut n_thr = rng.usize(3);
    if n_sess + n_task + n_thr == 0 {
        n_thr = 1;
    }
    let n_posts = if n_thr > 0 { rng.usize(3) } else { 0 };
    let n_subs = match rng.below(4) {
        0 => 1,
        1 => 2 + rng.usize(3),
        2 => 5 + rng.usize(8),
        _ => 13 + rng.usize(20),
    };
    let grace = cx.cfg.tier.pick(300, 500);
    let seed = rng.next_u64();
    let shape = json!({"sessions": n_sess, "tasks": n_task, "threads": n_thr, "thread_posts": n_posts, "subscribers": n_subs,
        "noise_us": noise.iter().map(|(p, u)| json!([p, u])).collect::<Vec<_>>()});

    type SubRes = Vec<(Kind, String, SubOut)>;
    type Logs = BTreeMap<(Kind, String), Option<Vec<Value>>>;
    if let Err(e) = cx.world() {
        r.inconclusive(&format!("cannot open an engine: {e}"));
        return;
    }
    let w = &cx.world.as_ref().unwrap().0;
    let res: Result<(SubRes, Logs, bool), String> = cx.rt.block_on(async {
        let mut rng = Rng::new(seed);
        let app = w.app.clone();
        let mut targets: Vec<Target> = Vec::new();
        let mk = |kind: Kind, id: Option<String>| Target { kind, id: Arc::new(std::sync::Mutex::new(id)), ctl: SubCtl::new(grace) };
        // sessions (ids known before they start)
        let mut sess_ids = Vec::new();
        for _ in 0..n_sess {
            let (st, v) = app.json("POST", "/sessions", None).await;
            if st != 201 {
                return Err("POST /sessions failed".into());
            }
            let id = v["session_id"].as_str().unwrap_or("").to_string();
            targets.push(mk(Kind::Session, Some(id.clone())));
            sess_ids.push(id);
        }
        // threads
        let mut thr_ids = Vec::new();
        if n_thr > 0 {
            let st = app.store();
            let c0 = st.ensure_default().map_err(|e| e.to_string())?;
            thr_ids.push(c0.clone());
            if n_thr > 1 {
                if let Ok((child, _, _)) = st.branch(&c0, Some("b".into()), None, None, "rv".into(), "c06".into()) {
                    thr_ids.push(child);
                }
            }
            for t in &thr_ids {
                targets.push(mk(Kind::Thread, Some(t.clone())));
            }
        }
        // tasks start now (their id is the result of starting them)
        let mut task_ids = Vec::new();
        for j in 0..n_task {
            let lines = 5 + rng.usize(16);
            let ms = 1 + rng.usize(5);
            let cmd = format!("for i in $(seq 1 {lines}); do echo t{j}o$i; echo t{j}e$i 1>&2; sleep 0.00{ms}; done");
            let (st, v) = app.json("POST", "/tasks", Some(&json!({"tool":"bash","args":{"command":cmd}}))).await;
            if st != 201 {
                return Err("POST /tasks failed".into());
            }
            let id = v["task_id"].as_str().unwrap_or("").to_string();
            targets.push(mk(Kind::Task, Some(id.clone())));
            task_ids.push(id);
        }
        // run sessions of thread posts: id known once posted
        let post_slots: Vec<usize> = (0..n_posts)
            .map(|_| {
                targets.push(mk(Kind::Session, None));
                targets.len() - 1
            })
            .collect();
        let horizon_us = 60_000u64;
        // producers
        let mut joins: Vec<tokio::task::JoinHandle<()>> = Vec::new();
        for (i, id) in sess_ids.iter().enumerate() {
            let app = app.clone();
            let id = id.clone();
            let delay = rng.below(horizon_us / 2);
            let input = if rng.chance(1, 5) {
                json!({"tool":"write","args":{"path": format!("s{i}.txt"), "content": "x"}}).to_string()
            } else {
                let m = 1 + rng.usize(35);
                json!({"tool":"bash","args":{"command": format!("for i in $(seq 1 {m}); do echo s{i}l$i; done")}}).to_string()
            };
            joins.push(tokio::spawn(async move {
                tokio::time::sleep(Duration::from_micros(delay)).await;
                let _ = app.json("POST", &format!("/sessions/{id}/input"), Some(&json!({"input": input}))).await;
            }));
        }
        let mut actors = Vec::new();
        for t in &thr_ids {
            for a in 0..(1 + rng.usize(2)) {
                let st = app.store();
                let t = t.clone();
                let n = 10 + rng.usize(31);
                let pause = rng.below(1500);
                actors.push(tokio::task::spawn_blocking(move || {
                    for i in 0..n {
                        let _ = st.append_message(&t, format!("a{a}"), "c06".into(), format!("m{a}-{i}"));
                        if pause > 0 {
                            std::thread::sleep(Duration::from_micros(pause));
                        }
                    }
                }));
            }
        }
        let posted = Arc::new(AtomicU64::new(0));
        for (pi, slot) in post_slots.iter().enumerate() {
            let app = app.clone();
            let t = thr_ids[rng.usize(thr_ids.len())].clone();
            let delay = rng.below(horizon_us / 2);
            let slot_id = targets[*slot].id.clone();
            let posted = posted.clone();
            let m = 1 + rng.usize(20);
            let content = json!({"tool":"bash","args":{"command": format!("for i in $(seq 1 {m}); do echo p{pi}l$i; done")}}).to_string();
            joins.push(tokio::spawn(async move {
                tokio::time::sleep(Duration::from_micros(delay)).await;
                let (st, v) = app.json("POST", &format!("/threads/{t}/messages"), Some(&json!({"content": content}))).await;
                if st == 202 {
                    *slot_id.lock().unwrap() = v["session_id"].as_str().map(|x| x.to_string());
                    posted.fetch_add(1, Ordering::SeqCst);
                } else {
                    *slot_id.lock().unwrap() = Some(String::new());
                }
            }));
        }
        // subscribers
        let mut subs = Vec::new();
        for _ in 0..n_subs {
            let ti = rng.usize(targets.len());
            let kind = targets[ti].kind;
            let idc = targets[ti].id.clone();
            let ctl = targets[ti].ctl.clone();
            let delay = rng.below(horizon_us);
            let app = app.clone();
            subs.push(tokio::spawn(async move {
                tokio::time::sleep(Duration::from_micros(delay)).await;
                let mut id = None;
                for _ in 0..2000 {
                    if let Some(x) = idc.lock().unwrap().clone() {
                        id = Some(x);
                        break;
                    }
                    tokio::time::sleep(Duration::from_millis(1)).await;
                }
                let id = id.unwrap_or_default();
                if id.is_empty() {
                    return (kind, id, SubOut::default());
                }
                let so = subscribe_and_read(app, kind, id.clone(), ctl).await;
                (kind, id, so)
            }));
        }
        // quiescence
        for j in joins {
            let _ = j.await;
        }
        let mut quiet = true;
        for a in actors {
            quiet &= tokio::time::timeout(Duration::from_secs(20), a).await.is_ok();
        }
        let mut snaps: Vec<std::path::PathBuf> = Vec::new();
        for id in &sess_ids {
            snaps.push(w.store.data.join("snapshots").join(format!("{id}.json")));
        }
        for id in &task_ids {
            snaps.push(w.store.data.join("task_snapshots").join(format!("{id}.json")));
        }
        let mut run_ids = Vec::new();
        for slot in &post_slots {
            if let Some(id) = targets[*slot].id.lock().unwrap().clone() {
                if !id.is_empty() {
                    snaps.push(w.store.data.join("snapshots").join(format!("{id}.json")));
                    run_ids.push(id);
                }
            }
        }
        quiet &= wait_for(Duration::from_secs(20), || if snaps.iter().all(|p| p.exists()) { Some(()) } else { None })
            .await
            .is_some();
        // run_ended frames on the threads follow the snapshot
        let lp = w.store.log_path();
        quiet &= wait_for(Duration::from_secs(10), || {
            if run_ids.is_empty() {
                return Some(());
            }
            let text = std::fs::read(&lp).unwrap_or_default();
            let text = String::from_utf8_lossy(&text);
            let ended = |id: &String| text.lines().any(|l| l.contains("\"type\":\"continuity_run_ended\"") && l.contains(id.as_str()));
            if run_ids.iter().all(ended) {
                Some(())
            } else {
                None
            }
        })
        .await
        .is_some();
        let bytes = w.store.log_bytes_settled();
        let mut logs: Logs = BTreeMap::new();
        for t in &targets {
            let id = t.id.lock().unwrap().clone().unwrap_or_default();
            if id.is_empty() {
                t.ctl.finish(None);
                continue;
            }
            let l = stream_from_bytes(&bytes, t.kind, &id);
            t.ctl.finish(l.as_ref().and_then(|l| (l.len() as u64).checked_sub(1)));
            logs.insert((t.kind, id), l);
        }
        let mut out = Vec::new();
        for sres in subs {
            if let Ok(Ok(x)) = tokio::time::timeout(Duration::from_secs(30), sres).await {
                out.push(x);
            } else {
                quiet = false;
            }
        }
        Ok((out, logs, quiet))
    });
    let events = s.take_events();
    s.reset();
    let (subs, logs, quiet) = match res {
        Ok(x) => x,
        Err(e) => {
            cx.world = None;
            r.inconclusive(&format!("stress case {idx}: {e}"));
            return;
        }
    };
    if !quiet {
        cx.world = None;
    }
    r.eval();
    r.count("stress_cases", 1);
    if !quiet {
        r.inconclusive(&format!("stress case {idx}: producers/subscribers did not quiesce within the watchdog"));
    }
    // clocks of the emit hooks per stream: (after_record clock by seq), min/max emit clock
    let mut rec_clock: HashMap<(String, u64), u64> = HashMap::new();
    let mut span: HashMap<String, (u64, u64)> = HashMap::new();
    let mut subs_clock: HashMap<String, Vec<u64>> = HashMap::new();
    for e in &events {
        if e.point.starts_with("server.stream.subscribed") {
            subs_clock.entry(e.ctx.clone()).or_default().push(e.clock);
            continue;
        }
        if e.point.starts_with("server.stream") {
            continue;
        }
        let mut it = e.ctx.rsplitn(2, ' ');
        let seq = it.next().and_then(|x| x.parse::<u64>().ok());
        let sid = it.next().unwrap_or("").to_string();
        if let Some(seq) = seq {
            if e.point.ends_with("after_record") {
                rec_clock.insert((sid.clone(), seq), e.clock);
            }
            let sp = span.entry(sid).or_insert((e.clock, e.clock));
            sp.0 = sp.0.min(e.clock);
            sp.1 = sp.1.max(e.clock);
        }
    }
    let mut mid_join = false;
    for (sid, clocks) in &subs_clock {
        if let Some((lo, hi)) = span.get(sid) {
            let m = clocks.iter().filter(|c| **c > *lo && **c < *hi).count() as u64;
            if m > 0 {
                mid_join = true;
                r.count("stress_mid_stream_joins", m);
            }
        }
    }
    if mid_join {
        r.distinct(Sched::interleaving_signature(&events));
    }
    r.count("stress_hook_events", events.len() as u64);
    for (kind, id, sub) in &subs {
        if id.is_empty() {
            continue;
        }
        let k = kind.name();
        r.count("subscribers", 1);
        r.count(&format!("stress_{k}_subscribers"), 1);
        if sub.status != 200 {
            r.count(&format!("stress_get_status_{}", sub.status), 1);
            continue;
        }
        let Some(Some(log)) = logs.get(&(*kind, id.clone())) else {
            r.inconclusive(&format!("stress case {idx}: log of {k} stream not 0,1,2,…"));
            continue;
        };
        let ver = compare(id, &sub.frames, log);
        r.count("frames_received", ver.received as u64);
        r.count("frames_compared_with_log", (ver.received - ver.not_in_log.len()) as u64);
        let witness = json!({"phase": "stress", "index": idx, "kind": k, "shape": shape, "log_frames": log.len(),
            "received": ver.received, "lost": short(&ver.lost), "dup": short(&ver.dup), "tail_missing": ver.tail_missing});
        report_common(r, *kind, "stress", sub, &ver, &witness);
        if !ver.lost.is_empty() {
            // known mechanism: exactly the join frame is lost, and some subscribe of this stream fell
            // between after_record(k-1) and after_record(k)
            let attributed = *kind != Kind::Thread && ver.lost.len() == 1 && {
                let kk = ver.lost[0];
                let hi = rec_clock.get(&(id.clone(), kk)).copied();
                let lo = if kk == 0 { Some(0) } else { rec_clock.get(&(id.clone(), kk - 1)).copied() };
                match (lo, hi, subs_clock.get(id)) {
                    (Some(lo), Some(hi), Some(cs)) => cs.iter().any(|c| *c > lo && *c < hi),
                    _ => false,
                }
            };
            if attributed {
                r.count(&format!("join_loss_{k}"), 1);
                r.violation(
                    &format!("C06/join_loss/{k}/subscribe+snapshot_between_send_and_record"),
                    &format!("{k} stream: the frame being emitted while a subscriber joined was never delivered to it (later seqs were)"),
                    witness.clone(),
                );
            } else {
                r.violation(
                    &format!("C06/frame_lost/{k}/stress"),
                    &format!("{k} stream: seq {:?} never delivered although a later seq was", short(&ver.lost)),
                    witness.clone(),
                );
            }
        } else if ver.tail_missing > 0 {
            r.count("tail_not_delivered_within_grace", 1);
            let key = format!("stress {k}");
            if cx.tail_notes.insert(key) {
                r.inconclusive(&format!(
                    "stress case {idx}: {k} subscriber connected, producers quiescent, {} frame(s) at the end not delivered within the grace window (no later frame to prove a gap)",
                    ver.tail_missing
                ));
            }
        } else if ver.clean() {
            r.count("subscribers_exactly_once_in_order", 1);
        }
    }
    if r.samples.len() < 5 {
        r.sample(json!({"phase": "stress", "index": idx, "shape": shape, "subscribers_judged": subs.len(), "hook_events": events.len()}));
    }
}
