//! Generators shared by C12 / C13 / C14 (declared from c12.rs with `#[path]`):
//! generated workspaces, a patch document model + renderer, constructive and failing op
//! generators, and the small reference applier (add / delete / update / move in order,
//! forward-cursor hunk search, dominant line ending and final-newline state preserved).

use crate::prng::Rng;
use std::collections::{BTreeMap, BTreeSet};
use std::path::Path;

// ------------------------------------------------------------------------------------------
// workspace model
// ------------------------------------------------------------------------------------------

/// Files (relative path -> bytes) and directories (incl. empty ones) of a workspace.
#[derive(Clone, Debug, Default, PartialEq, Eq)]
pub struct WsModel {
    pub files: BTreeMap<String, Vec<u8>>,
    pub dirs: BTreeSet<String>,
}

impl WsModel {
    pub fn is_dir(&self, p: &str) -> bool {
        self.dirs.contains(p)
    }
    pub fn is_file(&self, p: &str) -> bool {
        self.files.contains_key(p)
    }
    pub fn exists(&self, p: &str) -> bool {
        self.is_file(p) || self.is_dir(p)
    }
    /// every proper ancestor is absent or a directory (else ENOTDIR)
    pub fn parents_ok(&self, p: &str) -> bool {
        let mut acc = String::new();
        let comps: Vec<&str> = p.split('/').collect();
        for c in &comps[..comps.len().saturating_sub(1)] {
            if !acc.is_empty() {
                acc.push('/');
            }
            acc.push_str(c);
            if self.is_file(&acc) {
                return false;
            }
        }
        true
    }
    pub fn add_parent_dirs(&mut self, p: &str) {
        let mut acc = String::new();
        let comps: Vec<&str> = p.split('/').collect();
        for c in &comps[..comps.len().saturating_sub(1)] {
            if !acc.is_empty() {
                acc.push('/');
            }
            acc.push_str(c);
            self.dirs.insert(acc.clone());
        }
    }
    pub fn put(&mut self, p: &str, bytes: Vec<u8>) {
        self.add_parent_dirs(p);
        self.files.insert(p.to_string(), bytes);
    }
    pub fn materialize(&self, root: &Path) {
        for d in &self.dirs {
            let _ = std::fs::create_dir_all(root.join(d));
        }
        for (p, b) in &self.files {
            let path = root.join(p);
            if let Some(parent) = path.parent() {
                let _ = std::fs::create_dir_all(parent);
            }
            let _ = std::fs::write(path, b);
        }
    }
    pub fn describe(&self) -> serde_json::Value {
        let mut m = serde_json::Map::new();
        for (p, b) in &self.files {
            m.insert(p.clone(), serde_json::Value::String(show_bytes(b)));
        }
        serde_json::json!({"files": m, "dirs": self.dirs})
    }
}

/// Printable form of file bytes (escapes CR/LF, hex for non-UTF-8), capped.
pub fn show_bytes(b: &[u8]) -> String {
    match std::str::from_utf8(b) {
        Ok(s) => {
            let mut out: String = s.replace('\r', "\\r").replace('\n', "\\n");
            if out.len() > 600 {
                let mut cut = 600;
                while !out.is_char_boundary(cut) {
                    cut -= 1;
                }
                out.truncate(cut);
                out.push('…');
            }
            out
        }
        Err(_) => format!("hex:{}", hex::encode(&b[..b.len().min(200)])),
    }
}

#[derive(Clone, Copy, Debug, PartialEq, Eq)]
pub enum FileKind {
    Lf,
    Crlf,
    Empty,
    Binary,
    Mixed,
}

const WORDS: &[&str] = &[
    "alpha", "beta", "gamma", "delta", "{", "}", "", "    return x;", "// note", "δέλτα", "fn main() {",
    "let y = 2;", "end", "日本語の行", "tab\there", "  indented", "x", "*** not a header", "@@ not a hunk",
    "+plus", "-minus", " space", "🙂 emoji",
];

const DIRS: &[&str] = &["", "", "src", "src/util", "docs", "a/b/c", "ünï", "with space"];
const NAMES: &[&str] = &[
    "main.rs", "lib.txt", "notes.md", "data.bin", "x", "ünï.txt", "sp ace.txt", "deep.txt", "Makefile", "a.txt",
    "b.txt", "c.cfg",
];

pub fn gen_line(rng: &mut Rng, serial: &mut u32, repeat_heavy: bool) -> String {
    if repeat_heavy || rng.chance(1, 3) {
        WORDS[rng.usize(if repeat_heavy { 6 } else { WORDS.len() })].to_string()
    } else {
        *serial += 1;
        format!("{} {}", WORDS[rng.usize(WORDS.len())], serial)
    }
}

pub fn encode_text(lines: &[String], crlf: bool, final_nl: bool) -> Vec<u8> {
    let eol = if crlf { "\r\n" } else { "\n" };
    let mut s = lines.join(eol);
    if final_nl {
        s.push_str(eol);
    }
    s.into_bytes()
}

pub fn gen_file_bytes(rng: &mut Rng, serial: &mut u32) -> (FileKind, Vec<u8>) {
    let k = rng.below(100);
    let n = 1 + rng.usize(14);
    let repeat_heavy = rng.chance(2, 5);
    let lines: Vec<String> = (0..n).map(|_| gen_line(rng, serial, repeat_heavy)).collect();
    let final_nl = rng.chance(2, 3);
    if k < 52 {
        (FileKind::Lf, encode_text(&lines, false, final_nl))
    } else if k < 74 {
        (FileKind::Crlf, encode_text(&lines, true, final_nl))
    } else if k < 82 {
        (FileKind::Empty, Vec::new())
    } else if k < 91 {
        let nb = 1 + rng.usize(40);
        let mut b = rng.bytes(nb);
        b.insert(0, 0xff);
        b.push(0xfe);
        if rng.bool() {
            b.extend_from_slice(b"\nline\n");
        }
        (FileKind::Binary, b)
    } else {
        // mixed line endings: some CRLF, some LF (never judged for exactness)
        let mut s = String::new();
        for (i, l) in lines.iter().enumerate() {
            s.push_str(l);
            if i + 1 < lines.len() || final_nl {
                s.push_str(if i % 2 == 0 { "\r\n" } else { "\n" });
            }
        }
        if !s.contains("\r\n") {
            s.push_str("\r\n");
        }
        if !s.replace("\r\n", "").contains('\n') {
            s.push_str("tail\n");
        }
        (FileKind::Mixed, s.into_bytes())
    }
}

pub fn gen_workspace(rng: &mut Rng) -> WsModel {
    let mut m = WsModel::default();
    let mut serial = 0u32;
    let n = 2 + rng.usize(7);
    for _ in 0..n {
        let d = DIRS[rng.usize(DIRS.len())];
        let name = NAMES[rng.usize(NAMES.len())];
        let p = if d.is_empty() { name.to_string() } else { format!("{d}/{name}") };
        if m.exists(&p) {
            continue;
        }
        let (_, bytes) = gen_file_bytes(rng, &mut serial);
        m.put(&p, bytes);
    }
    // bystanders: files whose names are what temp / backup / staging conventions derive from the name of a file
    // that a patch may touch (an implementation that stages its writes must not collide with them)
    if rng.chance(1, 2) {
        let existing: Vec<String> = m.files.keys().cloned().collect();
        for _ in 0..(1 + rng.usize(3)) {
            if existing.is_empty() {
                break;
            }
            let base = existing[rng.usize(existing.len())].clone();
            let p = shadow_name(rng, &base);
            if !m.exists(&p) && m.parents_ok(&p) {
                let (_, bytes) = gen_file_bytes(rng, &mut serial);
                m.put(&p, bytes);
            }
        }
    }
    if rng.chance(1, 2) {
        m.dirs.insert("emptydir".to_string());
    }
    if rng.chance(1, 4) {
        m.add_parent_dirs("e1/e2/x");
    }
    m
}

/// A sibling name derived from `path` the way editors and staging code derive temp / backup names.
pub fn shadow_name(rng: &mut Rng, path: &str) -> String {
    let (dir, name) = match path.rsplit_once('/') {
        Some((d, n)) => (format!("{d}/"), n.to_string()),
        None => (String::new(), path.to_string()),
    };
    let stem = match name.rsplit_once('.') {
        Some((s, _)) if !s.is_empty() => s.to_string(),
        _ => name.clone(),
    };
    let n = match rng.below(14) {
        0 | 1 => format!("{stem}.tmp"),
        2 => format!("{name}.tmp"),
        3 => format!("{name}~"),
        4 => format!(".{name}.swp"),
        5 => format!("{name}.bak"),
        6 => format!("{name}.orig"),
        7 => format!("{name}.new"),
        8 => format!("{name}.rej"),
        9 => format!("{name}.lock"),
        10 => format!("#{name}#"),
        11 => format!(".{name}.tmp"),
        12 => format!("{stem}.temp"),
        _ => format!("{stem}.part"),
    };
    format!("{dir}{n}")
}

// ------------------------------------------------------------------------------------------
// text decoding (reference side)
// ------------------------------------------------------------------------------------------

#[derive(Clone, Debug)]
pub struct Text {
    pub lines: Vec<String>,
    pub crlf: bool,
    pub final_nl: bool,
    /// exactly one EOL style and no stray CR
    pub single_style: bool,
}

pub fn decode_text(bytes: &[u8]) -> Option<Text> {
    let s = std::str::from_utf8(bytes).ok()?;
    let b = s.as_bytes();
    let mut crlf = 0usize;
    let mut lf = 0usize;
    let mut stray_cr = 0usize;
    for i in 0..b.len() {
        if b[i] == b'\n' {
            if i > 0 && b[i - 1] == b'\r' {
                crlf += 1;
            } else {
                lf += 1;
            }
        } else if b[i] == b'\r' && (i + 1 >= b.len() || b[i + 1] != b'\n') {
            stray_cr += 1;
        }
    }
    let final_nl = s.ends_with('\n');
    let mut lines: Vec<String> =
        s.split('\n').map(|l| l.strip_suffix('\r').unwrap_or(l).to_string()).collect();
    if final_nl {
        lines.pop();
    }
    Some(Text {
        lines,
        crlf: crlf > lf,
        final_nl,
        single_style: (crlf == 0 || lf == 0) && stray_cr == 0,
    })
}

// ------------------------------------------------------------------------------------------
// patch document model
// ------------------------------------------------------------------------------------------

#[derive(Clone, Debug, PartialEq, Eq)]
pub enum HunkLine {
    Ctx(String),
    Del(String),
    Add(String),
}

#[derive(Clone, Debug, PartialEq, Eq)]
pub struct Hunk {
    pub header: String,
    pub lines: Vec<HunkLine>,
    pub eof_marker: bool,
}

impl Hunk {
    pub fn before(&self) -> Vec<&str> {
        self.lines
            .iter()
            .filter_map(|l| match l {
                HunkLine::Ctx(s) | HunkLine::Del(s) => Some(s.as_str()),
                HunkLine::Add(_) => None,
            })
            .collect()
    }
    pub fn after(&self) -> Vec<&str> {
        self.lines
            .iter()
            .filter_map(|l| match l {
                HunkLine::Ctx(s) | HunkLine::Add(s) => Some(s.as_str()),
                HunkLine::Del(_) => None,
            })
            .collect()
    }
}

#[derive(Clone, Debug, PartialEq, Eq)]
pub enum Op {
    Add { path: String, lines: Vec<String> },
    Delete { path: String },
    Update { path: String, move_to: Option<String>, hunks: Vec<Hunk> },
    /// arbitrary text block (mutated header, garbage …) — outside the reference's domain
    Raw(String),
}

impl Op {
    pub fn kind(&self) -> &'static str {
        match self {
            Op::Add { .. } => "add",
            Op::Delete { .. } => "delete",
            Op::Update { move_to: None, .. } => "update",
            Op::Update { move_to: Some(_), .. } => "move",
            Op::Raw(_) => "raw",
        }
    }
    pub fn named_paths(&self) -> Vec<String> {
        match self {
            Op::Add { path, .. } | Op::Delete { path } => vec![path.clone()],
            Op::Update { path, move_to, .. } => {
                let mut v = vec![path.clone()];
                if let Some(m) = move_to {
                    v.push(m.clone());
                }
                v
            }
            Op::Raw(_) => vec![],
        }
    }
}

#[derive(Clone, Debug, Default)]
pub struct PatchDoc {
    pub ops: Vec<Op>,
}

pub fn render_op(op: &Op, out: &mut Vec<String>) {
    match op {
        Op::Add { path, lines } => {
            out.push(format!("*** Add File: {path}"));
            for l in lines {
                out.push(format!("+{l}"));
            }
        }
        Op::Delete { path } => out.push(format!("*** Delete File: {path}")),
        Op::Update { path, move_to, hunks } => {
            out.push(format!("*** Update File: {path}"));
            if let Some(m) = move_to {
                out.push(format!("*** Move to: {m}"));
            }
            for h in hunks {
                out.push(h.header.clone());
                for l in &h.lines {
                    match l {
                        HunkLine::Ctx(s) => out.push(format!(" {s}")),
                        HunkLine::Del(s) => out.push(format!("-{s}")),
                        HunkLine::Add(s) => out.push(format!("+{s}")),
                    }
                }
                if h.eof_marker {
                    out.push("*** End of File".to_string());
                }
            }
        }
        Op::Raw(s) => {
            for l in s.split('\n') {
                out.push(l.to_string());
            }
        }
    }
}

pub fn render(doc: &PatchDoc, crlf: bool, trailing_nl: bool) -> String {
    let mut lines = vec!["*** Begin Patch".to_string()];
    for op in &doc.ops {
        render_op(op, &mut lines);
    }
    lines.push("*** End Patch".to_string());
    let eol = if crlf { "\r\n" } else { "\n" };
    let mut s = lines.join(eol);
    if trailing_nl {
        s.push_str(eol);
    }
    s
}

// ------------------------------------------------------------------------------------------
// reference applier
// ------------------------------------------------------------------------------------------

#[derive(Clone, Debug)]
pub enum RefOutcome {
    Ok { model: WsModel, changed: Vec<String> },
    /// the reference expects the patch to be rejected at op `at`
    Fail { at: usize, why: String },
    /// outside what the contracts pin down (reference refuses to predict)
    Undocumented { at: usize, why: String },
}

enum HErr {
    Fail(String),
    Undoc(String),
}

fn find_from(hay: &[String], needle: &[&str], start: usize) -> Option<usize> {
    if needle.len() > hay.len() {
        return None;
    }
    let last = hay.len() - needle.len();
    let mut i = start;
    while i <= last {
        if hay[i..i + needle.len()].iter().zip(needle.iter()).all(|(a, b)| a == b) {
            return Some(i);
        }
        i += 1;
    }
    None
}

pub fn count_occurrences(hay: &[String], needle: &[&str]) -> usize {
    let mut n = 0;
    let mut from = 0;
    while let Some(p) = find_from(hay, needle, from) {
        n += 1;
        from = p + 1;
    }
    n
}

/// Forward-cursor hunk application on decoded lines.
fn ref_hunks(lines: &[String], hunks: &[Hunk]) -> Result<Vec<String>, HErr> {
    let mut cur: Vec<String> = lines.to_vec();
    let mut cursor = 0usize;
    for h in hunks {
        let before = h.before();
        let after: Vec<String> = h.after().iter().map(|s| s.to_string()).collect();
        if before.is_empty() {
            return Err(HErr::Undoc("hunk without context or deletions".into()));
        }
        let Some(pos) = find_from(&cur, &before, cursor) else {
            return Err(HErr::Fail("hunk context not found at or after the cursor".into()));
        };
        let n_after = after.len();
        cur.splice(pos..pos + before.len(), after);
        cursor = pos + n_after;
    }
    Ok(cur)
}

pub fn ref_apply(start: &WsModel, doc: &PatchDoc) -> RefOutcome {
    let mut m = start.clone();
    let mut changed: BTreeSet<String> = BTreeSet::new();
    for (i, op) in doc.ops.iter().enumerate() {
        for p in op.named_paths() {
            if !is_clean_rel(&p) {
                return RefOutcome::Undocumented { at: i, why: format!("non-canonical path {p:?}") };
            }
        }
        match op {
            Op::Raw(_) => return RefOutcome::Undocumented { at: i, why: "raw block".into() },
            Op::Add { path, lines } => {
                if m.exists(path) {
                    return RefOutcome::Fail { at: i, why: format!("add: {path} exists") };
                }
                if !m.parents_ok(path) {
                    return RefOutcome::Fail { at: i, why: format!("add: parent of {path} is a file") };
                }
                if path.split('/').any(|c| c.len() > 255) {
                    return RefOutcome::Fail { at: i, why: "add: name too long".into() };
                }
                let mut s = lines.join("\n");
                if !lines.is_empty() {
                    s.push('\n');
                }
                m.put(path, s.into_bytes());
                changed.insert(path.clone());
            }
            Op::Delete { path } => {
                if m.is_dir(path) {
                    return RefOutcome::Fail { at: i, why: format!("delete: {path} is a directory") };
                }
                if !m.is_file(path) {
                    return RefOutcome::Fail { at: i, why: format!("delete: {path} missing") };
                }
                m.files.remove(path);
                changed.insert(path.clone());
            }
            Op::Update { path, move_to, hunks } => {
                if m.is_dir(path) {
                    return RefOutcome::Fail { at: i, why: format!("update: {path} is a directory") };
                }
                let Some(bytes) = m.files.get(path) else {
                    return RefOutcome::Fail { at: i, why: format!("update: {path} missing") };
                };
                let Some(text) = decode_text(bytes) else {
                    return RefOutcome::Fail { at: i, why: format!("update: {path} not UTF-8") };
                };
                if hunks.is_empty() {
                    return RefOutcome::Fail { at: i, why: "update without hunks".into() };
                }
                if !text.single_style || bytes.is_empty() {
                    return RefOutcome::Undocumented { at: i, why: "mixed line endings / empty file".into() };
                }
                let new_lines = match ref_hunks(&text.lines, hunks) {
                    Ok(l) => l,
                    Err(HErr::Fail(w)) => return RefOutcome::Fail { at: i, why: format!("update {path}: {w}") },
                    Err(HErr::Undoc(w)) => return RefOutcome::Undocumented { at: i, why: w },
                };
                if new_lines.is_empty() {
                    return RefOutcome::Undocumented { at: i, why: "update removes every line".into() };
                }
                let out = encode_text(&new_lines, text.crlf, text.final_nl);
                m.files.insert(path.clone(), out);
                changed.insert(path.clone());
                if let Some(t) = move_to {
                    if m.exists(t) {
                        return RefOutcome::Fail { at: i, why: format!("move: target {t} exists") };
                    }
                    if !m.parents_ok(t) {
                        return RefOutcome::Fail { at: i, why: format!("move: parent of {t} is a file") };
                    }
                    if t.split('/').any(|c| c.len() > 255) {
                        return RefOutcome::Fail { at: i, why: "move: name too long".into() };
                    }
                    let b = m.files.remove(path).unwrap_or_default();
                    m.put(t, b);
                    changed.insert(t.clone());
                }
            }
        }
    }
    RefOutcome::Ok { model: m, changed: changed.into_iter().collect() }
}

/// relative, no empty / `.` / `..` components, no backslash, no leading/trailing whitespace
pub fn is_clean_rel(p: &str) -> bool {
    !p.is_empty()
        && !p.starts_with('/')
        && p.trim() == p
        && !p.contains('\\')
        && !p.contains('\0')
        && p.split('/').all(|c| !c.is_empty() && c != "." && c != "..")
}

// ------------------------------------------------------------------------------------------
// constructive generators (always generated against the *current* reference state)
// ------------------------------------------------------------------------------------------

pub struct Fresh {
    n: u32,
}

impl Fresh {
    pub fn new() -> Self {
        Fresh { n: 0 }
    }
    pub fn path(&mut self, rng: &mut Rng, m: &WsModel) -> String {
        for _ in 0..20 {
            self.n += 1;
            let d = match rng.below(6) {
                0 => format!("nd{}", self.n),
                1 => format!("nd{}/sub", self.n),
                _ => DIRS[rng.usize(DIRS.len())].to_string(),
            };
            let name = match rng.below(4) {
                0 => format!("new{}.txt", self.n),
                1 => format!("ñew {}.md", self.n),
                _ => NAMES[rng.usize(NAMES.len())].to_string(),
            };
            let mut p = if d.is_empty() { name } else { format!("{d}/{name}") };
            // sometimes a new file takes the temp / backup name of a file that already exists
            if rng.chance(1, 6) {
                let existing: Vec<&String> = m.files.keys().collect();
                if !existing.is_empty() {
                    let base = existing[rng.usize(existing.len())].clone();
                    p = shadow_name(rng, &base);
                }
            }
            if !m.exists(&p) && m.parents_ok(&p) {
                return p;
            }
        }
        self.n += 1;
        format!("fresh-{}.txt", self.n)
    }
}

/// Files of the model that qualify for an exactness-judged update.
pub fn updatable(m: &WsModel) -> Vec<String> {
    m.files
        .iter()
        .filter(|(_, b)| !b.is_empty() && decode_text(b).map(|t| t.single_style).unwrap_or(false))
        .map(|(p, _)| p.clone())
        .collect()
}

/// Hunks cut from the real lines. Returns (hunks, any_repeated_context, resulting lines).
pub fn gen_hunks(rng: &mut Rng, lines: &[String], serial: &mut u32) -> (Vec<Hunk>, bool, Vec<String>) {
    let mut cur: Vec<String> = lines.to_vec();
    let mut cursor = 0usize;
    let mut hunks = Vec::new();
    let mut repeated = false;
    let want = 1 + rng.usize(3);
    for _ in 0..want {
        if cursor >= cur.len() {
            break;
        }
        let full_start = cursor + rng.usize((cur.len() - cursor).min(5));
        let avail = cur.len() - full_start;
        let mut c1 = rng.usize(3).min(avail);
        let del = rng.usize(3).min(avail - c1);
        let c2 = rng.usize(3).min(avail - c1 - del);
        if c1 + del + c2 == 0 {
            c1 = 1;
        }
        let total = c1 + del + c2;
        let mut n_add = rng.usize(3);
        if del == 0 && n_add == 0 && rng.chance(9, 10) {
            n_add = 1;
        }
        if cur.len() - del + n_add == 0 {
            n_add = 1;
        }
        let block: Vec<String> = cur[full_start..full_start + total].to_vec();
        let needle: Vec<&str> = block.iter().map(|s| s.as_str()).collect();
        // intended match := first occurrence at or after the cursor (same text by construction)
        let pos = find_from(&cur, &needle, cursor).unwrap_or(full_start);
        if count_occurrences(&cur, &needle) > 1 {
            repeated = true;
        }
        let adds: Vec<String> = (0..n_add)
            .map(|_| {
                let heavy = rng.chance(1, 3);
                gen_line(rng, serial, heavy)
            })
            .collect();
        let mut hl = Vec::new();
        for l in &block[..c1] {
            hl.push(HunkLine::Ctx(l.clone()));
        }
        for l in &block[c1..c1 + del] {
            hl.push(HunkLine::Del(l.clone()));
        }
        for a in &adds {
            hl.push(HunkLine::Add(a.clone()));
        }
        for l in &block[c1 + del..] {
            hl.push(HunkLine::Ctx(l.clone()));
        }
        let reaches_eof = pos + total == cur.len();
        cur.splice(pos + c1..pos + c1 + del, adds.iter().cloned());
        cursor = pos + c1 + n_add + c2;
        let header = match rng.below(5) {
            0 => format!("@@ -{},{} +{},{} @@", pos + 1, total, pos + 1, c1 + n_add + c2),
            1 => "@@ fn main() {".to_string(),
            _ => "@@".to_string(),
        };
        let _ = reaches_eof; // `*** End of File` is not part of ADR-0003 (and the parser rejects it): never constructive
        hunks.push(Hunk { header, lines: hl, eof_marker: false });
    }
    (hunks, repeated, cur)
}

#[derive(Clone, Debug, Default)]
pub struct Shape {
    pub repeated_ctx: bool,
    pub crlf_update: bool,
    pub no_final_nl_update: bool,
    pub same_path_reuse: bool,
}

/// One constructive op against state `m`; `touched` biases towards re-using earlier paths.
pub fn gen_constructive_op(
    rng: &mut Rng,
    m: &WsModel,
    touched: &[String],
    fresh: &mut Fresh,
    serial: &mut u32,
    shape: &mut Shape,
) -> Op {
    for _ in 0..8 {
        let prefer_touched = !touched.is_empty() && rng.chance(1, 2);
        match rng.below(10) {
            0 | 1 => {
                // add: at a fresh path, or at a path deleted / moved away earlier in this patch
                let reuse: Vec<&String> = touched.iter().filter(|p| !m.exists(p) && m.parents_ok(p)).collect();
                let path = if prefer_touched && !reuse.is_empty() {
                    shape.same_path_reuse = true;
                    (*rng.pick(&reuse)).clone()
                } else {
                    fresh.path(rng, m)
                };
                let n = rng.usize(6);
                let lines = (0..n).map(|_| gen_line(rng, serial, false)).collect();
                return Op::Add { path, lines };
            }
            2 | 3 => {
                let all: Vec<&String> = m.files.keys().collect();
                if all.is_empty() {
                    continue;
                }
                let t: Vec<&String> = touched.iter().filter(|p| m.is_file(p)).collect();
                let path = if prefer_touched && !t.is_empty() {
                    shape.same_path_reuse = true;
                    (*rng.pick(&t)).clone()
                } else {
                    (*rng.pick(&all)).clone()
                };
                return Op::Delete { path };
            }
            k => {
                let up = updatable(m);
                if up.is_empty() {
                    continue;
                }
                let t: Vec<&String> = touched.iter().filter(|p| up.contains(p)).collect();
                let path = if prefer_touched && !t.is_empty() {
                    shape.same_path_reuse = true;
                    (*rng.pick(&t)).clone()
                } else {
                    rng.pick(&up).clone()
                };
                let text = decode_text(&m.files[&path]).expect("updatable");
                let (hunks, rep, _) = gen_hunks(rng, &text.lines, serial);
                shape.repeated_ctx |= rep;
                shape.crlf_update |= text.crlf;
                shape.no_final_nl_update |= !text.final_nl;
                let move_to = if k >= 8 {
                    let reuse: Vec<&String> =
                        touched.iter().filter(|p| !m.exists(p) && m.parents_ok(p) && **p != path).collect();
                    Some(if prefer_touched && !reuse.is_empty() {
                        (*rng.pick(&reuse)).clone()
                    } else {
                        fresh.path(rng, m)
                    })
                } else {
                    None
                };
                return Op::Update { path, move_to, hunks };
            }
        }
    }
    Op::Add { path: fresh.path(rng, m), lines: vec!["fallback".into()] }
}

/// Advance the reference state by one op (None when the reference rejects / refuses it).
pub fn step(m: &WsModel, op: &Op) -> Option<WsModel> {
    match ref_apply(m, &PatchDoc { ops: vec![op.clone()] }) {
        RefOutcome::Ok { model, .. } => Some(model),
        _ => None,
    }
}

// ------------------------------------------------------------------------------------------
// failing ops (judged on atomicity only)
// ------------------------------------------------------------------------------------------

pub const FAIL_KINDS: &[&str] = &[
    "add_existing",
    "add_on_dir",
    "add_under_file_enotdir",
    "add_name_too_long",
    "delete_missing",
    "delete_dir_eisdir",
    "update_missing",
    "update_non_utf8",
    "update_dir_eisdir",
    "update_wrong_context",
    "update_reversed_hunks",
    "update_overlapping_hunks",
    "move_onto_existing",
    "move_onto_dir",
    "move_under_file_enotdir",
    "move_name_too_long",
    "escaping_path",
    "update_no_hunks",
    "bad_hunk_prefix",
    "empty_hunk_line",
    "mutated_header",
];

fn simple_update(path: &str, move_to: Option<String>, m: &WsModel, rng: &mut Rng, serial: &mut u32) -> Op {
    // a valid-looking update (valid when the file qualifies, otherwise a best-effort hunk)
    if let Some(t) = m.files.get(path).and_then(|b| decode_text(b)) {
        if !t.lines.is_empty() && !m.files[path].is_empty() {
            let (hunks, _, _) = gen_hunks(rng, &t.lines, serial);
            return Op::Update { path: path.to_string(), move_to, hunks };
        }
    }
    Op::Update {
        path: path.to_string(),
        move_to,
        hunks: vec![Hunk {
            header: "@@".into(),
            lines: vec![HunkLine::Del("old".into()), HunkLine::Add("new".into())],
            eof_marker: false,
        }],
    }
}

/// A planted failing op of the requested kind against state `m` (falls back to a kind that is
/// always constructible). Returns (ops to insert, kind actually planted).
pub fn gen_failing_op(
    rng: &mut Rng,
    kind: &str,
    m: &WsModel,
    touched: &[String],
    fresh: &mut Fresh,
    serial: &mut u32,
) -> (Op, &'static str) {
    let files: Vec<String> = m.files.keys().cloned().collect();
    let dirs: Vec<String> = m.dirs.iter().cloned().collect();
    let pick_file = |rng: &mut Rng| -> Option<String> {
        let t: Vec<&String> = touched.iter().filter(|p| m.is_file(p)).collect();
        if !t.is_empty() && rng.bool() {
            Some((*rng.pick(&t)).clone())
        } else if files.is_empty() {
            None
        } else {
            Some(rng.pick(&files).clone())
        }
    };
    let missing = |rng: &mut Rng, fresh: &mut Fresh| -> String {
        let t: Vec<&String> = touched.iter().filter(|p| !m.exists(p)).collect();
        if !t.is_empty() && rng.bool() {
            (*rng.pick(&t)).clone()
        } else {
            fresh.path(rng, m)
        }
    };
    let long = "n".repeat(300);
    let up = updatable(m);
    match kind {
        "add_existing" => {
            if let Some(p) = pick_file(rng) {
                return (Op::Add { path: p, lines: vec!["clobber".into()] }, "add_existing");
            }
        }
        "add_on_dir" => {
            if !dirs.is_empty() {
                return (Op::Add { path: rng.pick(&dirs).clone(), lines: vec!["x".into()] }, "add_on_dir");
            }
        }
        "add_under_file_enotdir" => {
            if let Some(p) = pick_file(rng) {
                return (Op::Add { path: format!("{p}/child.txt"), lines: vec!["x".into()] }, "add_under_file_enotdir");
            }
        }
        "add_name_too_long" => {
            let d = if rng.bool() { format!("ndl{}/", rng.below(1000)) } else { String::new() };
            return (Op::Add { path: format!("{d}{long}"), lines: vec!["x".into()] }, "add_name_too_long");
        }
        "delete_missing" => return (Op::Delete { path: missing(rng, fresh) }, "delete_missing"),
        "delete_dir_eisdir" => {
            if !dirs.is_empty() {
                return (Op::Delete { path: rng.pick(&dirs).clone() }, "delete_dir_eisdir");
            }
        }
        "update_missing" => {
            let p = missing(rng, fresh);
            return (simple_update(&p, None, m, rng, serial), "update_missing");
        }
        "update_non_utf8" => {
            let bins: Vec<&String> = files.iter().filter(|p| std::str::from_utf8(&m.files[*p]).is_err()).collect();
            if !bins.is_empty() {
                let p = (*rng.pick(&bins)).clone();
                return (simple_update(&p, None, m, rng, serial), "update_non_utf8");
            }
        }
        "update_dir_eisdir" => {
            if !dirs.is_empty() {
                let p = rng.pick(&dirs).clone();
                return (simple_update(&p, None, m, rng, serial), "update_dir_eisdir");
            }
        }
        "update_wrong_context" => {
            if let Some(p) = pick_file(rng) {
                let mut op = simple_update(&p, None, m, rng, serial);
                if let Op::Update { hunks, .. } = &mut op {
                    let h = hunks.len() - 1;
                    let at = rng.usize(hunks[h].lines.len() + 1);
                    hunks[h].lines.insert(at, HunkLine::Del(format!("never-present-{}", rng.hex(6))));
                }
                return (op, "update_wrong_context");
            }
        }
        "update_reversed_hunks" => {
            for p in &up {
                let t = decode_text(&m.files[p]).expect("text");
                // two single-line replacements of lines that are unique in the file, in reverse order
                let uniq: Vec<usize> = (0..t.lines.len())
                    .filter(|i| t.lines.iter().filter(|l| **l == t.lines[*i]).count() == 1)
                    .collect();
                if uniq.len() >= 2 {
                    let a = uniq[0];
                    let b = uniq[uniq.len() - 1];
                    let mk = |i: usize| Hunk {
                        header: "@@".into(),
                        lines: vec![HunkLine::Del(t.lines[i].clone()), HunkLine::Add(format!("rev {i}"))],
                        eof_marker: false,
                    };
                    return (
                        Op::Update { path: p.clone(), move_to: None, hunks: vec![mk(b), mk(a)] },
                        "update_reversed_hunks",
                    );
                }
            }
        }
        "update_overlapping_hunks" => {
            for p in &up {
                let t = decode_text(&m.files[p]).expect("text");
                if t.lines.len() >= 3 {
                    let i = rng.usize(t.lines.len() - 2);
                    let h1 = Hunk {
                        header: "@@".into(),
                        lines: vec![
                            HunkLine::Ctx(t.lines[i].clone()),
                            HunkLine::Del(t.lines[i + 1].clone()),
                            HunkLine::Add("ov1".into()),
                            HunkLine::Ctx(t.lines[i + 2].clone()),
                        ],
                        eof_marker: false,
                    };
                    let h2 = Hunk {
                        header: "@@".into(),
                        lines: vec![
                            HunkLine::Ctx(t.lines[i + 1].clone()),
                            HunkLine::Del(t.lines[i + 2].clone()),
                            HunkLine::Add("ov2".into()),
                        ],
                        eof_marker: false,
                    };
                    return (
                        Op::Update { path: p.clone(), move_to: None, hunks: vec![h1, h2] },
                        "update_overlapping_hunks",
                    );
                }
            }
        }
        "move_onto_existing" => {
            if let (Some(src), Some(dst)) = (up.first().cloned(), pick_file(rng)) {
                let src = if up.len() > 1 { rng.pick(&up).clone() } else { src };
                if src != dst {
                    return (simple_update(&src, Some(dst), m, rng, serial), "move_onto_existing");
                }
            }
        }
        "move_onto_dir" => {
            if !up.is_empty() && !dirs.is_empty() {
                let src = rng.pick(&up).clone();
                return (simple_update(&src, Some(rng.pick(&dirs).clone()), m, rng, serial), "move_onto_dir");
            }
        }
        "move_under_file_enotdir" => {
            if !up.is_empty() {
                let src = rng.pick(&up).clone();
                if let Some(f) = pick_file(rng) {
                    if f != src {
                        return (
                            simple_update(&src, Some(format!("{f}/moved.txt")), m, rng, serial),
                            "move_under_file_enotdir",
                        );
                    }
                }
            }
        }
        "move_name_too_long" => {
            if !up.is_empty() {
                let src = rng.pick(&up).clone();
                return (simple_update(&src, Some(format!("mvd/{long}")), m, rng, serial), "move_name_too_long");
            }
        }
        "escaping_path" => {
            let esc = match rng.below(5) {
                0 => "../escape.txt".to_string(),
                1 => "/RV_C12_ABS/abs-escape.txt".to_string(), // c12.rs substitutes the case directory for /RV_C12_ABS
                2 => "a/../../x".to_string(),
                3 => "sub/..".to_string(),
                _ => "./../y".to_string(),
            };
            let op = match rng.below(4) {
                0 => Op::Add { path: esc, lines: vec!["x".into()] },
                1 => Op::Delete { path: esc },
                2 => simple_update(&esc, None, m, rng, serial),
                _ => match up.first() {
                    Some(src) => simple_update(src, Some(esc), m, rng, serial),
                    None => Op::Delete { path: esc },
                },
            };
            return (op, "escaping_path");
        }
        "update_no_hunks" => {
            let p = pick_file(rng).unwrap_or_else(|| "nohunks.txt".into());
            return (Op::Raw(format!("*** Update File: {p}")), "update_no_hunks");
        }
        "bad_hunk_prefix" => {
            let p = pick_file(rng).unwrap_or_else(|| "badprefix.txt".into());
            return (Op::Raw(format!("*** Update File: {p}\n@@\n?what\n+new")), "bad_hunk_prefix");
        }
        "empty_hunk_line" => {
            let p = pick_file(rng).unwrap_or_else(|| "emptyline.txt".into());
            return (Op::Raw(format!("*** Update File: {p}\n@@\n-old\n\n+new")), "empty_hunk_line");
        }
        "mutated_header" => {
            let p = pick_file(rng).unwrap_or_else(|| "hdr.txt".into());
            let h = match rng.below(5) {
                0 => format!("*** Updte File: {p}\n@@\n-a\n+b"),
                1 => format!("***Add File: {p}\n+x"),
                2 => format!("*** Delete File:{p}"),
                3 => format!("*** add file: {p}\n+x"),
                _ => format!("+stray line\n*** Delete File: {p}"),
            };
            return (Op::Raw(h), "mutated_header");
        }
        _ => {}
    }
    (Op::Delete { path: missing(rng, fresh) }, "delete_missing")
}
