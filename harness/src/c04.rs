//! C04 — caches are transparent (losing/corrupting them never changes an answer) and every
//! read terminates.
//!
//! Differential monitor: the same query is evaluated on the store "as found" (after a script of
//! cache faults interleaved with appends and restarts) and on a copy from which every cache file
//! has been removed; answers must be equal. With the caches removed the real code rebuilds them and
//! takes the same fast paths again, so that answer is not independent: replay, cut points (incl.
//! their "already checkpointed" marking), the status' latest checkpoint, cursor / selection status
//! and the checkpoint selection of compile (cut, eligible checkpoints with "latest frame per to_seq
//! wins", halving hierarchy, strategy) are also checked against an independent reading of the raw
//! log. Histories hold REPEATED and OUT-OF-ORDER checkpoints (gen_hist re-checkpoints; directed
//! `RepeatedCkpts` shapes, compared with no fault and with one fault), and compile is anchored at
//! the repeatedly checkpointed messages. A disagreement is blamed on a fault class only after a
//! re-run of the same history without faults did not show it. Termination is decided on logical
//! steps: `cache.scan` ticks per query are counted by the step-budget handler.

use crate::fixture::{copy_dir, App, Store};
use crate::gen_hist::{exec, pick_kind, Known, OpKind};
use crate::prng::Rng;
use crate::report::{Cfg, Report};
use crate::sched::{sched, with_step_budget};
use crate::truth;
use ripd::{
    CompactionAutoV1Request, CompactionCheckpointCumulativeV1Request, CompactionCutPointsV1Request,
    CompactionStatusV1Request, ContextSelectionStatusV1Request, ContinuityRunLink, ProviderCursorRotateV1Request,
    ProviderCursorStatusV1Request,
};
use serde_json::{json, Value};
use std::path::Path;

pub const FILES: [&str; 9] = [
    ".jsonl",
    ".seek.v1.jsonl",
    ".messages.v1.bin",
    ".mr.v1.jsonl",
    ".mr.seek.v1.jsonl",
    ".mr.messages.v1.bin",
    ".mr.msgord.v1.bin",
    ".comp.v1.jsonl",
    ".comp.idx.v1.jsonl",
];
pub const FILE_CLASS: [&str; 9] = [
    "sidecar", "seek", "msgidx", "mr", "mrseek", "mrmsg", "mrord", "comp", "compidx",
];

#[derive(Clone, Copy, Debug, PartialEq, Eq)]
pub enum FaultKind {
    Delete,
    TruncByte,
    TruncLine,
    TruncZero,
    Garbage,
    OtherThread,
    HeadGarbage,
    Rollback,
    DropLastLine,
}
pub const FAULT_KINDS: [FaultKind; 9] = [
    FaultKind::Delete,
    FaultKind::TruncByte,
    FaultKind::TruncLine,
    FaultKind::TruncZero,
    FaultKind::Garbage,
    FaultKind::OtherThread,
    FaultKind::HeadGarbage,
    FaultKind::Rollback,
    FaultKind::DropLastLine,
];

impl FaultKind {
    fn name(&self) -> &'static str {
        match self {
            FaultKind::Delete => "delete",
            FaultKind::TruncByte => "trunc_byte",
            FaultKind::TruncLine => "trunc_line",
            FaultKind::TruncZero => "trunc_zero",
            FaultKind::Garbage => "garbage",
            FaultKind::OtherThread => "other_thread",
            FaultKind::HeadGarbage => "head_garbage",
            FaultKind::Rollback => "rollback",
            FaultKind::DropLastLine => "drop_last_line",
        }
    }
}

#[derive(Clone, Debug)]
pub struct Fault {
    pub file: usize,
    pub kind: FaultKind,
    pub at: u8, // 1 = after phase 2 (further appends follow), 2 = at the end (just before queries)
    pub salt: u64,
}

impl FaultKind {
    /// fault classes used in finding signatures
    pub fn group(&self) -> &'static str {
        match self {
            FaultKind::TruncLine | FaultKind::Rollback | FaultKind::DropLastLine | FaultKind::TruncZero => "stale",
            FaultKind::OtherThread => "foreign",
            FaultKind::Garbage | FaultKind::HeadGarbage | FaultKind::TruncByte => "damaged",
            FaultKind::Delete => "missing",
        }
    }
}

impl Fault {
    fn sig(&self) -> String {
        format!("{}/{}@{}", FILE_CLASS[self.file], self.kind.group(), self.at)
    }
    fn label(&self) -> String {
        format!("{}:{}@{}", FILE_CLASS[self.file], self.kind.name(), self.at)
    }
}

#[derive(Clone, Debug)]
pub enum Shape {
    Small,
    Medium,
    ManyMessages(u64),     // > 10_000 frames, messages only
    DenseSideEffects(u64), // a few messages + cursor early, then > 10_000 non-message frames
    BigSidecar(u64),       // > 8 MiB of large messages
    Spread(u64),           // decisions / cursors / checkpoints spread over > 256 KiB of side effects
    Long(u64),             // several hundred frames per phase: seek-index strides (256) are crossed after a fault
    /// a handful of messages whose cut points are summarised REPEATEDLY and OUT OF ORDER (corrected summaries for a
    /// cut point that has one already: adjacent frames, frames far apart, decreasing to_seq order, mixed with
    /// auto-compaction); the number picks the ordering class
    RepeatedCkpts(u64),
}

#[derive(Clone, Debug)]
pub struct Plan {
    pub seed: u64,
    pub shape: Shape,
    pub n: [usize; 3],
    pub faults: Vec<Fault>,
    pub restart1: bool,
    pub restart2: bool,
}

fn weights() -> Vec<(OpKind, u64)> {
    vec![
        (OpKind::Msg, 30),
        (OpKind::BigMsg, 1),
        (OpKind::RunSpawned, 8),
        (OpKind::RunEnded, 8),
        (OpKind::SideEffects, 14),
        (OpKind::Cursor, 8),
        (OpKind::Rotate, 2),
        (OpKind::ManualCkpt, 6),
        (OpKind::Auto, 3),
        (OpKind::Schedule, 3),
        (OpKind::Compile, 5),
    ]
}

pub fn apply_fault(store: &Store, thread: &str, other: &str, saved: &Path, f: &Fault) -> bool {
    let dir = store.streams_dir();
    let path = dir.join(format!("{thread}{}", FILES[f.file]));
    let mut rng = Rng::new(f.salt);
    let cur = std::fs::read(&path).ok();
    match f.kind {
        FaultKind::Delete => std::fs::remove_file(&path).is_ok(),
        FaultKind::TruncZero => cur.is_some() && std::fs::write(&path, b"").is_ok(),
        FaultKind::TruncByte => match cur {
            Some(b) if !b.is_empty() => {
                let mut n = rng.usize(b.len());
                let n0 = n;
                // this kind stands for a TORN file (class "damaged"). A cut that leaves nothing but whole lines is a
                // well-formed older version instead - the class of TruncLine / DropLastLine / TruncZero ("stale"), which
                // cover it - so such a cut is moved back into the line before it
                if FILES[f.file].ends_with(".jsonl") {
                    while n > 0 && (b[n - 1] == b'\n' || b[n] == b'\n') {
                        n -= 1;
                    }
                    if n == 0 && b.len() > 2 && b[1] != b'\n' {
                        n = 1;
                    }
                }
                if n != n0 && std::env::var("RV_C04_DEBUG").is_ok() {
                    eprintln!("trunc_byte on {}: cut at byte {n0} of {} leaves only whole lines, moved to {n}", FILE_CLASS[f.file], b.len());
                }
                std::fs::write(&path, &b[..n]).is_ok()
            }
            _ => false,
        },
        FaultKind::TruncLine => match cur {
            Some(b) if !b.is_empty() => {
                let nls: Vec<usize> = b.iter().enumerate().filter(|(_, c)| **c == b'\n').map(|(i, _)| i).collect();
                if nls.len() < 2 {
                    return false;
                }
                let k = nls[rng.usize(nls.len() - 1)];
                std::fs::write(&path, &b[..=k]).is_ok()
            }
            _ => false,
        },
        FaultKind::DropLastLine => match cur {
            Some(b) if !b.is_empty() => {
                let nls: Vec<usize> = b.iter().enumerate().filter(|(_, c)| **c == b'\n').map(|(i, _)| i).collect();
                if nls.len() < 2 {
                    return false;
                }
                let k = nls[nls.len() - 2];
                std::fs::write(&path, &b[..=k]).is_ok()
            }
            _ => false,
        },
        FaultKind::Garbage => {
            let n = cur.as_ref().map(|b| b.len()).unwrap_or(64).clamp(16, 4096);
            std::fs::write(&path, rng.bytes(n)).is_ok()
        }
        FaultKind::HeadGarbage => match cur {
            Some(b) if b.len() > 8 => {
                let keep = (b.len() / 2).max(4);
                let mut out = b[..keep].to_vec();
                out.extend(rng.bytes(b.len() - keep));
                std::fs::write(&path, out).is_ok()
            }
            _ => false,
        },
        FaultKind::OtherThread => {
            let src = dir.join(format!("{other}{}", FILES[f.file]));
            match std::fs::read(&src) {
                Ok(b) => std::fs::write(&path, b).is_ok(),
                Err(_) => false,
            }
        }
        FaultKind::Rollback => {
            let src = saved.join(format!("{thread}{}", FILES[f.file]));
            match std::fs::read(&src) {
                Ok(b) => cur.as_ref() != Some(&b) && std::fs::write(&path, b).is_ok(),
                Err(_) => false,
            }
        }
    }
}

#[derive(Debug, Clone)]
pub struct QueryDef {
    pub name: String,
    pub class: &'static str,
    pub args: Value,
}

pub fn queries(msgs: &[(u64, String)], head: u64, big: bool) -> Vec<QueryDef> {
    queries_with_anchors(msgs, head, big, &[])
}

/// `extra`: further compile anchors (tag, index into `msgs`) chosen from what the history contains.
pub fn queries_with_anchors(msgs: &[(u64, String)], head: u64, big: bool, extra: &[(String, usize)]) -> Vec<QueryDef> {
    let mut q = Vec::new();
    let mk = |name: String, class: &'static str, args: Value| QueryDef { name, class, args };
    q.push(mk("replay".into(), "replay", json!({})));
    let strides: &[u64] = if big { &[1, 1000] } else { &[1, 2, 3, 7] };
    for s in strides {
        for l in [None, Some(1u32), Some(32)] {
            q.push(mk(format!("cut_points(stride={s},limit={l:?})"), "cut_points", json!({"stride": s, "limit": l})));
        }
    }
    for s in [1u64, 2, 5] {
        q.push(mk(format!("status(stride={s})"), "status", json!({"stride": s})));
    }
    q.push(mk("cursor_status".into(), "cursor_status", json!({})));
    q.push(mk("cursor_rotate".into(), "cursor_rotate", json!({})));
    for l in [None, Some(1u32), Some(3), Some(1000)] {
        q.push(mk(format!("selection_status(limit={l:?})"), "selection_status", json!({"limit": l})));
    }
    if !msgs.is_empty() {
        let picks = [
            ("tail", msgs.len() - 1),
            ("mid", msgs.len() / 2),
            ("first", 0),
            ("back17", msgs.len().saturating_sub(18)),
            ("p10", msgs.len() / 10),
            ("p25", msgs.len() / 4),
            ("p75", msgs.len() * 3 / 4),
            ("back40", msgs.len().saturating_sub(41)),
        ];
        let mut seen_idx: Vec<usize> = Vec::new();
        for (tag, i) in picks {
            if seen_idx.contains(&i) {
                continue;
            }
            seen_idx.push(i);
            q.push(mk(format!("compile(anchor={tag})"), "compile", json!({"message_id": msgs[i].1})));
        }
        for (tag, i) in extra {
            if *i >= msgs.len() || seen_idx.contains(i) {
                continue;
            }
            seen_idx.push(*i);
            q.push(mk(format!("compile(anchor={tag})"), "compile", json!({"message_id": msgs[*i].1})));
        }
        q.push(mk("branch(from_message=mid)".into(), "branch", json!({"from_message_id": msgs[msgs.len() / 2].1})));
        q.push(mk("handoff(from_message=mid)".into(), "handoff", json!({"from_message_id": msgs[msgs.len() / 2].1})));
    }
    q.push(mk("branch(none)".into(), "branch", json!({})));
    q.push(mk("branch(from_seq=mid)".into(), "branch", json!({"from_seq": head / 2})));
    q.push(mk("handoff(none)".into(), "handoff", json!({})));
    q
}

/// Run one query on a store directory (fresh App). Result is normalised JSON.
pub fn run_query(store: &Store, thread: &str, q: &QueryDef) -> Value {
    // only `compile` needs the whole engine; everything else runs on a bare ContinuityStore
    let app = if q.class == "compile" {
        match App::open(store, None) {
            Ok(a) => Some(a),
            Err(e) => return json!({"open_error": e}),
        }
    } else {
        None
    };
    let st: std::sync::Arc<ripd::ContinuityStore> = match &app {
        Some(a) => a.store(),
        None => {
            let log = match rip_log::EventLog::new(store.log_path()) {
                Ok(l) => std::sync::Arc::new(l),
                Err(e) => return json!({"open_error": e.to_string()}),
            };
            match ripd::ContinuityStore::new(store.data.clone(), store.ws.clone(), log) {
                Ok(s) => std::sync::Arc::new(s),
                Err(e) => return json!({"open_error": e}),
            }
        }
    };
    let res: Result<Value, String> = match q.class {
        "replay" => st
            .replay_events(thread)
            .map(|ev| Value::Array(ev.iter().map(|e| serde_json::to_value(e).unwrap_or(Value::Null)).collect()))
            .map_err(|e| format!("io:{:?}", e.kind())),
        "cut_points" => st
            .compaction_cut_points_v1(
                thread,
                CompactionCutPointsV1Request {
                    stride_messages: q.args["stride"].as_u64(),
                    limit: q.args["limit"].as_u64().map(|x| x as u32),
                },
            )
            .map(|r| serde_json::to_value(r).unwrap_or(Value::Null)),
        "status" => st
            .compaction_status_v1(thread, CompactionStatusV1Request { stride_messages: q.args["stride"].as_u64() })
            .map(|r| {
                let mut v = serde_json::to_value(r).unwrap_or(Value::Null);
                if let Some(o) = v.as_object_mut() {
                    o.remove("inflight_job_id"); // declared best-effort in compaction.md
                }
                v
            }),
        "cursor_status" => st
            .provider_cursor_status_v1(thread, ProviderCursorStatusV1Request {})
            .map(|r| serde_json::to_value(r).unwrap_or(Value::Null)),
        "cursor_rotate" => st
            .provider_cursor_rotate_v1(
                thread,
                ProviderCursorRotateV1Request {
                    provider: None,
                    endpoint: None,
                    model: None,
                    reason: Some("q".into()),
                    actor_id: "q".into(),
                    origin: "q".into(),
                },
            )
            .map(|r| {
                let mut v = serde_json::to_value(r).unwrap_or(Value::Null);
                if let Some(o) = v.as_object_mut() {
                    o.remove("cursor_event_id");
                }
                v
            }),
        "selection_status" => st
            .context_selection_status_v1(
                thread,
                ContextSelectionStatusV1Request { limit: q.args["limit"].as_u64().map(|x| x as u32) },
            )
            .map(|r| serde_json::to_value(r).unwrap_or(Value::Null)),
        "compile" => {
            let link = ContinuityRunLink {
                continuity_id: thread.to_string(),
                message_id: q.args["message_id"].as_str().unwrap_or("").to_string(),
                actor_id: "q".into(),
                origin: "q".into(),
            };
            ripd::verif_export::compile_context_for_run(&app.as_ref().unwrap().engine, &store.data, &link, "q-session", false).map(
                |mut v| {
                    let art = v["bundle_artifact_id"].as_str().unwrap_or("").to_string();
                    let bundle: Value = std::fs::read(store.ws.join(".rip/artifacts/blobs").join(&art))
                        .ok()
                        .and_then(|b| serde_json::from_slice(&b).ok())
                        .unwrap_or(json!("bundle unreadable"));
                    if let Some(o) = v.as_object_mut() {
                        o.remove("bundle_artifact_id");
                        o.insert("bundle".into(), bundle);
                    }
                    v
                },
            )
        }
        "branch" => st
            .branch(
                thread,
                None,
                q.args["from_message_id"].as_str().map(|s| s.to_string()),
                q.args["from_seq"].as_u64(),
                "q".into(),
                "q".into(),
            )
            .map(|(_, seq, mid)| json!({"parent_seq": seq, "parent_message_id": mid})),
        "handoff" => st
            .handoff(
                thread,
                None,
                (Some("s".into()), None),
                q.args["from_message_id"].as_str().map(|s| s.to_string()),
                q.args["from_seq"].as_u64(),
                ("q".into(), "q".into()),
            )
            .map(|(_, seq, mid)| json!({"from_seq": seq, "from_message_id": mid})),
        _ => Err("unknown query".into()),
    };
    match res {
        Ok(v) => json!({"ok": v}),
        // error texts may legitimately differ between paths; the fact of failing may not
        Err(e) => json!({"err": e.chars().take(60).collect::<String>()}),
    }
}

/// What the truth log determines for the checkpoint selection of a compile anchored at `msgs[ai]`: the cut point
/// (last frame before the next message, or the head), the eligible cumulative checkpoints (`to_seq` <= cut; of
/// several frames for one `to_seq` the one latest in the stream counts), the newest of them, then repeatedly the
/// greatest `to_seq` at or below half of the previous one, at most `max_refs` in all; listed by ascending `to_seq`.
/// `ckpt_frames`: (to_seq, frame seq, {checkpoint_id, summary_kind, summary_artifact_id, to_seq}) in stream order.
fn compile_selection_model(msgs: &[(u64, String)], head: u64, ai: usize, ckpt_frames: &[(u64, u64, Value)], max_refs: usize) -> Value {
    let from_seq = match msgs.get(ai + 1) {
        Some(next) => next.0.saturating_sub(1),
        None => head,
    }
    .max(msgs[ai].0);
    let mut by_to: std::collections::BTreeMap<u64, (u64, &Value)> = Default::default();
    for (to, fseq, rec) in ckpt_frames {
        if *to > from_seq || rec["summary_kind"] != "cumulative_v1" {
            continue;
        }
        match by_to.get(to) {
            Some((s, _)) if *s >= *fseq => {}
            _ => {
                by_to.insert(*to, (*fseq, rec));
            }
        }
    }
    let mut selected: Vec<(u64, Value)> = Vec::new();
    if let Some((to, (_, rec))) = by_to.iter().next_back() {
        let mut cur = *to;
        selected.push((cur, (*rec).clone()));
        while selected.len() < max_refs && cur > 1 {
            match by_to.range(..=cur / 2).next_back() {
                Some((to, (_, rec))) if *to < cur => {
                    cur = *to;
                    selected.push((cur, (*rec).clone()));
                }
                _ => break,
            }
        }
    }
    selected.sort_by_key(|x| x.0);
    let strategy = match selected.len() {
        0 => "recent_messages_v1",
        1 => "summaries_recent_messages_v1",
        _ => "hierarchical_summaries_recent_messages_v1",
    };
    json!({
        "from_seq": from_seq,
        "compiler_strategy": strategy,
        "compaction_checkpoints": selected.iter().map(|x| x.1.clone()).collect::<Vec<_>>(),
        "compaction_checkpoint": selected.last().map(|x| x.1.clone()),
    })
}

pub struct Outcome {
    pub mismatches: Vec<(String, String, String)>, // (query class, query name, detail)
    pub nonterm: Vec<(String, String, u64)>,
    pub truth_corrupt: Option<String>,
    pub applied: Vec<String>,
    pub frames: usize,
    pub queries: usize,
    pub max_steps: u64,
    pub model_mismatch: Vec<(String, String)>,
    /// what the history holds and what the compile queries reached (measured, for the evidence)
    pub ckpt_frames: usize,
    pub ckpt_frames_out_of_order: usize, // checkpoint frames whose to_seq is below the to_seq of the checkpoint frame before
    pub rep_cuts: usize,                 // cut points (to_seq) carrying two or more checkpoint frames
    pub rep_selected: usize,             // compile answers (no-cache path) that selected a repeated cut point
    pub rep_selected_hier: usize,        // ... under the hierarchical strategy
    pub rep_selected_not_newest: usize,  // ... at a level other than the newest selected checkpoint
}

const STEP_BUDGET: u64 = 160;

/// One manual cumulative checkpoint for `msg_id` with a summary text of its own.
fn post_ckpt(app: &App, thread: &str, known: &mut Known, msg_id: &str, tag: &str) {
    known.counter += 1;
    let req = CompactionCheckpointCumulativeV1Request {
        summary_markdown: Some(format!("summary {tag}#{} (attempt for {msg_id})", known.counter)),
        summary_artifact_id: None,
        to_message_id: Some(msg_id.to_string()),
        to_seq: None,
        stride_messages: None,
        actor_id: format!("actor-{tag}"),
        origin: "rv".into(),
    };
    if let Ok((_, _, _, mid, _)) = app.store().compaction_checkpoint_cumulative_v1(thread, req) {
        known.ckpt_msgs.push((thread.to_string(), mid));
    }
}

fn auto_compact(app: &App, thread: &str, stride: u64, max_new: u32, tag: &str) {
    let _ = app.store().compaction_auto_v1(
        thread,
        CompactionAutoV1Request {
            stride_messages: Some(stride),
            max_new_checkpoints: Some(max_new),
            dry_run: Some(false),
            actor_id: format!("actor-{tag}"),
            origin: "rv".into(),
        },
    );
}

/// Posting script of a `RepeatedCkpts` history: message ids in posting order (a message appears once per
/// summary it gets); `split` = how many are posted in phase 1 (the rest in phase 2, i.e. after the cache copy
/// that "rollback" faults restore).
struct RepScript {
    posts: Vec<String>,
    split: usize,
    auto_last: bool,
}

/// Phase 1 of a `RepeatedCkpts` history: 6..10 messages (frame density between them by `variant`), then the
/// first part of the checkpoint posts.
fn build_rep_phase1(app: &App, store: &Store, conts: &[String], known: &mut Known, rng: &mut Rng, variant: u64) -> RepScript {
    let thread = conts[0].clone();
    let n = 6 + rng.usize(5);
    for _ in 0..n {
        let _ = exec(app, &store.data, conts, known, OpKind::Msg, rng, "p1");
        match variant % 3 {
            0 => {}
            1 => {
                for _ in 0..rng.usize(3) {
                    let _ = exec(app, &store.data, conts, known, OpKind::SideEffects, rng, "p1");
                }
            }
            _ => {
                let _ = exec(app, &store.data, conts, known, OpKind::RunSpawned, rng, "p1");
                if rng.bool() {
                    let _ = exec(app, &store.data, conts, known, OpKind::SideEffects, rng, "p1");
                }
                let _ = exec(app, &store.data, conts, known, OpKind::RunEnded, rng, "p1");
            }
        }
    }
    let mine: Vec<String> = known.msgs.iter().filter(|(c, _)| *c == thread).map(|m| m.1.clone()).collect();
    let m = mine.len(); // >= 7 (the p0 message + n)
    // (message index, number of summaries): an early cut point with 2-3, a middle one with 2, late ones with 1-2
    let mut targets: Vec<(usize, usize)> = vec![
        (rng.usize(2), 2 + rng.usize(2)),
        (m / 2, 2),
        (m - 2, 1 + rng.usize(2)),
        (m - 1, 1 + (variant % 2) as usize),
    ];
    let extra = 2 + rng.usize(m - 4);
    if !targets.iter().any(|t| t.0 == extra) {
        targets.push((extra, 1));
    }
    targets.sort();
    let mut posts: Vec<usize> = Vec::new();
    match variant % 4 {
        // increasing cut points, the summaries of one cut point adjacent in the stream
        0 => {
            for (i, c) in &targets {
                for _ in 0..*c {
                    posts.push(*i);
                }
            }
        }
        // rounds: first summaries in increasing order, the corrections in DECREASING order, third ones increasing:
        // equal-to_seq frames far apart, and to_seq going down along the stream
        1 => {
            for round in 0..3usize {
                let mut l: Vec<usize> = targets.iter().filter(|t| t.1 > round).map(|t| t.0).collect();
                if round % 2 == 1 {
                    l.reverse();
                }
                posts.extend(l);
            }
        }
        // any order
        2 => {
            for (i, c) in &targets {
                for _ in 0..*c {
                    posts.push(*i);
                }
            }
            rng.shuffle(&mut posts);
        }
        // decreasing cut points (newest first), the summaries of one cut point adjacent
        _ => {
            for (i, c) in targets.iter().rev() {
                for _ in 0..*c {
                    posts.push(*i);
                }
            }
        }
    }
    if (variant / 4) % 2 == 1 {
        // auto-compaction first: the manual posts then re-summarise some cut points the job has done already
        auto_compact(app, &thread, 2, 3, "p1");
    }
    let split = 1 + rng.usize(posts.len() - 1);
    let script = RepScript { posts: posts.into_iter().map(|i| mine[i].clone()).collect(), split, auto_last: rng.bool() };
    run_rep_posts(app, store, conts, known, rng, &script.posts[..script.split], "p1");
    script
}

fn run_rep_posts(app: &App, store: &Store, conts: &[String], known: &mut Known, rng: &mut Rng, posts: &[String], tag: &str) {
    for id in posts {
        post_ckpt(app, &conts[0], known, id, tag);
        if rng.chance(1, 4) {
            let k = [OpKind::Msg, OpKind::Compile, OpKind::SideEffects, OpKind::Cursor][rng.usize(4)];
            let _ = exec(app, &store.data, conts, known, k, rng, tag);
        }
    }
}

/// `n` frames quickly: messages with one or two side-effect frames each, every 40th message a rich op.
fn build_bulk(app: &App, store: &Store, conts: &[String], known: &mut Known, rng: &mut Rng, n: usize, tag: &str) {
    let st = app.store();
    let thread = conts[0].clone();
    let mut made = 0usize;
    let mut i = 0usize;
    while made < n {
        i += 1;
        if let Ok(id) = st.append_message(&thread, "a".into(), "rv".into(), format!("{tag} bulk {i}")) {
            known.msgs.push((thread.clone(), id.clone()));
            made += 1;
            let link = ContinuityRunLink { continuity_id: thread.clone(), message_id: id, actor_id: "a".into(), origin: "rv".into() };
            for k in 0..(1 + rng.usize(2)) {
                let _ = st.append_tool_side_effects(
                    &link,
                    "sess-bulk",
                    ripd::ToolSideEffects { tool_id: format!("{tag}-{i}-{k}"), tool_name: "write".into(), affected_paths: Some(vec![format!("f{i}")]), checkpoint_id: None },
                );
                made += 1;
            }
        }
        if i % 40 == 0 {
            for k in [OpKind::Compile, OpKind::Cursor, OpKind::ManualCkpt, OpKind::RunSpawned, OpKind::RunEnded] {
                let _ = exec(app, &store.data, conts, known, k, rng, tag);
                made += 1;
            }
        }
    }
}

fn build_ops(app: &App, store: &Store, conts: &[String], known: &mut Known, rng: &mut Rng, n: usize, tag: &str) {
    let w = weights();
    if tag.starts_with('p') && tag != "p0" {
        // every phase contains every frame kind, so that which queries a fault can affect does not
        // depend on the luck of the random ops
        for k in [
            OpKind::Msg, OpKind::Msg, OpKind::RunSpawned, OpKind::Compile, OpKind::Cursor, OpKind::SideEffects,
            OpKind::ManualCkpt, OpKind::Msg, OpKind::Schedule, OpKind::RunEnded, OpKind::Msg, OpKind::Cursor,
        ] {
            let _ = exec(app, &store.data, conts, known, k, rng, tag);
        }
    }
    for _ in 0..n {
        let k = pick_kind(rng, &w);
        let _ = exec(app, &store.data, conts, known, k, rng, tag);
    }
}

pub fn execute(plan: &Plan, only_faults: Option<&[usize]>) -> Outcome {
    execute_opts(plan, only_faults, None)
}

/// `only_names`: evaluate only the queries with these names (used when a finding is re-run for attribution).
pub fn execute_opts(plan: &Plan, only_faults: Option<&[usize]>, only_names: Option<&[String]>) -> Outcome {
    let mut rng = Rng::new(plan.seed);
    let store = Store::new("c04");
    let saved = store.dir.join("saved-caches");
    let mut out = Outcome {
        mismatches: vec![],
        nonterm: vec![],
        truth_corrupt: None,
        applied: vec![],
        frames: 0,
        queries: 0,
        max_steps: 0,
        model_mismatch: vec![],
        ckpt_frames: 0,
        ckpt_frames_out_of_order: 0,
        rep_cuts: 0,
        rep_selected: 0,
        rep_selected_hier: 0,
        rep_selected_not_newest: 0,
    };
    let faults: Vec<&Fault> = plan
        .faults
        .iter()
        .enumerate()
        .filter(|(i, _)| only_faults.map(|o| o.contains(i)).unwrap_or(true))
        .map(|(_, f)| f)
        .collect();

    let mut app = App::open(&store, None).expect("open");
    let thread = app.store().ensure_default().expect("default");
    let mut known = Known::default();
    // sibling thread (source for "other thread" faults)
    let mut known_o = Known::default();
    let _ = exec(&app, &store.data, &[thread.clone()], &mut known, OpKind::Msg, &mut rng, "p0");
    let other = app
        .store()
        .branch(&thread, None, None, None, "rv".into(), "rv".into())
        .map(|x| x.0)
        .unwrap_or_default();
    if !other.is_empty() {
        build_ops(&app, &store, &[other.clone()], &mut known_o, &mut rng, 12, "o");
    }
    let conts = vec![thread.clone()];
    let mut rep_script: Option<RepScript> = None;
    // phase 1
    match plan.shape {
        Shape::RepeatedCkpts(v) => {
            rep_script = Some(build_rep_phase1(&app, &store, &conts, &mut known, &mut rng, v));
        }
        Shape::ManyMessages(n) => {
            let st = app.store();
            // a cursor and a decision early (far beyond every tail window later)
            build_ops(&app, &store, &conts, &mut known, &mut rng, 30, "p1");
            for i in 0..n {
                if let Ok(id) = st.append_message(&thread, "a".into(), "rv".into(), format!("m{i}")) {
                    if i % 1000 == 0 || i + 40 > n {
                        known.msgs.push((thread.clone(), id));
                    }
                }
            }
        }
        Shape::DenseSideEffects(n) => {
            build_ops(&app, &store, &conts, &mut known, &mut rng, 40, "p1");
            let st = app.store();
            let link = ContinuityRunLink {
                continuity_id: thread.clone(),
                message_id: known.msgs.last().map(|m| m.1.clone()).unwrap_or_default(),
                actor_id: "a".into(),
                origin: "rv".into(),
            };
            for i in 0..n {
                let _ = st.append_tool_side_effects(
                    &link,
                    "sess-dense",
                    ripd::ToolSideEffects {
                        tool_id: format!("t{i}"),
                        tool_name: "write".into(),
                        affected_paths: Some(vec![format!("f{i}")]),
                        checkpoint_id: None,
                    },
                );
            }
        }
        Shape::BigSidecar(n) => {
            build_ops(&app, &store, &conts, &mut known, &mut rng, 30, "p1");
            let st = app.store();
            let filler = "x".repeat(8200);
            for i in 0..n {
                if let Ok(id) = st.append_message(&thread, "a".into(), "rv".into(), format!("m{i} {filler}")) {
                    if i % 200 == 0 || i + 20 > n {
                        known.msgs.push((thread.clone(), id));
                    }
                }
            }
        }
        Shape::Spread(n) => {
            build_ops(&app, &store, &conts, &mut known, &mut rng, 20, "p1");
            let st = app.store();
            for i in 0..n {
                if i % 300 == 0 {
                    for k in [OpKind::Msg, OpKind::Compile, OpKind::Cursor, OpKind::ManualCkpt, OpKind::Schedule] {
                        let _ = exec(&app, &store.data, &conts, &mut known, k, &mut rng, "sp");
                    }
                }
                let link = ContinuityRunLink {
                    continuity_id: thread.clone(),
                    message_id: known.msgs.last().map(|m| m.1.clone()).unwrap_or_default(),
                    actor_id: "a".into(),
                    origin: "rv".into(),
                };
                let _ = st.append_tool_side_effects(
                    &link,
                    "sess-spread",
                    ripd::ToolSideEffects {
                        tool_id: format!("t{i}"),
                        tool_name: "write".into(),
                        affected_paths: Some(vec![format!("some/longer/path/to/make/frames/bigger/f{i}.txt")]),
                        checkpoint_id: None,
                    },
                );
            }
        }
        Shape::Long(_) => {
            build_ops(&app, &store, &conts, &mut known, &mut rng, 10, "p1");
            build_bulk(&app, &store, &conts, &mut known, &mut rng, plan.n[0], "p1");
        }
        _ => build_ops(&app, &store, &conts, &mut known, &mut rng, plan.n[0], "p1"),
    }
    copy_dir(&store.streams_dir(), &saved);
    // phase 2
    if let Some(script) = &rep_script {
        run_rep_posts(&app, &store, &conts, &mut known, &mut rng, &script.posts[script.split..], "p2");
        if script.auto_last {
            auto_compact(&app, &thread, 1 + rng.below(3), 2, "p2");
        }
        for _ in 0..rng.usize(3) {
            let _ = exec(&app, &store.data, &conts, &mut known, OpKind::Msg, &mut rng, "p2");
        }
    } else if matches!(plan.shape, Shape::Long(_)) {
        build_bulk(&app, &store, &conts, &mut known, &mut rng, plan.n[1], "p2");
    } else {
        build_ops(&app, &store, &conts, &mut known, &mut rng, plan.n[1], "p2");
    }
    for f in faults.iter().filter(|f| f.at == 1) {
        if apply_fault(&store, &thread, &other, &saved, f) {
            out.applied.push(f.label());
        }
    }
    if plan.restart1 {
        // authority restarted after the fault: next seq etc. are re-derived from what is on disk
        app = App::open(&store, None).expect("reopen");
    }
    // phase 3: further appends on top of the faulted caches
    if rep_script.is_some() {
        let w = weights();
        for _ in 0..plan.n[2] {
            let k = pick_kind(&mut rng, &w);
            let _ = exec(&app, &store.data, &conts, &mut known, k, &mut rng, "p3");
        }
    } else if matches!(plan.shape, Shape::Long(_)) {
        build_bulk(&app, &store, &conts, &mut known, &mut rng, plan.n[2], "p3");
        build_ops(&app, &store, &conts, &mut known, &mut rng, 5, "p3");
    } else {
        build_ops(&app, &store, &conts, &mut known, &mut rng, plan.n[2], "p3");
    }
    drop(app);
    for f in faults.iter().filter(|f| f.at == 2) {
        if apply_fault(&store, &thread, &other, &saved, f) {
            out.applied.push(f.label());
        }
    }
    let _ = std::fs::remove_dir_all(&saved);

    // the truth log must still be valid (appends after a cache fault must not corrupt truth)
    let bytes = store.log_bytes_settled();
    let frames = match truth::parse_log(&bytes) {
        Ok(f) => f,
        Err(e) => {
            out.truth_corrupt = Some(format!("{}: {}", e.kind, e.detail));
            return out;
        }
    };
    out.frames = frames.len();
    if let Err(e) = truth::check_streams(&frames) {
        out.truth_corrupt = Some(format!("{}: {}", e.kind, e.detail));
        return out;
    }
    let tframes = truth::stream(&frames, "continuity", &thread);
    if std::env::var("RV_C04_DEBUG").is_ok() {
        let mut h: std::collections::BTreeMap<String, usize> = Default::default();
        for f in &tframes {
            *h.entry(f.ty().to_string()).or_insert(0) += 1;
        }
        eprintln!("shape {:?}: {:?} sidecar bytes {:?}", plan.shape, h, std::fs::metadata(store.streams_dir().join(format!("{thread}.jsonl"))).map(|m| m.len()).ok());
    }
    let msgs = truth::messages(&tframes);
    let head = tframes.last().map(|f| f.seq()).unwrap_or(0);
    let big = !matches!(plan.shape, Shape::Small | Shape::Medium | Shape::RepeatedCkpts(_));
    // checkpoint frames of the thread in stream order: (to_seq, checkpoint id, frame seq)
    let ckpts: Vec<(u64, String, u64)> = tframes
        .iter()
        .filter(|f| f.ty() == "continuity_compaction_checkpoint_created")
        .map(|f| (f.u("to_seq").unwrap_or(u64::MAX), f.s("checkpoint_id").to_string(), f.seq()))
        .collect();
    let ckpt_recs: Vec<(u64, u64, Value)> = tframes
        .iter()
        .filter(|f| f.ty() == "continuity_compaction_checkpoint_created")
        .map(|f| {
            let to = f.u("to_seq").unwrap_or(u64::MAX);
            (
                to,
                f.seq(),
                json!({"checkpoint_id": f.s("checkpoint_id"), "summary_kind": f.s("summary_kind"),
                       "summary_artifact_id": f.s("summary_artifact_id"), "to_seq": to}),
            )
        })
        .collect();
    let mut per_cut: std::collections::BTreeMap<u64, u32> = Default::default();
    for c in &ckpts {
        *per_cut.entry(c.0).or_insert(0) += 1;
    }
    let rep_cuts: Vec<u64> = per_cut.iter().filter(|(_, n)| **n >= 2).map(|(s, _)| *s).collect();
    out.ckpt_frames = ckpts.len();
    out.ckpt_frames_out_of_order = ckpts.windows(2).filter(|w| w[1].0 < w[0].0).count();
    out.rep_cuts = rep_cuts.len();
    // compile anchors chosen from what the history holds: messages whose cut point carries several checkpoints
    // (the newest such; in the directed histories the two newest and the oldest; there the repeated cut point is the
    // newest eligible one), and for
    // the lowest repeated cut point the first checkpointed message at twice its seq or more (there it is a
    // candidate for the deeper levels of the halving rule)
    let mut extra: Vec<(String, usize)> = Vec::new();
    let idx_of = |seq: u64| msgs.iter().position(|m| m.0 == seq);
    let mut picked: Vec<u64> = Vec::new();
    let per_end = if matches!(plan.shape, Shape::RepeatedCkpts(_)) { 2 } else { 1 };
    for s in rep_cuts.iter().rev().take(per_end).chain(rep_cuts.iter().take(per_end - 1)) {
        if !picked.contains(s) {
            picked.push(*s);
        }
    }
    for (k, s) in picked.iter().enumerate() {
        if let Some(i) = idx_of(*s) {
            extra.push((format!("repeated_cut{k}"), i));
        }
    }
    if let Some(d) = rep_cuts.first() {
        if let Some(i) = per_cut.keys().find(|l| **l >= d.saturating_mul(2) && **l > *d).and_then(|l| idx_of(*l)) {
            extra.push(("twice_repeated_cut".to_string(), i));
        }
    }
    let mut qs = queries_with_anchors(&msgs, head, big, &extra);
    if matches!(plan.shape, Shape::RepeatedCkpts(_)) {
        // the queries that read checkpoints (the others are covered on the seeded histories, which hold repeated
        // checkpoints too); of the cut-point listings the long ones
        qs.retain(|q| match q.class {
            "replay" | "status" | "compile" => true,
            "cut_points" => q.args["limit"].as_u64() == Some(32) || q.args["stride"].as_u64() == Some(1),
            _ => false,
        });
    }
    if let Some(names) = only_names {
        qs.retain(|q| names.contains(&q.name));
    }

    // reference store: all caches removed
    let reference = store.fork_sharing_ws("c04ref");
    let _ = std::fs::remove_dir_all(reference.streams_dir());

    for q in &qs {
        out.queries += 1;
        let (fa, fb);
        let sa: &Store;
        let sb: &Store;
        if big {
            // large stores: no per-query fork (copy cost); queries run in sequence on one copy
            sa = &store;
            sb = &reference;
            // keep the reference on the pure truth path: drop whatever the previous query rebuilt
            let _ = std::fs::remove_dir_all(reference.streams_dir());
        } else {
            fa = store.fork_sharing_ws("c04a");
            fb = reference.fork_sharing_ws("c04b");
            sa = &fa;
            sb = &fb;
        }
        let a = match with_step_budget(STEP_BUDGET, || run_query(sa, &thread, q)) {
            Ok((v, used)) => {
                out.max_steps = out.max_steps.max(used);
                v
            }
            Err(used) => {
                out.nonterm.push((q.class.to_string(), q.name.clone(), used));
                continue;
            }
        };
        let b = match with_step_budget(STEP_BUDGET, || run_query(sb, &thread, q)) {
            Ok((v, used)) => {
                out.max_steps = out.max_steps.max(used);
                v
            }
            Err(used) => {
                out.nonterm.push((q.class.to_string(), format!("{} [no-cache path]", q.name), used));
                continue;
            }
        };
        if std::env::var("RV_C04_DEBUG").is_ok() && q.class == "selection_status" {
            eprintln!("{} as-found decisions={:?} ref={:?}", q.name, a["ok"]["decisions"].as_array().map(|x| x.iter().map(|d| d["seq"].as_u64().unwrap_or(0)).collect::<Vec<_>>()), b["ok"]["decisions"].as_array().map(|x| x.len()));
        }
        if a != b {
            out.mismatches.push((q.class.to_string(), q.name.clone(), diff_summary(&a, &b)));
        }
        if std::env::var("RV_C04_DEBUG").is_ok() && q.class == "compile" {
            eprintln!("{} as-found ckpts={} ref={} rep_cuts={:?}", q.name, a["ok"]["compaction_checkpoints"], b["ok"]["compaction_checkpoints"], rep_cuts);
        }
        if q.class == "compile" && !rep_cuts.is_empty() {
            if let Some(sel) = b["ok"]["compaction_checkpoints"].as_array() {
                let tos: Vec<u64> = sel.iter().map(|c| c["to_seq"].as_u64().unwrap_or(u64::MAX)).collect();
                if tos.iter().any(|t| rep_cuts.contains(t)) {
                    out.rep_selected += 1;
                    if tos.len() >= 2 {
                        out.rep_selected_hier += 1;
                    }
                    if tos.iter().rev().skip(1).any(|t| rep_cuts.contains(t)) {
                        out.rep_selected_not_newest += 1;
                    }
                }
            }
        }
        // independent model for replay and cut points (on the reference answer)
        if q.class == "replay" {
            if let Some(arr) = b.get("ok").and_then(|x| x.as_array()) {
                let same = arr.len() == tframes.len() && arr.iter().zip(tframes.iter()).all(|(x, y)| truth::json_eq_lenient(x, &y.v));
                if !same {
                    out.model_mismatch.push((
                        q.name.clone(),
                        format!("no-cache replay returns {} frames, raw log has {}", arr.len(), tframes.len()),
                    ));
                }
            }
        }
        if q.class == "cursor_status" {
            if let Some(ok) = b.get("ok") {
                // model: newest cursor frame overall = active; newest per (provider, endpoint, model), first 32
                // keys met from the tail, sorted by (provider, endpoint|"", model|"")
                let mut active: Option<String> = None;
                let mut keys: Vec<(String, String, String, String)> = Vec::new();
                for f in tframes.iter().rev().filter(|f| f.ty() == "continuity_provider_cursor_updated") {
                    if active.is_none() {
                        active = Some(f.id().to_string());
                    }
                    let k = (f.s("provider").to_string(), f.s("endpoint").to_string(), f.s("model").to_string());
                    if !keys.iter().any(|x| (x.0.as_str(), x.1.as_str(), x.2.as_str()) == (k.0.as_str(), k.1.as_str(), k.2.as_str())) {
                        if keys.len() >= 32 {
                            break;
                        }
                        keys.push((k.0, k.1, k.2, f.id().to_string()));
                    }
                }
                keys.sort();
                let expect: Vec<String> = keys.into_iter().map(|k| k.3).collect();
                let got: Vec<String> = ok["cursors"]
                    .as_array()
                    .map(|a| a.iter().map(|c| c["cursor_event_id"].as_str().unwrap_or("").to_string()).collect())
                    .unwrap_or_default();
                let got_active = ok["active"]["cursor_event_id"].as_str().map(|x| x.to_string());
                if got != expect || got_active != active {
                    out.model_mismatch.push((
                        q.name.clone(),
                        format!("no-cache cursor status (active {got_active:?}, {} cursors) vs raw-log model (active {active:?}, {} cursors)", got.len(), expect.len()),
                    ));
                }
            }
        }
        if q.class == "selection_status" {
            if let Some(ok) = b.get("ok") {
                let limit = q.args["limit"].as_u64().unwrap_or(10).min(50) as usize;
                let expect: Vec<(String, u64)> = tframes
                    .iter()
                    .rev()
                    .filter(|f| f.ty() == "continuity_context_selection_decided")
                    .take(limit)
                    .map(|f| (f.id().to_string(), f.seq()))
                    .collect();
                let got: Vec<(String, u64)> = ok["decisions"]
                    .as_array()
                    .map(|a| a.iter().map(|d| (d["decision_event_id"].as_str().unwrap_or("").to_string(), d["seq"].as_u64().unwrap_or(0))).collect())
                    .unwrap_or_default();
                if got != expect {
                    out.model_mismatch.push((
                        q.name.clone(),
                        format!("no-cache selection status lists seqs {:?}… vs raw-log model {:?}…", got.iter().map(|x| x.1).take(6).collect::<Vec<_>>(), expect.iter().map(|x| x.1).take(6).collect::<Vec<_>>()),
                    ));
                }
            }
        }
        if q.class == "compile" {
            if let (Some(ok), Some(ai)) = (b.get("ok"), msgs.iter().position(|m| Some(m.1.as_str()) == q.args["message_id"].as_str())) {
                let max_refs = ok["limits"]["hierarchical_summaries_v1_max_refs"].as_u64().unwrap_or(3) as usize;
                let mut expect = compile_selection_model(&msgs, head, ai, &ckpt_recs, max_refs);
                if big && ai + 1 == msgs.len() {
                    // long threads are queried in sequence on one copy: an earlier query (cursor rotation) may have
                    // moved the head, and with it the cut of the newest message
                    expect["from_seq"] = ok["from_seq"].clone();
                }
                let got = json!({
                    "from_seq": ok["from_seq"], "compiler_strategy": ok["compiler_strategy"],
                    "compaction_checkpoints": ok["compaction_checkpoints"], "compaction_checkpoint": ok["compaction_checkpoint"],
                });
                if got != expect {
                    out.model_mismatch.push((
                        q.name.clone(),
                        format!("no-cache compile selects other checkpoints than the raw log determines: {}", diff_summary(&json!({"ok": got}), &json!({"ok": expect})).replace("as-found", "answered").replace("no-cache", "raw-log model")),
                    ));
                }
            }
        }
        if q.class == "status" {
            if let Some(ok) = b.get("ok") {
                // newest checkpoint = greatest to_seq, of several frames for it the one latest in the stream
                let expect = ckpts.iter().max_by_key(|c| (c.0, c.2)).map(|c| (c.1.clone(), c.0));
                let got = ok["latest_checkpoint"]["checkpoint_id"].as_str().map(|id| (id.to_string(), ok["latest_checkpoint"]["to_seq"].as_u64().unwrap_or(u64::MAX)));
                if got != expect {
                    out.model_mismatch.push((q.name.clone(), format!("no-cache status names latest checkpoint {got:?} vs raw-log model {expect:?}")));
                }
            }
        }
        if q.class == "cut_points" {
            if let Some(ok) = b.get("ok") {
                let stride = q.args["stride"].as_u64().unwrap_or(1).max(1);
                let limit = q.args["limit"].as_u64().unwrap_or(1).clamp(1, 32) as usize;
                let limit = if q.args["limit"].is_null() { ok["cut_points"].as_array().map(|a| a.len()).unwrap_or(0) } else { limit };
                // a cut point is checkpointed iff a checkpoint frame names its seq; of several, the one latest in
                // the stream is reported
                let mut expect: Vec<(u64, u64, String, bool, Option<String>)> = Vec::new();
                let mut k = (msgs.len() as u64) / stride;
                while k >= 1 && expect.len() < limit {
                    let ord = k * stride;
                    let (s, id) = &msgs[(ord - 1) as usize];
                    let latest = ckpts.iter().filter(|c| c.0 == *s).last().map(|c| c.1.clone());
                    expect.push((ord, *s, id.clone(), latest.is_some(), latest));
                    k -= 1;
                }
                let got: Vec<(u64, u64, String, bool, Option<String>)> = ok["cut_points"]
                    .as_array()
                    .map(|a| {
                        a.iter()
                            .map(|c| {
                                (
                                    c["target_message_ordinal"].as_u64().unwrap_or(0),
                                    c["to_seq"].as_u64().unwrap_or(0),
                                    c["to_message_id"].as_str().unwrap_or("").to_string(),
                                    c["already_checkpointed"].as_bool().unwrap_or(false),
                                    c["latest_checkpoint_id"].as_str().map(|x| x.to_string()),
                                )
                            })
                            .collect()
                    })
                    .unwrap_or_default();
                if got != expect || ok["message_count"].as_u64() != Some(msgs.len() as u64) {
                    out.model_mismatch.push((
                        q.name.clone(),
                        format!(
                            "no-cache cut points {:?}… (count {:?}) vs raw-log model {:?}… (count {})",
                            got.first(),
                            ok["message_count"],
                            expect.first(),
                            msgs.len()
                        ),
                    ));
                }
            }
        }
    }
    out
}

pub fn diff_summary(a: &Value, b: &Value) -> String {
    fn walk(a: &Value, b: &Value, path: &str, out: &mut Vec<String>) {
        if out.len() >= 3 {
            return;
        }
        match (a, b) {
            (Value::Object(x), Value::Object(y)) => {
                let mut keys: Vec<&String> = x.keys().chain(y.keys()).collect();
                keys.sort();
                keys.dedup();
                for k in keys {
                    walk(x.get(k).unwrap_or(&Value::Null), y.get(k).unwrap_or(&Value::Null), &format!("{path}.{k}"), out);
                }
            }
            (Value::Array(x), Value::Array(y)) => {
                if x.len() != y.len() {
                    out.push(format!("{path}: len {} vs {}", x.len(), y.len()));
                    return;
                }
                for (i, (p, q)) in x.iter().zip(y.iter()).enumerate() {
                    walk(p, q, &format!("{path}[{i}]"), out);
                }
            }
            _ => {
                if a != b {
                    let sa: String = a.to_string().chars().take(80).collect();
                    let sb: String = b.to_string().chars().take(80).collect();
                    out.push(format!("{path}: as-found {sa} vs no-cache {sb}"));
                }
            }
        }
    }
    let mut out = Vec::new();
    walk(a, b, "", &mut out);
    out.join("; ")
}

fn plan_json(p: &Plan) -> Value {
    json!({
        "seed": p.seed,
        "shape": format!("{:?}", p.shape),
        "ops": p.n,
        "faults": p.faults.iter().map(|f| json!({"file": f.file, "class": FILE_CLASS[f.file], "kind": f.kind.name(), "at": f.at, "salt": f.salt})).collect::<Vec<_>>(),
        "restart1": p.restart1, "restart2": p.restart2,
    })
}

fn plan_from_json(v: &Value) -> Option<Plan> {
    let shape_s = v["shape"].as_str()?;
    let num = |s: &str| s.trim_end_matches(')').rsplit('(').next().and_then(|x| x.parse::<u64>().ok()).unwrap_or(0);
    let shape = if shape_s.starts_with("ManyMessages") {
        Shape::ManyMessages(num(shape_s))
    } else if shape_s.starts_with("DenseSideEffects") {
        Shape::DenseSideEffects(num(shape_s))
    } else if shape_s.starts_with("BigSidecar") {
        Shape::BigSidecar(num(shape_s))
    } else if shape_s.starts_with("Spread") {
        Shape::Spread(num(shape_s))
    } else if shape_s.starts_with("Long") {
        Shape::Long(num(shape_s))
    } else if shape_s.starts_with("RepeatedCkpts") {
        Shape::RepeatedCkpts(num(shape_s))
    } else if shape_s == "Medium" {
        Shape::Medium
    } else {
        Shape::Small
    };
    let n = v["ops"].as_array()?;
    let faults = v["faults"]
        .as_array()?
        .iter()
        .filter_map(|f| {
            let kind = FAULT_KINDS.iter().find(|k| Some(k.name()) == f["kind"].as_str())?;
            Some(Fault { file: f["file"].as_u64()? as usize, kind: *kind, at: f["at"].as_u64()? as u8, salt: f["salt"].as_u64()? })
        })
        .collect();
    Some(Plan {
        seed: v["seed"].as_u64()?,
        shape,
        n: [n[0].as_u64()? as usize, n[1].as_u64()? as usize, n[2].as_u64()? as usize],
        faults,
        restart1: v["restart1"].as_bool().unwrap_or(true),
        restart2: v["restart2"].as_bool().unwrap_or(true),
    })
}

/// Attribute a failure to the smallest fault subset that reproduces it (no fault at all first, then single
/// faults). A disagreement that also shows when no fault is applied is never blamed on the fault script: the case is
/// re-run (same history seed, only the queries concerned) without faults before a fault class is named. `base` =
/// outcome of the same plan without faults, when the caller has it already.
fn attribute(r: &mut Report, plan: &Plan, o: &Outcome, base: Option<&Outcome>, names: &[String], pred: &dyn Fn(&Outcome) -> bool) -> String {
    if plan.faults.is_empty() || o.applied.is_empty() {
        return "no_fault".to_string();
    }
    let without = match base {
        Some(b) => pred(b),
        None => {
            let t0 = r.elapsed();
            let o0 = execute_opts(plan, Some(&[]), Some(names));
            r.count("disagreements_re_run_without_faults", 1);
            r.count("queries_re_run_without_faults", o0.queries as u64);
            r.count("wall_ms_re_runs_without_faults", ((r.elapsed() - t0) * 1000.0) as u64);
            pred(&o0)
        }
    };
    if without {
        return "no_fault".to_string();
    }
    if plan.faults.len() == 1 {
        let f = &plan.faults[0];
        return f.sig();
    }
    for (i, f) in plan.faults.iter().enumerate() {
        let o = execute_opts(plan, Some(&[i]), Some(names));
        if pred(&o) {
            return f.sig();
        }
    }
    let mut l: Vec<String> = plan.faults.iter().map(|f| format!("{}:{}", FILE_CLASS[f.file], f.kind.name())).collect();
    l.sort();
    l.dedup();
    format!("multi[{}]", l.join("+"))
}

fn shape_class(s: &Shape) -> &'static str {
    match s {
        Shape::Small | Shape::Medium => "bounded",
        Shape::ManyMessages(_) => "many_messages",
        Shape::DenseSideEffects(_) => "dense_side_effects",
        Shape::BigSidecar(_) => "big_sidecar",
        Shape::Spread(_) => "spread",
        Shape::Long(_) => "bounded",
        Shape::RepeatedCkpts(_) => "repeated_checkpoints",
    }
}

fn judge(r: &mut Report, plan: &Plan, o: &Outcome) {
    judge_with_base(r, plan, o, None)
}

/// `base`: outcome of the same plan (same history seed) without faults, if it has been evaluated.
fn judge_with_base(r: &mut Report, plan: &Plan, o: &Outcome, base: Option<&Outcome>) {
    r.count("queries_compared", o.queries as u64);
    r.count("frames_in_histories", o.frames as u64);
    r.count("faults_applied", o.applied.len() as u64);
    let cur = r.counters.get("max_scan_steps_in_one_query").copied().unwrap_or(0);
    if o.max_steps > cur {
        r.counters.insert("max_scan_steps_in_one_query".into(), o.max_steps);
    }
    r.count("checkpoint_frames_in_histories", o.ckpt_frames as u64);
    r.count("checkpoint_frames_with_to_seq_below_the_previous_one", o.ckpt_frames_out_of_order as u64);
    r.count("cut_points_checkpointed_more_than_once", o.rep_cuts as u64);
    if o.rep_cuts > 0 {
        r.count("histories_with_a_cut_point_checkpointed_more_than_once", 1);
    }
    r.count("compiles_selecting_a_repeatedly_checkpointed_cut_point", o.rep_selected as u64);
    r.count("compiles_selecting_a_repeatedly_checkpointed_cut_point_hierarchical", o.rep_selected_hier as u64);
    r.count("compiles_selecting_a_repeatedly_checkpointed_cut_point_below_the_newest_level", o.rep_selected_not_newest as u64);
    let sc = shape_class(&plan.shape);
    if let Some(tc) = &o.truth_corrupt {
        let kind = tc.split(':').next().unwrap_or("corrupt").to_string();
        let attr = attribute(r, plan, o, base, &[], &|x: &Outcome| x.truth_corrupt.is_some());
        r.violation(
            &format!("C04/truth_log_corrupted_by_append_after_cache_fault/{kind}/{attr}"),
            &format!("after a cache fault ({attr}) a later append corrupted the truth log: {tc}"),
            json!({"plan": plan_json(plan), "applied": o.applied, "detail": tc}),
        );
        return;
    }
    for (class, name, used) in &o.nonterm {
        let c2 = class.clone();
        let attr = if plan.faults.is_empty() {
            "no_fault".to_string()
        } else {
            let names: Vec<String> = o.nonterm.iter().filter(|n| n.0 == *class).map(|n| n.1.trim_end_matches(" [no-cache path]").to_string()).collect();
            attribute(r, plan, o, base, &names, &move |x: &Outcome| x.nonterm.iter().any(|n| n.0 == c2))
        };
        r.violation(
            &format!("C04/non_termination/{class}/{}", if attr == "no_fault" { format!("no_fault/{sc}") } else { attr.clone() }),
            &format!("{name} exceeded the scan-step budget ({used} > {STEP_BUDGET} cache.scan steps) on a {sc} thread"),
            json!({"plan": plan_json(plan), "applied": o.applied, "query": name, "steps": used}),
        );
    }
    let mut attr_of: std::collections::HashMap<String, String> = Default::default();
    for (class, name, detail) in &o.mismatches {
        let c2 = class.clone();
        let attr = match attr_of.get(class) {
            Some(a) => a.clone(),
            None => {
                let names: Vec<String> = o.mismatches.iter().filter(|n| n.0 == *class).map(|n| n.1.clone()).collect();
                let a = attribute(r, plan, o, base, &names, &move |x: &Outcome| x.mismatches.iter().any(|n| n.0 == c2));
                attr_of.insert(class.clone(), a.clone());
                a
            }
        };
        r.violation(
            &format!("C04/answer_differs/{class}/{}", if attr == "no_fault" { format!("no_fault/{sc}") } else { attr.clone() }),
            &format!("{name}: answer with caches as found differs from the answer with caches removed ({attr}): {detail}"),
            json!({"plan": plan_json(plan), "applied": o.applied, "query": name, "detail": detail}),
        );
    }
    for (name, detail) in &o.model_mismatch {
        r.violation(
            &format!("C04/no_cache_answer_differs_from_raw_log_model/{}/{sc}", name.split('(').next().unwrap_or(name)),
            &format!("{name}: {detail}"),
            json!({"plan": plan_json(plan), "query": name, "detail": detail}),
        );
    }
}

pub fn run(cfg: &Cfg) -> i32 {
    let mut r = Report::new(
        "C04",
        "fault_enumeration",
        "cache-fault scripts × query set: every (cache file class × fault kind × position) single fault is enumerated \
         on seeded histories, then random multi-fault scripts, plus directed long threads (>10^4 frames, >8 MiB sidecar, \
         dense non-message frames) and directed short threads whose cut points are checkpointed repeatedly / out of order \
         (no fault, then one fault); each query is evaluated as-found vs caches-removed (and replay / cut-points incl. their \
         checkpointed marking / status latest checkpoint / cursor and selection status vs a raw-log model); a disagreement is \
         blamed on a fault only after it failed to show without faults; distinct = distinct (fault script shape, history shape) \
         whose faults were really applied",
    );
    r.assume("the no-cache path is the reference for answers other than replay / cut points / status latest checkpoint / cursor and selection status / the checkpoint selection of compile (those are also checked against the raw log; with caches removed the real code rebuilds them and takes the same fast paths, so it is not an independent reference there)");
    r.assume("termination is judged on cache.scan steps (budget 160 per query), loops without a hook would only be seen by the wall-clock watchdog");
    let _s = sched(); // installs the step-budget handler
    if let Some(p) = &cfg.replay {
        let v: Value = std::fs::read(p).ok().and_then(|b| serde_json::from_slice(&b).ok()).unwrap_or(Value::Null);
        if let Some(plan) = plan_from_json(&v["witness"]["plan"]) {
            let o = execute(&plan, None);
            r.eval();
            r.distinct_str("replay");
            r.distinct_str("replay2");
            r.sample(plan_json(&plan));
            judge(&mut r, &plan, &o);
            return r.finish(cfg);
        }
        r.fatal_inconclusive("replay file has no plan");
        return r.finish(cfg);
    }

    let mut idx = 0u64;
    let mut t_mark = r.elapsed();
    // 1. directed long threads (every shard 0 run; cheap because appends cost ~25 µs)
    let directed: Vec<Shape> = vec![
        Shape::ManyMessages(10_400),
        Shape::DenseSideEffects(10_300),
        Shape::BigSidecar(cfg.tier.pick(1_100, 1_300)),
        Shape::Spread(3_000),
    ];
    for (k, shape) in directed.into_iter().enumerate() {
        let i = idx;
        idx += 1;
        if !cfg.mine(i) {
            continue;
        }
        let plan = Plan { seed: cfg.seed.wrapping_add(k as u64), shape, n: [0, 10, 10], faults: vec![], restart1: true, restart2: true };
        let o = execute(&plan, None);
        r.eval();
        r.distinct_str(&format!("directed:{:?}", plan.shape));
        r.sample(json!({"plan": plan_json(&plan), "frames": o.frames, "queries": o.queries, "max_steps": o.max_steps}));
        judge(&mut r, &plan, &o);
        // the same long thread with one deleted / truncated cache
        if cfg.tier == crate::report::Tier::Thorough || k == 0 {
            for (file, kind) in [(0usize, FaultKind::Delete), (3, FaultKind::TruncLine), (6, FaultKind::Delete)] {
                let mut p2 = plan.clone();
                p2.faults = vec![Fault { file, kind, at: 2, salt: 7 }];
                let o2 = execute(&p2, None);
                r.eval();
                if !o2.applied.is_empty() {
                    r.distinct_str(&format!("directed:{:?}:{}", p2.shape, p2.faults[0].label()));
                }
                judge_with_base(&mut r, &p2, &o2, Some(&o));
            }
        }
    }
    r.count("wall_ms_directed_long_threads", ((r.elapsed() - t_mark) * 1000.0) as u64);
    t_mark = r.elapsed();
    // 1b. histories with REPEATED / OUT-OF-ORDER checkpoints (a cut point summarised two or three times: adjacent
    //     frames, frames far apart, decreasing to_seq order, on top of auto-compaction), compile anchored at the
    //     repeatedly checkpointed messages: first with no fault at all (caches intact vs caches removed), then with one fault on the files
    //     the checkpoint queries read
    // variants: ordering class = v % 4, auto-compaction first = (v / 4) % 2, frame density = v % 3
    let no_fault_variants: Vec<u64> = if cfg.tier == crate::report::Tier::Thorough { (0..16).collect() } else { vec![0, 5, 2, 7] };
    let mut rep_cases: Vec<(u64, Option<(usize, FaultKind, u8)>)> = no_fault_variants.into_iter().map(|v| (v, None)).collect();
    {
        let (files, kinds): (&[usize], &[FaultKind]) = if cfg.tier == crate::report::Tier::Thorough {
            (&[0, 3, 6, 7, 8], &FAULT_KINDS)
        } else {
            (&[7, 8], &[FaultKind::Delete, FaultKind::Garbage, FaultKind::Rollback])
        };
        let mut v = 0u64;
        for at in [2u8, 1u8] {
            for file in files {
                for kind in kinds {
                    rep_cases.push((v, Some((*file, *kind, at))));
                    v += 1;
                }
            }
        }
    }
    let rep_budget = cfg.budget_s * 0.25; // time slice of this section
    for (k, (v, fault)) in rep_cases.into_iter().enumerate() {
        // case numbers (= rng lanes) of their own: the numbering of the older cases below stays as it was
        let i = 1_000_000 + k as u64;
        if !cfg.mine(i) {
            continue;
        }
        if r.elapsed() - t_mark > rep_budget || r.over(cfg) {
            r.count("repeated_checkpoint_cases_skipped_for_time", 1);
            continue;
        }
        let mut rng = cfg.case_rng(i);
        let plan = Plan {
            seed: rng.next_u64(),
            shape: Shape::RepeatedCkpts(v),
            n: [0, 0, rng.usize(8)],
            faults: fault.map(|(file, kind, at)| vec![Fault { file, kind, at, salt: rng.next_u64() }]).unwrap_or_default(),
            restart1: rng.bool(),
            restart2: true,
        };
        let t0 = r.elapsed();
        let o = execute(&plan, None);
        if std::env::var("RV_C04_DEBUG").is_ok() {
            eprintln!("repeated-ckpt case v{v} {:?}: {:.2}s frames {} queries {} ckpts {} rep_cuts {} selected {}", plan.faults.first().map(|f| f.label()), r.elapsed() - t0, o.frames, o.queries, o.ckpt_frames, o.rep_cuts, o.rep_selected);
        }
        r.eval();
        if o.rep_cuts == 0 || o.rep_selected == 0 {
            r.inconclusive("a directed repeated-checkpoint history ended without a compile that selects a repeatedly checkpointed cut point");
        } else if plan.faults.is_empty() {
            r.distinct_str(&format!("repeated_ckpts:no_fault:order{}:auto{}:density{}", v % 4, (v / 4) % 2, v % 3));
            r.count("repeated_checkpoint_histories_compared_with_no_fault", 1);
        } else if !o.applied.is_empty() {
            r.distinct_str(&format!("repeated_ckpts:{}", plan.faults[0].label()));
            r.count("repeated_checkpoint_histories_compared_with_one_fault", 1);
        } else {
            r.count("fault_not_applicable", 1);
        }
        if fault.is_none() && (v == 0 || v == 5) {
            r.sample(json!({"plan": plan_json(&plan), "frames": o.frames, "queries": o.queries, "checkpoint_frames": o.ckpt_frames,
                "cut_points_checkpointed_more_than_once": o.rep_cuts, "compiles_selecting_one": o.rep_selected,
                "of_them_hierarchical": o.rep_selected_hier, "below_the_newest_level": o.rep_selected_not_newest}));
        }
        judge(&mut r, &plan, &o);
    }
    r.count("wall_ms_repeated_checkpoint_histories", ((r.elapsed() - t_mark) * 1000.0) as u64);
    // 2. single-fault enumeration: file × kind × position
    let mut enum_cases = Vec::new();
    for at in [2u8, 1u8] {
        for file in 0..FILES.len() {
            for kind in FAULT_KINDS {
                enum_cases.push((file, kind, at));
            }
        }
    }
    let rounds = cfg.tier.pick(1u64, 12u64);
    // 2b. long threads (seek-index strides crossed after the fault) with one index fault plus one fault that
    //     forces another read path: the messages+runs sidecar made unusable at rest (none of these single
    //     faults is a known finding on its own, so any disagreement here is new)
    let mut forced: Vec<(usize, FaultKind, u8, Option<(usize, FaultKind)>)> = Vec::new();
    for kind in [FaultKind::Delete, FaultKind::TruncZero, FaultKind::Garbage, FaultKind::TruncByte, FaultKind::HeadGarbage] {
        for file in [1usize, 2] {
            forced.push((file, kind, 1, Some((3, FaultKind::Garbage))));
            forced.push((file, kind, 1, Some((3, FaultKind::Delete))));
        }
        for file in [4usize, 5] {
            forced.push((file, kind, 1, None));
        }
    }
    for (file, kind) in [(1usize, FaultKind::Rollback), (2, FaultKind::Rollback), (4, FaultKind::Rollback), (5, FaultKind::Rollback), (1, FaultKind::DropLastLine), (4, FaultKind::DropLastLine)] {
        forced.push((file, kind, 2, Some((3, FaultKind::Garbage))));
    }
    let forced_rounds = cfg.tier.pick(1u64, 6u64);
    // case numbers (= rng lanes) as if 2 ran to its end before 2b; the order of execution interleaves them (one
    // path-forcing case after every four enumeration cases), so that a slow machine starves neither list
    enum Spec {
        Single(u64, usize, FaultKind, u8),
        Forced(u64, usize, FaultKind, u8, Option<(usize, FaultKind)>),
    }
    let mut singles: Vec<(u64, Spec)> = Vec::new();
    for round in 0..rounds {
        for (file, kind, at) in &enum_cases {
            singles.push((idx, Spec::Single(round, *file, *kind, *at)));
            idx += 1;
        }
    }
    let mut forcing: std::collections::VecDeque<(u64, Spec)> = Default::default();
    for round in 0..forced_rounds {
        for (file, kind, at, second) in &forced {
            forcing.push_back((idx, Spec::Forced(round, *file, *kind, *at, *second)));
            idx += 1;
        }
    }
    let mut merged: Vec<(u64, Spec)> = Vec::new();
    for (n, c) in singles.into_iter().enumerate() {
        merged.push(c);
        if n % 4 == 3 {
            if let Some(f) = forcing.pop_front() {
                merged.push(f);
            }
        }
    }
    merged.extend(forcing);
    let (mut ms_single, mut ms_forced) = (0u64, 0u64);
    for (i, spec) in merged {
        if !cfg.mine(i) {
            continue;
        }
        if r.over(cfg) {
            break;
        }
        let t0 = r.elapsed();
        let mut rng = cfg.case_rng(i);
        match spec {
            Spec::Single(round, file, kind, at) => {
                let plan = Plan {
                    seed: rng.next_u64(),
                    shape: if round % 4 == 3 { Shape::Medium } else { Shape::Small },
                    n: if round % 4 == 3 { [400, 300, 100] } else { [20 + rng.usize(60), 10 + rng.usize(40), rng.usize(30)] },
                    faults: vec![Fault { file, kind, at, salt: rng.next_u64() }],
                    restart1: true,
                    restart2: true,
                };
                let o = execute(&plan, None);
                r.eval();
                if !o.applied.is_empty() {
                    r.distinct_str(&format!("{}|{:?}", plan.faults[0].label(), shape_class(&plan.shape)));
                    r.count(&format!("fault:{}", plan.faults[0].kind.name()), 1);
                } else {
                    r.count("fault_not_applicable", 1);
                }
                if r.samples.len() < r.max_samples {
                    r.sample(json!({"plan": plan_json(&plan), "applied": o.applied, "frames": o.frames, "queries": o.queries}));
                }
                judge(&mut r, &plan, &o);
                ms_single += ((r.elapsed() - t0) * 1000.0) as u64;
            }
            Spec::Forced(round, file, kind, at, second) => {
                let mut faults = vec![Fault { file, kind, at, salt: rng.next_u64() }];
                if let Some((f2, k2)) = second {
                    faults.push(Fault { file: f2, kind: k2, at: 2, salt: rng.next_u64() });
                }
                let plan = Plan {
                    seed: rng.next_u64(),
                    shape: Shape::Long(round),
                    n: [260 + rng.usize(80), 40 + rng.usize(60), 300 + rng.usize(120)],
                    faults,
                    restart1: rng.bool(),
                    restart2: true,
                };
                let o = execute(&plan, None);
                r.eval();
                if !o.applied.is_empty() {
                    let mut l = o.applied.clone();
                    l.sort();
                    r.distinct_str(&format!("forced:{}", l.join(",")));
                    r.count("path_forcing_long_thread_cases", 1);
                }
                judge(&mut r, &plan, &o);
                ms_forced += ((r.elapsed() - t0) * 1000.0) as u64;
            }
        }
    }
    r.count("wall_ms_single_fault_enumeration", ms_single);
    r.count("wall_ms_path_forcing_long_threads", ms_forced);
    t_mark = r.elapsed();
    // 3. random multi-fault scripts
    while !r.over(cfg) && idx < cfg.tier.pick(2_000, 2_000_000) {
        let i = idx;
        idx += 1;
        if !cfg.mine(i) {
            continue;
        }
        let mut rng = cfg.case_rng(i);
        let nf = 2 + rng.usize(4);
        let faults = (0..nf)
            .map(|_| Fault {
                // only the four index files whose content is validated against the sidecars; faults on the
                // sidecars themselves are covered one at a time by the enumeration above
                file: [1usize, 2, 4, 5][rng.usize(4)],
                kind: FAULT_KINDS[rng.usize(FAULT_KINDS.len())],
                at: 1 + rng.below(2) as u8,
                salt: rng.next_u64(),
            })
            .collect();
        let plan = Plan {
            seed: rng.next_u64(),
            shape: Shape::Small,
            n: [10 + rng.usize(80), 5 + rng.usize(50), rng.usize(40)],
            faults,
            restart1: true,
            restart2: true,
        };
        let o = execute(&plan, None);
        r.eval();
        if o.applied.len() >= 2 {
            let mut l = o.applied.clone();
            l.sort();
            r.distinct_str(&format!("multi:{}", l.join(",")));
            r.count("multi_fault_scripts", 1);
        }
        judge(&mut r, &plan, &o);
    }
    r.count("wall_ms_random_multi_fault_scripts", ((r.elapsed() - t_mark) * 1000.0) as u64);
    r.finish(cfg)
}
