//! C03 (B, directed sweep): JSON nesting depth of a payload, swept over EVERY depth around the limits,
//! at every place where nested JSON from outside can enter a frame.
//!
//! A frame that carries a `Value` is read back by four readers that each add their own wrapping to the
//! payload: the live subscriber and the log line (frame object = +1 level), the continuity sidecar (same),
//! and the per-stream snapshot (ONE JSON array around all frames = +2 levels). The JSON reader refuses
//! input on entering level 128. Whatever rip does with a payload that is "too deep" (embed it, keep it as
//! text, record it as invalid_json) is its choice; the property only asks that all places hold the same
//! frames and all of them can be read back. So for every depth D and every entry point one short end-to-end
//! run is made and judged with the full part-B oracle:
//!   (1) live frames (subscribed before the first frame) == log frames of the stream, field for field,
//!   (2) the stream's snapshot reads back (`rip_log::read_snapshot`), equals the log's frames, and
//!       `rip_log::verify_snapshot` passes,
//!   (3) the continuity the runs are linked to: live == log == sidecar == replay_events == thread SSE replay
//!       (cache path, then again from a cold start with the caches deleted),
//!   (4) every log line parses on its own, `EventLog::replay_validated` accepts the store and
//!       `replay_stream` returns the stream's frames.
//!
//! Entry points (D = number of containers around the innermost scalar of the value that lands in the frame
//! field): provider SSE event payload -> `provider_event.data` (nest in a delta event; nest inside an output
//! item); model-supplied tool-call arguments (a JSON *string* in the provider event, parsed by rip) ->
//! `tool_started.args`, delivered in `output_item.done` and via `function_call_arguments.delta/.done`;
//! tool envelope typed as session input -> `tool_started.args`; `POST /tasks` body -> `tool_task_spawned.args`.
//! Shapes: arrays only, objects only, seeded random mix of both with scalar siblings.

use super::hist::{compare, drain, is_task_end, judge_continuities, provider_cfg, read_sse_until, Live};
use super::strict_eq;
use crate::fixture::{wait_for, App, Store};
use crate::prng::Rng;
use crate::provider::{
    ev_args_delta, ev_args_done, ev_completed, ev_created, ev_item_added, ev_item_done, ev_text_delta, function_call_item,
    sse_done, sse_event, Provider, Reply,
};
use crate::report::{Cfg, Report};
use rip_kernel::{EventKind, StreamKind};
use ripd::ContinuityRunLink;
use serde_json::{json, Value};
use std::collections::{HashMap, HashSet};
use std::sync::Arc;
use std::time::Duration;

/// Witness `case` numbers at or above this value name a sweep depth (case - base), not a history index.
pub const SWEEP_CASE_BASE: u64 = 9_000_000;

const TOKEN: &str = "tkdepthq7z";

#[derive(Clone, Copy, Debug, PartialEq, Eq)]
enum Entry {
    /// extra member of a text-delta event
    ProviderEvent,
    /// extra member of the item inside an `output_item.done` event
    ProviderItem,
    /// `arguments` string of a function_call item in `output_item.done`
    CallArgsItem,
    /// `arguments` string delivered by `function_call_arguments.delta` + `.done`
    CallArgsDelta,
    /// `{"tool":…,"args":…}` typed as session input
    InputToolArgs,
    /// `POST /tasks` body
    TaskArgs,
}

impl Entry {
    fn name(self) -> &'static str {
        match self {
            Entry::ProviderEvent | Entry::ProviderItem => "provider_event",
            Entry::CallArgsItem | Entry::CallArgsDelta => "tool_call_arguments",
            Entry::InputToolArgs => "input_tool_args",
            Entry::TaskArgs => "task_args",
        }
    }
    fn variant(self) -> &'static str {
        match self {
            Entry::ProviderEvent => "provider_event.delta_member",
            Entry::ProviderItem => "provider_event.item_member",
            Entry::CallArgsItem => "tool_call_arguments.item_done",
            Entry::CallArgsDelta => "tool_call_arguments.delta_done",
            Entry::InputToolArgs => "input_tool_args",
            Entry::TaskArgs => "task_args",
        }
    }
    fn kind(self) -> &'static str {
        if self == Entry::TaskArgs {
            "task"
        } else {
            "session"
        }
    }
}

#[derive(Clone, Copy, Debug, PartialEq, Eq)]
pub(super) enum Shape {
    Arrays,
    Objects,
    Mixed,
}

/// JSON text with exactly `containers` containers around the scalar token.
pub(super) fn nest(shape: Shape, containers: usize, rng: &mut Rng) -> String {
    let mut open = String::new();
    let mut close: Vec<&'static str> = Vec::new();
    for level in 0..containers {
        let array = match shape {
            Shape::Arrays => true,
            Shape::Objects => false,
            Shape::Mixed => rng.bool(),
        };
        let siblings = shape == Shape::Mixed && rng.chance(1, 4);
        if array {
            open.push('[');
            if siblings {
                open.push_str(["0,", "\"s\",", "null,", "-1.5,"][rng.usize(4)]);
            }
            close.push("]");
        } else {
            open.push('{');
            if siblings {
                open.push_str("\"n\":null,");
            }
            open.push_str(["\"k\":", "\"a\":", "\"é\":"][level % 3]);
            close.push("}");
        }
    }
    let mut out = open;
    out.push('"');
    out.push_str(TOKEN);
    out.push('"');
    for c in close.iter().rev() {
        out.push_str(c);
    }
    out
}

/// Deepest container nesting of a JSON text (brackets outside strings), independent of any JSON reader.
fn text_nesting(text: &str) -> usize {
    let (mut depth, mut max, mut in_str, mut esc) = (0usize, 0usize, false, false);
    for b in text.bytes() {
        if in_str {
            if esc {
                esc = false;
            } else if b == b'\\' {
                esc = true;
            } else if b == b'"' {
                in_str = false;
            }
            continue;
        }
        match b {
            b'"' => in_str = true,
            b'[' | b'{' => {
                depth += 1;
                max = max.max(depth);
            }
            b']' | b'}' => depth = depth.saturating_sub(1),
            _ => {}
        }
    }
    max
}

/// Container depth of every string leaf that IS the token; `in_text` when a longer string contains it.
fn token_leaves(v: &Value, depth: usize, out: &mut Vec<usize>, in_text: &mut bool) {
    match v {
        Value::String(s) if s == TOKEN => out.push(depth),
        Value::String(s) if s.contains(TOKEN) => *in_text = true,
        Value::Array(a) => a.iter().for_each(|x| token_leaves(x, depth + 1, out, in_text)),
        Value::Object(m) => m.values().for_each(|x| token_leaves(x, depth + 1, out, in_text)),
        _ => {}
    }
}

fn value_nesting(v: &Value) -> usize {
    match v {
        Value::Array(a) => 1 + a.iter().map(value_nesting).max().unwrap_or(0),
        Value::Object(m) => 1 + m.values().map(value_nesting).max().unwrap_or(0),
        _ => 0,
    }
}

struct Case {
    entry: Entry,
    shape: Shape,
    label: String,
    /// session input (sessions) or raw POST body (task)
    input: String,
    /// SSE events between `response.created` and `response.completed` of the first provider turn
    script: String,
}

fn build_cases(depth: usize, seed: u64) -> Vec<Case> {
    let plan = [
        (Entry::ProviderEvent, Shape::Arrays),
        (Entry::ProviderEvent, Shape::Objects),
        (Entry::ProviderItem, Shape::Mixed),
        (Entry::CallArgsItem, Shape::Arrays),
        (Entry::CallArgsItem, Shape::Mixed),
        (Entry::CallArgsDelta, Shape::Objects),
        (Entry::InputToolArgs, Shape::Arrays),
        (Entry::InputToolArgs, Shape::Objects),
        (Entry::TaskArgs, Shape::Mixed),
    ];
    let mut out = Vec::new();
    for (i, (entry, shape)) in plan.iter().copied().enumerate() {
        let mut rng = Rng::derive(seed ^ 0xd3e9, (depth as u64) * 64 + i as u64);
        let label = format!("{}|{:?}|{}", entry.variant(), shape, depth);
        let mut input = format!("sweep prompt {label}");
        let mut script = String::new();
        match entry {
            Entry::ProviderEvent => {
                // the event object is the first container of `data`
                let n = nest(shape, depth.saturating_sub(1), &mut rng);
                script.push_str(&format!(
                    "event: response.output_text.delta\ndata: {{\"type\":\"response.output_text.delta\",\"sequence_number\":2,\"item_id\":\"msg_1\",\
                     \"output_index\":0,\"content_index\":0,\"delta\":\"d\",\"logprobs\":[],\"deep\":{n}}}\n\n"
                ));
            }
            Entry::ProviderItem => {
                let n = nest(shape, depth.saturating_sub(2), &mut rng);
                script.push_str(&format!(
                    "event: response.output_item.done\ndata: {{\"type\":\"response.output_item.done\",\"sequence_number\":2,\"output_index\":0,\
                     \"item\":{{\"type\":\"message\",\"id\":\"msg_1\",\"role\":\"assistant\",\"status\":\"completed\",\"content\":[],\"deep\":{n}}}}}\n\n"
                ));
            }
            Entry::CallArgsItem => {
                let args = nest(shape, depth, &mut rng);
                let tool = if shape == Shape::Arrays { "nosuchtool" } else { "ls" };
                script.push_str(&sse_event(&ev_item_added(2, 0, function_call_item(Some("fc_1"), "call_1", tool, "", "in_progress"))));
                script.push_str(&sse_event(&ev_item_done(3, 0, function_call_item(Some("fc_1"), "call_1", tool, &args, "completed"))));
            }
            Entry::CallArgsDelta => {
                let args = nest(shape, depth, &mut rng);
                let mut cut = args.len() / 2;
                while !args.is_char_boundary(cut) {
                    cut += 1;
                }
                script.push_str(&sse_event(&ev_item_added(2, 0, function_call_item(Some("fc_1"), "call_1", "nosuchtool", "", "in_progress"))));
                script.push_str(&sse_event(&ev_args_delta(3, "fc_1", 0, &args[..cut])));
                script.push_str(&sse_event(&ev_args_delta(4, "fc_1", 0, &args[cut..])));
                script.push_str(&sse_event(&ev_args_done(5, "fc_1", 0, &args)));
                script.push_str(&sse_event(&ev_item_done(6, 0, function_call_item(Some("fc_1"), "call_1", "nosuchtool", "", "completed"))));
            }
            Entry::InputToolArgs => {
                let args = nest(shape, depth, &mut rng);
                input = format!("{{\"tool\":\"nosuchtool\",\"args\":{args}}}");
            }
            Entry::TaskArgs => {
                let n = nest(shape, depth.saturating_sub(1), &mut rng);
                input = format!("{{\"tool\":\"bash\",\"args\":{{\"command\":\"true\",\"x\":{n}}},\"title\":\"sweep\"}}");
            }
        }
        out.push(Case { entry, shape, label, input, script });
    }
    out
}

struct Ran {
    case: usize,
    id: String,
    live: Vec<Value>,
    complete: bool,
    /// the request was refused before any stream existed (HTTP 4xx for a task body)
    refused: Option<u16>,
}

pub fn depths(cfg: &Cfg) -> Vec<usize> {
    let mut v: Vec<usize> = Vec::new();
    if cfg.tier.pick(true, false) {
        v.extend([2usize, 8, 32, 64]);
        v.extend(88..=132);
    } else {
        v.extend(2..=140);
    }
    v
}

/// The sweep, sharded by depth: shard k of n owns every depth whose index ≡ k (mod n).
pub fn sweep(cfg: &Cfg, r: &mut Report, rt: &tokio::runtime::Runtime) {
    let all = depths(cfg);
    let mut skipped: Vec<usize> = Vec::new();
    for (i, d) in all.iter().copied().enumerate() {
        if !cfg.mine(i as u64) {
            continue;
        }
        // the sweep comes first in part B and is small; only a badly overloaded machine gets here
        if r.elapsed() > cfg.budget_s * 1.6 {
            skipped.push(d);
            continue;
        }
        one_depth(cfg, r, rt, d);
    }
    if !skipped.is_empty() {
        r.inconclusive(&format!("depth sweep: depths {skipped:?} were not run, the time budget was used up"));
    }
}

fn set_max(r: &mut Report, key: &str, v: u64) {
    let e = r.counters.entry(key.to_string()).or_insert(0);
    *e = (*e).max(v);
}

pub fn one_depth(cfg: &Cfg, r: &mut Report, rt: &tokio::runtime::Runtime, depth: usize) {
    let t0 = std::time::Instant::now();
    let dbg = std::env::var("RV_DEBUG").is_ok();
    let mark = |what: &str| {
        if dbg {
            eprintln!("DEBUG C03 sweep depth {depth}: {what} at {:.0} ms", t0.elapsed().as_secs_f64() * 1000.0);
        }
    };
    let cases = build_cases(depth, cfg.seed);
    // the generator is checked against an independent count before anything is concluded from a depth
    for c in &cases {
        let (text, want) = match c.entry {
            Entry::ProviderEvent | Entry::ProviderItem => {
                // (`logprobs: []` / `content: []` give the event a floor of 2 / 3 levels)
                (c.script.split("data: ").nth(1).unwrap_or("").trim().to_string(), depth.max(if c.entry == Entry::ProviderItem { 3 } else { 2 }))
            }
            Entry::CallArgsItem | Entry::CallArgsDelta => continue, // a string inside the event; checked on the frame below
            Entry::InputToolArgs => (c.input.clone(), depth + 1),
            Entry::TaskArgs => (c.input.clone(), depth.max(1) + 1),
        };
        if text_nesting(&text) != want {
            r.inconclusive(&format!("depth sweep: generator built nesting {} for {} (wanted {want})", text_nesting(&text), c.label));
            return;
        }
    }
    let s = crate::sched::sched();
    s.reset();
    s.record(true, &["snapshot.written", "cache.rebuild.created"]);

    let scripts: Arc<HashMap<String, String>> = Arc::new(cases.iter().map(|c| (c.label.clone(), c.script.clone())).collect());
    let provider = Provider::start(Arc::new(move |rec| {
        let id = format!("resp_{}", rec.index);
        let label = rec.header("x-rv-case").unwrap_or("").to_string();
        let followup = String::from_utf8_lossy(&rec.body).contains("function_call_output");
        let mut body = String::new();
        body.push_str(&sse_event(&ev_created(0, &id)));
        body.push_str(&sse_event(&ev_text_delta(1, "msg_1", "héllo \u{2028} 🙂")));
        if !followup {
            if let Some(x) = scripts.get(&label) {
                body.push_str(x);
            }
        }
        body.push_str(&sse_event(&ev_completed(9, &id, json!([]))));
        body.push_str(&sse_done());
        Reply::sse(body.into_bytes()).chunked(vec![17, 64, 5, 4096], 0)
    }));
    let endpoint = provider.endpoint();
    let store = Store::new("c03depth");
    let app = match App::open(&store, Some(provider_cfg(&endpoint))) {
        Ok(a) => a,
        Err(e) => {
            r.inconclusive(&format!("depth sweep {depth}: cannot open engine: {e}"));
            s.reset();
            return;
        }
    };
    let cont_live = Live::new();
    let drain_handle = drain(rt, app.store().subscribe(), cont_live.clone());
    let Ok(c0) = app.store().ensure_default() else {
        r.inconclusive(&format!("depth sweep {depth}: ensure_default failed"));
        s.reset();
        return;
    };

    mark("store open");
    // ---- run every case of this depth concurrently in one store ----
    let ran: Vec<Ran> = rt.block_on(async {
        let mut joins = Vec::new();
        for (ci, c) in cases.iter().enumerate() {
            let app = app.clone();
            let c0 = c0.clone();
            let input = c.input.clone();
            let label = c.label.clone();
            let endpoint = endpoint.clone();
            let is_task = c.entry == Entry::TaskArgs;
            joins.push(tokio::spawn(async move {
                if is_task {
                    let (st, bytes) = app.call_raw("POST", "/tasks", "application/json", input.into_bytes()).await;
                    if st != 201 {
                        return Some(Ran { case: ci, id: String::new(), live: vec![], complete: true, refused: Some(st) });
                    }
                    let v: Value = serde_json::from_slice(&bytes).ok()?;
                    let tid = v.get("task_id")?.as_str()?.to_string();
                    let (st, rd) = app.sse(&format!("/tasks/{tid}/events")).await;
                    if st != 200 {
                        return None;
                    }
                    let mut rd = rd?;
                    let mut live = Vec::new();
                    let ok = read_sse_until(&mut rd, &mut live, is_task_end, Duration::from_secs(30)).await;
                    return Some(Ran { case: ci, id: tid, live, complete: ok, refused: None });
                }
                let store = app.store();
                let handle = app.engine.create_session();
                let mut rx = handle.subscribe();
                let sid = handle.session_id.clone();
                let mid = store.append_message(&c0, "user".into(), "rv".into(), input.clone()).ok()?;
                store.append_run_spawned(&c0, &mid, &sid, "user".into(), "rv".into()).ok()?;
                let link = ContinuityRunLink { continuity_id: c0.clone(), message_id: mid, actor_id: "user".into(), origin: "rv".into() };
                let mut pc = provider_cfg(&endpoint);
                pc.headers = vec![("x-rv-case".to_string(), label)];
                app.engine.spawn_session(handle.clone(), input, Some(link), Some(pc));
                let mut live = Vec::new();
                let mut ended = false;
                let start = std::time::Instant::now();
                loop {
                    let t = if ended { Duration::from_millis(40) } else { Duration::from_millis(250) };
                    match tokio::time::timeout(t, rx.recv()).await {
                        Ok(Ok(e)) => {
                            if matches!(e.kind, EventKind::SessionEnded { .. }) {
                                ended = true;
                            }
                            live.push(serde_json::to_value(&e).unwrap_or(Value::Null));
                        }
                        Ok(Err(tokio::sync::broadcast::error::RecvError::Lagged(_))) => return None,
                        Ok(Err(_)) => break,
                        Err(_) => {
                            if ended || start.elapsed() > Duration::from_secs(30) {
                                break;
                            }
                        }
                    }
                }
                Some(Ran { case: ci, id: sid, live, complete: ended, refused: None })
            }));
        }
        let mut out = Vec::new();
        for j in joins {
            if let Ok(Some(x)) = j.await {
                out.push(x);
            }
        }
        out
    });
    if ran.len() != cases.len() || ran.iter().any(|x| !x.complete) {
        r.inconclusive(&format!("depth sweep {depth}: a run / task did not start or did not reach its end within the watchdog"));
        drain_handle.abort();
        s.reset();
        return;
    }

    mark("runs ended");
    // ---- quiescence, judged without reading any payload: `continuity_run_ended` is appended after the session's
    // snapshot write; a task's snapshot write is seen at its hook point ----
    let log_path = store.log_path();
    let mut written: HashSet<String> = HashSet::new();
    let mut rebuilt: HashSet<String> = HashSet::new();
    let t_quiet = std::time::Instant::now();
    let quiet = rt.block_on(async {
        wait_for(Duration::from_secs(30), || {
            for e in s.take_events() {
                if e.point == "snapshot.written" {
                    written.insert(e.ctx.clone());
                } else {
                    rebuilt.insert(e.ctx.clone());
                }
            }
            let bytes = std::fs::read(&log_path).unwrap_or_default();
            let text = String::from_utf8_lossy(&bytes);
            for x in &ran {
                if x.refused.is_some() {
                    continue;
                }
                if cases[x.case].entry == Entry::TaskArgs {
                    // the terminal frame has been received; the snapshot write follows it at once. A write that never
                    // reports back (it failed) must not hold the sweep up for the whole watchdog.
                    if !written.contains(&x.id) && t_quiet.elapsed() < Duration::from_secs(4) {
                        return None;
                    }
                } else if !text.lines().any(|l| l.contains("\"type\":\"continuity_run_ended\"") && l.contains(x.id.as_str())) {
                    return None;
                }
            }
            Some(())
        })
        .await
        .is_some()
    });
    if !quiet {
        r.inconclusive(&format!("depth sweep {depth}: the store did not become quiescent within the watchdog"));
        drain_handle.abort();
        s.reset();
        return;
    }
    {
        let live = cont_live.clone();
        let log_path = log_path.clone();
        let _ = rt.block_on(async {
            wait_for(Duration::from_secs(10), || {
                let bytes = std::fs::read(&log_path).unwrap_or_default();
                let n = String::from_utf8_lossy(&bytes).lines().filter(|l| l.contains("\"stream_kind\":\"continuity\"")).count();
                (live.frames.lock().unwrap().len() >= n).then_some(())
            })
            .await
        });
    }
    r.count("b_depth_sweep_depths_run", 1);
    mark("quiescent");

    // ---- (4) the log, line by line, with the plain JSON reader ----
    let mut bytes = store.log_bytes_settled();
    // only whole lines are part of the log (rip's own reader leaves an unterminated tail to its writer as well)
    match bytes.iter().rposition(|b| *b == b'\n') {
        Some(p) => bytes.truncate(p + 1),
        None => bytes.clear(),
    }
    let mut frames: Vec<Value> = Vec::new();
    let mut unreadable = false;
    for (ln, line) in bytes.split(|b| *b == b'\n').enumerate() {
        if line.is_empty() {
            continue;
        }
        match serde_json::from_slice::<Value>(line) {
            Ok(v) => frames.push(v),
            Err(e) => {
                unreadable = true;
                let head = String::from_utf8_lossy(&line[..line.len().min(400)]).to_string();
                let owner = ran.iter().find(|x| !x.id.is_empty() && head.contains(x.id.as_str())).map(|x| &cases[x.case]);
                let (entry, label) = owner.map(|c| (c.entry.name(), c.label.as_str())).unwrap_or(("unattributed", "?"));
                r.violation(
                    &format!("C03/history/log_unreadable/deep_payload/{entry}"),
                    &format!(
                        "a payload nested {depth} levels entering through {label} was written to the log in a line (nesting {}) the JSON reader \
                         refuses: {e}; the whole store no longer replays",
                        text_nesting(&String::from_utf8_lossy(line))
                    ),
                    json!({"part": "B", "case": SWEEP_CASE_BASE + depth as u64, "sweep": {"depth": depth, "entry": label}, "line": ln, "error": e.to_string()}),
                );
            }
        }
    }
    let log = rip_log::EventLog::new(store.log_path()).ok();
    if !unreadable {
        if let Some(Err(e)) = log.as_ref().map(|l| l.replay_validated()) {
            unreadable = true;
            r.violation(
                "C03/history/log_unreadable/deep_payload/replay_validated",
                &format!("every line of the log parses as JSON, yet EventLog::replay_validated fails after runs with payloads nested {depth} levels: {e}"),
                json!({"part": "B", "case": SWEEP_CASE_BASE + depth as u64, "sweep": {"depth": depth}, "error": e.to_string()}),
            );
        }
    }
    if unreadable {
        drain_handle.abort();
        s.reset();
        return;
    }

    // ---- per stream: (1) live == log, (2) snapshot, (4) replay_stream ----
    let mut stop = false;
    for x in &ran {
        let c = &cases[x.case];
        let (kind, entry) = (c.entry.kind(), c.entry.name());
        if let Some(st) = x.refused {
            // refused before a stream existed: nothing was emitted, nothing to compare
            r.count("b_depth_sweep_task_bodies_refused_by_http", 1);
            r.distinct_str(&format!("depth_sweep|{}|{:?}|{depth}|refused_{st}", c.entry.variant(), c.shape));
            r.eval();
            continue;
        }
        let in_log: Vec<Value> = frames
            .iter()
            .filter(|f| f.get("stream_kind").and_then(|v| v.as_str()) == Some(kind) && f.get("stream_id").and_then(|v| v.as_str()) == Some(x.id.as_str()))
            .cloned()
            .collect();
        let frame_nesting = in_log.iter().map(value_nesting).max().unwrap_or(0);
        // how rip chose to record the payload: the token as a leaf of its own exactly `depth` containers below the
        // frame object (embedded as JSON), or only inside longer strings (raw text), or nowhere
        let mut leaf_depths: Vec<usize> = Vec::new();
        let mut in_text = false;
        for f in &in_log {
            token_leaves(f, 0, &mut leaf_depths, &mut in_text);
        }
        let repr = if leaf_depths.iter().any(|d| *d == depth + 1) {
            "embedded_as_json"
        } else if in_text || !leaf_depths.is_empty() {
            "kept_as_text"
        } else {
            "not_in_frames"
        };
        r.eval();
        r.distinct_str(&format!("depth_sweep|{}|{:?}|{depth}|{repr}", c.entry.variant(), c.shape));
        r.count("b_depth_sweep_streams_judged", 1);
        r.count("b_streams_compared", 1);
        r.count(&format!("b_depth_sweep_payload_{repr}:{entry}"), 1);
        r.count("b_live_frames_compared", x.live.len() as u64);
        set_max(r, "max_b_depth_sweep_frame_nesting_in_log", frame_nesting as u64);
        if repr == "embedded_as_json" {
            set_max(r, &format!("max_b_depth_sweep_depth_embedded_as_json:{entry}"), depth as u64);
        }
        let wit = |extra: Value| {
            json!({"part": "B", "case": SWEEP_CASE_BASE + depth as u64, "stream_kind": kind,
                   "sweep": {"depth": depth, "entry": c.label, "payload": repr, "deepest_frame_nesting_in_log": frame_nesting},
                   "detail": extra})
        };
        if in_log.is_empty() {
            r.violation(
                &format!("C03/history/live_vs_log/{kind}/stream_not_in_log/deep_payload/{entry}"),
                &format!("a {kind} whose {} payload was nested {depth} levels ran to its end, but the log holds no frame of it ({} live frames)", c.label, x.live.len()),
                wit(json!({"live_frames": x.live.len()})),
            );
            stop = true;
            break;
        }
        // (1)
        if kind == "session" {
            if compare(r, kind, "live", &x.live, "log", &in_log, &wit) {
                stop = true;
                break;
            }
        } else {
            // joined after the start: every frame received must be the log's frame of that seq (missed ones are C06's subject)
            let by_seq: HashMap<u64, &Value> = in_log.iter().filter_map(|v| v.get("seq").and_then(|s| s.as_u64()).map(|s| (s, v))).collect();
            for v in &x.live {
                let seq = v.get("seq").and_then(|s| s.as_u64()).unwrap_or(u64::MAX);
                let ty = v.get("type").and_then(|s| s.as_str()).unwrap_or("?").to_string();
                match by_seq.get(&seq) {
                    Some(l) if strict_eq(v, l) => {}
                    Some(l) => {
                        r.violation(
                            &format!("C03/history/live_vs_log/{kind}/frame_differs/{ty}"),
                            &format!("a {kind} subscriber received a {ty} frame (seq {seq}) that differs from the log's frame"),
                            wit(json!({"live": v, "log": l})),
                        );
                        stop = true;
                    }
                    None => {
                        r.violation(
                            &format!("C03/history/live_vs_log/{kind}/frame_not_in_log/{ty}"),
                            &format!("a {kind} subscriber received a {ty} frame (seq {seq}) that is not in the log"),
                            wit(json!({"live": v})),
                        );
                        stop = true;
                    }
                }
                if stop {
                    break;
                }
            }
            if stop {
                break;
            }
        }
        // (2)
        let dir = if kind == "task" { "task_snapshots" } else { "snapshots" };
        let spath = store.data.join(dir).join(format!("{}.json", x.id));
        match rip_log::read_snapshot(&spath) {
            Ok(evs) => {
                let snap: Vec<Value> = evs.iter().map(|e| serde_json::to_value(e).unwrap_or(Value::Null)).collect();
                if compare(r, kind, "snapshot", &snap, "log", &in_log, &wit) {
                    stop = true;
                    break;
                }
                r.count("b_depth_sweep_snapshots_read_back", 1);
                r.count("b_snapshots_compared", 1);
            }
            Err(e) => {
                let raw = std::fs::read(&spath).unwrap_or_default();
                let on_disk = raw.len();
                let snap_nesting = text_nesting(&String::from_utf8_lossy(&raw));
                if kind == "task" && !written.contains(&x.id) && on_disk == 0 {
                    r.inconclusive(&format!("depth sweep {depth}: the task's snapshot write was not seen within the watchdog"));
                    continue;
                }
                // attribute by what is on disk: a file nested deeper than the JSON reader accepts at all (probed with bare
                // brackets of the same depth) is the payload's depth at work; anything else is a snapshot lost otherwise
                let probe = format!("{}{}", "[".repeat(snap_nesting), "]".repeat(snap_nesting));
                let sig = if snap_nesting > 0 && serde_json::from_str::<Value>(&probe).is_err() {
                    format!("C03/history/snapshot_unreadable/{kind}/deep_payload/{entry}")
                } else {
                    format!("C03/history/snapshot_unreadable/{kind}")
                };
                r.violation(
                    &sig,
                    &format!(
                        "{kind} run with a payload nested {depth} levels entering through {} ({repr}): live subscriber and log agree on {} frames \
                         (deepest frame nesting {frame_nesting}) and the log replays, but the {kind} snapshot ({on_disk} bytes on disk, nesting \
                         {snap_nesting}) cannot be read back: {e}",
                        c.label,
                        in_log.len()
                    ),
                    wit(json!({"error": e.to_string(), "snapshot_bytes": on_disk, "snapshot_nesting": snap_nesting, "log_frames": in_log.len()})),
                );
                continue; // one root cause per stream; the other entry points of this depth are still judged
            }
        }
        if let Some(log) = &log {
            match rip_log::verify_snapshot(log, &spath) {
                Ok(()) => r.count("b_verify_snapshot_passed", 1),
                Err(e) => {
                    r.violation(
                        &format!("C03/history/verify_snapshot_failed/{kind}/deep_payload/{entry}"),
                        &format!("rip_log::verify_snapshot fails for a finished {kind} whose {} payload was nested {depth} levels: {e}", c.label),
                        wit(json!({"error": e.to_string()})),
                    );
                    continue;
                }
            }
            // (4) the typed per-stream replay returns the same frames
            let sk = if kind == "task" { StreamKind::Task } else { StreamKind::Session };
            match log.replay_stream(sk, &x.id) {
                Ok(evs) => {
                    let back: Vec<Value> = evs.iter().map(|e| serde_json::to_value(e).unwrap_or(Value::Null)).collect();
                    if compare(r, kind, "replay_stream", &back, "log", &in_log, &wit) {
                        stop = true;
                        break;
                    }
                    r.count("b_depth_sweep_stream_replays_compared", 1);
                }
                Err(e) => {
                    r.violation(
                        &format!("C03/history/replay_stream_failed/{kind}/deep_payload/{entry}"),
                        &format!("EventLog::replay_stream fails for a finished {kind} whose {} payload was nested {depth} levels: {e}", c.label),
                        wit(json!({"error": e.to_string()})),
                    );
                }
            }
        }
    }

    mark("streams judged");
    // ---- (3) the continuity every run of this depth is linked to ----
    if !stop && !cont_live.lagged.load(std::sync::atomic::Ordering::SeqCst) {
        let idx = SWEEP_CASE_BASE + depth as u64;
        let conts = vec![c0.clone()];
        let bad = judge_continuities(r, rt, &store, &app, &conts, &cont_live, idx, 0, "cache_path", &rebuilt);
        drain_handle.abort();
        drop(app);
        if !bad {
            let _ = std::fs::remove_dir_all(store.streams_dir());
            match App::open(&store, None) {
                Ok(app2) => {
                    let _ = judge_continuities(r, rt, &store, &app2, &conts, &cont_live, idx, 1, "log_path", &rebuilt);
                    r.count("b_depth_sweep_cold_reopens", 1);
                }
                Err(e) => r.inconclusive(&format!("depth sweep {depth}: reopen failed: {e}")),
            }
        }
    } else {
        if !stop {
            r.count("b_depth_sweep_continuity_collector_lagged", 1);
        }
        drain_handle.abort();
    }
    s.reset();
    mark("continuity judged");
    if r.samples.len() < r.max_samples && depth % 16 == 0 {
        r.sample(json!({"part": "B", "sweep_depth": depth, "streams": ran.len(), "log_frames": frames.len()}));
    }
    drop(provider);
}
