//! C07 — run lifecycle frames are complete, unique and causally ordered.
//!
//! Workload: through the real router, messages (prompts, tool envelopes, checkpoint envelopes) are
//! posted to one thread, 1–6 in parallel, interleaved with compaction jobs. Prompts run against the
//! scripted provider (text, tool loops, malformed / schema-invalid events, HTTP errors, resets at
//! byte k — k swept over a whole short body — missing [DONE], empty body, headers only, endless
//! tool requests, unrepresentable answers, missing summary artifacts → compile failure).
//! Oracle: offline on events.jsonl, parsed independently (truth.rs).
//!
//! Background jobs that fail / overlap / run on a damaged store are exercised by `c07_jobs.rs` (first
//! part of every run, a bounded share of the budget).

use crate::c16::toolscript::{
    build_turn, gen_call, gen_run, mark_prompt, mark_turn, CallKind, Emission, Fault, GenOpts, Scripted, Turn,
    TurnParts,
};
use crate::fixture::{runtime, wait_for, App, Store};
use crate::prng::Rng;
use crate::provider::{sse_done, sse_event};
use crate::report::{Cfg, Report, Tier};
use crate::sched::{sched, Sched};
use crate::truth;
use ripd::verif_export::{parse_tool_choice, OpenResponsesConfig, ToolChoiceParam};
use serde_json::{json, Value};
use std::collections::{BTreeMap, HashMap, HashSet};
use std::sync::Arc;
use std::time::{Duration, Instant};

#[path = "c07_jobs.rs"]
mod jobs;

#[derive(Clone, Debug)]
enum Action {
    /// POST /threads/{id}/messages
    Post { class: String, content: String, with_override: bool },
    CompactionAuto { stride: u64, max_new: u32, dry_run: bool },
    CompactionSchedule { stride: u64, execute: bool, block_on_inflight: bool },
}

struct Case {
    idx: u64,
    kind: &'static str,
    provider_configured: bool,
    choice_label: &'static str,
    stateless: bool,
    noise_us: u64,
    seed_messages: usize,
    phases: Vec<Vec<Action>>,
    /// delete the compaction summary blobs before this phase (→ context compile fails afterwards)
    delete_blobs_before_phase: Option<usize>,
    scripts: Vec<(u32, Vec<Turn>)>,
}

// ------------------------------------------------------------------------------------------------
// case generation

fn short_turn(run: u32, turn: u32, with_call: bool, token: &str) -> Vec<u8> {
    // deliberately small (≈ 400–500 bytes) so that every byte offset can be swept
    let mut s = String::new();
    let rid = format!("resp_{}", mark_turn(run, turn));
    s.push_str(&sse_event(&json!({"type":"response.created","sequence_number":0,"response":{"id":rid}})));
    s.push_str(&sse_event(&json!({"type":"response.output_text.delta","sequence_number":1,"item_id":"msg_1",
        "output_index":0,"content_index":0,"delta":"hé","logprobs":[]})));
    if with_call {
        s.push_str(&sse_event(&json!({"type":"response.output_item.done","sequence_number":2,"output_index":1,
            "item":{"type":"function_call","id":format!("fc{}", mark_turn(run, turn)),"call_id":format!("c{}", mark_turn(run, turn)),
                    "name":"write","arguments": json!({"path":"s.txt","content":format!("{token}\n"),"append":true}).to_string(),
                    "status":"completed"}})));
    }
    s.push_str(&sse_done());
    s.into_bytes()
}

fn raw_turn(body: Vec<u8>, fault: Fault, rid: Option<String>) -> Turn {
    Turn {
        body,
        calls: Vec::new(),
        response_id: rid,
        fault,
        chunks: Vec::new(),
        pause_us: 0,
        malformed_json: false,
        schema_invalid: false,
        text_deltas: 1,
        shuffled: false,
    }
}

const SWEEP_SLICE: usize = 40;

fn sweep_body_len() -> usize {
    // the longest short body (two-digit run ids, with the tool call)
    short_turn(39, 0, true, "S00r39").len()
}

/// number of sweep cases: 2 flavours × enough slices to cover offsets 0..=len (and a few beyond)
fn sweep_cases() -> u64 {
    2 * ((sweep_body_len() + 2) / SWEEP_SLICE + 1) as u64
}

fn sweep_case(idx: u64) -> Case {
    let flavour = (idx % 2) as usize; // 0: reset in the first response, 1: reset in the follow-up response
    let slice = (idx / 2) as usize;
    let mut scripts = Vec::new();
    let mut phase = Vec::new();
    let mut phases = Vec::new();
    for j in 0..SWEEP_SLICE {
        let run = j as u32;
        let k = slice * SWEEP_SLICE + j;
        let token = format!("S{idx}r{run}");
        let turns = if flavour == 0 {
            vec![
                raw_turn(short_turn(run, 0, true, &token), Fault::ResetAt(k), Some(format!("resp_{}", mark_turn(run, 0)))),
                raw_turn(short_turn(run, 1, false, &token), Fault::None, None),
            ]
        } else {
            vec![
                raw_turn(short_turn(run, 0, true, &token), Fault::None, Some(format!("resp_{}", mark_turn(run, 0)))),
                raw_turn(short_turn(run, 1, false, &token), Fault::ResetAt(k), None),
            ]
        };
        scripts.push((run, turns));
        phase.push(Action::Post {
            class: format!("prompt/reset_sweep_turn{flavour}"),
            content: format!("sweep {}", mark_prompt(run)),
            with_override: false,
        });
        if phase.len() == 5 {
            phases.push(std::mem::take(&mut phase));
        }
    }
    if !phase.is_empty() {
        phases.push(phase);
    }
    Case {
        idx,
        kind: "reset_sweep",
        provider_configured: true,
        choice_label: "auto",
        stateless: false,
        noise_us: 0,
        seed_messages: 0,
        phases,
        delete_blobs_before_phase: None,
        scripts,
    }
}

fn envelope(rng: &mut Rng, tag: &str) -> (String, String) {
    match rng.below(9) {
        0 => (
            "tool_envelope/success".into(),
            json!({"tool":"write","args":{"path":"e.txt","content":format!("{tag}\n"),"append":true}}).to_string(),
        ),
        1 => (
            "tool_envelope/nonzero_exit".into(),
            json!({"tool":"bash","args":{"command":format!("echo {tag}; echo err 1>&2; exit 7"),"cwd":"."}}).to_string(),
        ),
        2 => (
            "tool_envelope/timeout".into(),
            json!({"tool":"bash","args":{"command":"sleep 0.3","cwd":"."},"timeout_ms":15}).to_string(),
        ),
        3 => ("tool_envelope/unknown_tool".into(), json!({"tool":"nosuch_tool","args":{"x":tag}}).to_string()),
        4 => ("tool_envelope/invalid_args".into(), json!({"tool":"write","args":{"path":5}}).to_string()),
        5 => ("tool_envelope/read_only".into(), json!({"tool":"ls","args":{}}).to_string()),
        6 => (
            "checkpoint/create".into(),
            json!({"checkpoint":{"action":"create","label":tag,"files":["e.txt","a.txt"]}}).to_string(),
        ),
        7 => ("checkpoint/rewind_unknown".into(), json!({"checkpoint":{"action":"rewind","id":"no-such-id"}}).to_string()),
        _ => (
            "tool_envelope/apply_patch_bad".into(),
            json!({"tool":"apply_patch","args":{"patch":"*** Begin Patch\n*** Update File: missing.txt\n@@\n-a\n+b\n*** End Patch"}}).to_string(),
        ),
    }
}

fn prompt_script(rng: &mut Rng, idx: u64, run: u32, tier: Tier) -> (String, Vec<Turn>) {
    let mut o = GenOpts {
        case: idx,
        run,
        turns: 1,
        max_calls: 1 + rng.usize(5),
        duplicates: rng.chance(1, 6),
        unanswerable: false,
        forever: false,
        final_fault: Fault::None,
        weird_events: rng.chance(1, 3),
        no_response_id_turn: None,
    };
    let class: String;
    match rng.below(16) {
        0 | 1 => {
            class = "text".into();
        }
        2..=5 => {
            o.turns = 2 + rng.usize(3);
            class = format!("tools{}", o.turns - 1);
        }
        6 => {
            o.turns = 1 + rng.usize(3);
            o.final_fault = Fault::Http {
                status: [400u16, 401, 429, 500][rng.usize(4)],
                with_body: rng.bool(),
                echo: rng.bool(),
            };
            class = format!("t{}+{}", o.turns - 1, o.final_fault.class());
        }
        7 => {
            o.turns = 1 + rng.usize(3);
            o.final_fault = Fault::NoDone;
            class = format!("t{}+no_done", o.turns - 1);
        }
        8 => {
            o.turns = 1 + rng.usize(2);
            o.final_fault = Fault::EmptyBody;
            class = format!("t{}+empty_body", o.turns - 1);
        }
        9 => {
            o.turns = 1 + rng.usize(2);
            o.final_fault = Fault::HeadersOnly;
            class = format!("t{}+headers_only", o.turns - 1);
        }
        10 | 11 => {
            o.turns = 1 + rng.usize(3);
            class = format!("t{}+reset", o.turns - 1);
        }
        12 => {
            o.turns = 2 + rng.usize(2);
            o.unanswerable = true;
            class = "tools_unanswerable".into();
        }
        13 => {
            o.turns = 2;
            o.no_response_id_turn = Some(0);
            class = "no_response_id".into();
        }
        14 if rng.chance(1, tier.pick(3, 2)) => {
            o.forever = true;
            o.max_calls = 5;
            class = "endless_tools".into();
        }
        _ => {
            o.turns = 2;
            class = "tools1".into();
        }
    }
    let mut turns = gen_run(rng, &o);
    if class.ends_with("+reset") {
        if let Some(t) = turns.last_mut() {
            let k = rng.usize(t.body.len() + 1);
            t.fault = Fault::ResetAt(k);
        }
    }
    if o.unanswerable {
        // make sure at least one call cannot be answered with a valid request
        let c = gen_call(rng, &o, 0, 9, CallKind::LongCallId, Emission::Canonical);
        let mut c = c;
        c.output_index = 9;
        let parts = TurnParts {
            calls: vec![c],
            text_deltas: 1,
            with_response_id: true,
            fault: Fault::None,
            malformed_json: false,
            schema_invalid: false,
            shuffle_all: false,
            sequential: true,
            chunked: false,
        };
        turns[0] = build_turn(rng, run, 0, parts);
    }
    (format!("prompt/{class}"), turns)
}

fn random_case(seed: u64, idx: u64, tier: Tier) -> Case {
    let mut rng = Rng::derive(seed, idx);
    let provider_configured = !rng.chance(1, 10);
    let choice_label = if !provider_configured {
        "auto"
    } else {
        match rng.below(10) {
            0 => "none",
            1 => "function:write",
            2 => "required",
            _ => "auto",
        }
    };
    let n_phases = 1 + rng.usize(3);
    let mut phases = Vec::new();
    let mut scripts = Vec::new();
    let mut run = 0u32;
    let use_compaction = rng.chance(1, 2);
    for p in 0..n_phases {
        let n_posts = match rng.below(6) {
            0 => 1,
            1 => 2,
            2 => 3,
            3 => 4,
            4 => 5,
            _ => 6,
        };
        let mut phase = Vec::new();
        for j in 0..n_posts {
            if rng.chance(3, 5) {
                if provider_configured {
                    let (class, turns) = prompt_script(&mut rng, idx, run, tier);
                    let with_override = rng.chance(1, 10);
                    scripts.push((run, turns));
                    phase.push(Action::Post {
                        class,
                        content: format!("prompt {} {}", rng.ascii(6), mark_prompt(run)),
                        with_override,
                    });
                    run += 1;
                } else {
                    phase.push(Action::Post {
                        class: "prompt/stub_runtime".into(),
                        content: if rng.chance(1, 8) { String::new() } else { format!("stub prompt {j}") },
                        with_override: false,
                    });
                }
            } else {
                let (class, content) = envelope(&mut rng, &format!("E{idx}p{p}j{j}"));
                phase.push(Action::Post { class, content, with_override: false });
            }
        }
        if use_compaction {
            for _ in 0..rng.usize(3) {
                if rng.bool() {
                    phase.push(Action::CompactionAuto {
                        stride: 1 + rng.below(3),
                        max_new: 1 + rng.below(3) as u32,
                        dry_run: rng.chance(1, 6),
                    });
                } else {
                    phase.push(Action::CompactionSchedule {
                        stride: 1 + rng.below(3),
                        execute: !rng.chance(1, 4),
                        block_on_inflight: rng.bool(),
                    });
                }
            }
        }
        rng.shuffle(&mut phase);
        phases.push(phase);
    }
    Case {
        idx,
        kind: "random",
        provider_configured,
        choice_label,
        stateless: rng.chance(1, 3),
        noise_us: [0u64, 0, 200, 1000][rng.usize(4)],
        seed_messages: if use_compaction { rng.usize(7) } else { 0 },
        delete_blobs_before_phase: if use_compaction && n_phases > 1 && rng.chance(1, 3) {
            Some(1 + rng.usize(n_phases - 1))
        } else {
            None
        },
        phases,
        scripts,
    }
}

const COMPILE_FAIL_CASES: u64 = 4;

/// Seed messages → compaction job → delete the summary artifact → prompts whose context compile
/// must fail (early-return path: no selection/compiled frames, session ends context_compile_failed).
fn compile_failure_case(seed: u64, idx: u64, tier: Tier) -> Case {
    let mut rng = Rng::derive(seed ^ 0xC07F, idx);
    let variant = idx - sweep_cases();
    let mut scripts = Vec::new();
    let mut second = Vec::new();
    let n = 1 + (variant as usize % 3) * 2; // 1, 3, 5 prompts in parallel
    for run in 0..n as u32 {
        let (class, turns) = prompt_script(&mut rng, idx, run, tier);
        scripts.push((run, turns));
        second.push(Action::Post {
            class: format!("{class}@missing_summary"),
            content: format!("after compaction {}", mark_prompt(run)),
            with_override: false,
        });
    }
    let (class, content) = envelope(&mut rng, &format!("E{idx}"));
    second.push(Action::Post { class, content, with_override: false });
    if variant % 2 == 1 {
        second.push(Action::CompactionSchedule { stride: 2, execute: true, block_on_inflight: false });
    }
    Case {
        idx,
        kind: "compile_failure",
        provider_configured: true,
        choice_label: "auto",
        stateless: variant >= 2,
        noise_us: if variant % 2 == 0 { 0 } else { 300 },
        seed_messages: 5,
        phases: vec![vec![Action::CompactionAuto { stride: 2, max_new: 2, dry_run: false }], second],
        delete_blobs_before_phase: Some(1),
        scripts,
    }
}

fn make_case(seed: u64, idx: u64, tier: Tier) -> Case {
    if idx < sweep_cases() {
        sweep_case(idx)
    } else if idx < sweep_cases() + COMPILE_FAIL_CASES {
        compile_failure_case(seed, idx, tier)
    } else {
        random_case(seed, idx, tier)
    }
}

// ------------------------------------------------------------------------------------------------

pub fn run(cfg: &Cfg) -> i32 {
    let mut r = Report::new(
        "C07",
        "exploration",
        "seeded thread workloads through the router: 1–3 phases of 1–6 parallel posts (prompt | tool envelope | \
         checkpoint envelope) + compaction-auto / compaction-auto-schedule posts; prompts run scripted provider \
         conversations (text, 1–4 tool turns, malformed/schema-invalid events, HTTP 400/401/429/500 ± body, reset \
         at byte k, missing [DONE], empty body, headers only, endless tools, unrepresentable answers, no response \
         id, deleted summary artifact → compile failure); the first cases sweep the reset offset k over every \
         byte of a short two-turn script (first response / follow-up response); seeded delays at session.emit.* / \
         log.append.* / cont.cache.*; non-trivial = ≥1 accepted run judged to its closing frame; distinct = distinct \
         multisets of (input class → end reason) × parallelism × job activity. Background jobs: entry point (2 routes, \
         2 store calls) × fault (artifact store unusable from the start / between cuts / before the summary rename, \
         workspace removed / a file, cache files damaged before / while the job runs, message burst, delays, none) × \
         1–4 sequential or concurrent jobs, then one more job after the fault is undone; distinct = multiset of \
         (entry @ fault → terminal status)",
    );
    r.assume("the judged log is read after quiescence (all accepted runs ended or watchdog); a run is declared stuck only when the provider has been idle, no tool is executing and the log has not grown for 3 s");
    let s = sched();
    let rt = runtime(8);

    if let Some(path) = &cfg.replay {
        let doc: Value = std::fs::read(path)
            .ok()
            .and_then(|b| serde_json::from_slice(&b).ok())
            .unwrap_or(Value::Null);
        let seed = doc.get("seed").and_then(|x| x.as_u64()).unwrap_or(cfg.seed);
        let tier = if doc.get("tier").and_then(|x| x.as_str()) == Some("thorough") { Tier::Thorough } else { Tier::Quick };
        let job_case = doc.get("witness").and_then(|w| w.get("job_case")).and_then(|x| x.as_u64());
        match doc.get("witness").and_then(|w| w.get("case")).and_then(|x| x.as_u64()) {
            _ if job_case.is_some() => {
                let idx = job_case.unwrap_or(0);
                jobs::one_case(&mut r, &s, &rt, jobs::make_case(seed, idx, tier), seed, tier);
            }
            Some(idx) => one_case(&mut r, &s, &rt, make_case(seed, idx, tier), seed),
            None => r.fatal_inconclusive("replay file has no witness.case"),
        }
        s.reset();
        return r.finish(cfg);
    }

    // background jobs under faults (own case space; directed matrix + seeded random part)
    let job_cases = jobs::run_all(cfg, &mut r, &s, &rt);
    r.count("job_fault_cases_run", job_cases);

    let max_cases = cfg.tier.pick(2_000u64, 10_000_000u64);
    let mut idx = 0u64;
    while idx < max_cases && !r.over(cfg) {
        let i = idx;
        idx += 1;
        if !cfg.mine(i) {
            continue;
        }
        one_case(&mut r, &s, &rt, make_case(cfg.seed, i, cfg.tier), cfg.seed);
    }
    s.reset();
    r.note(
        "reset_sweep",
        json!({"short_body_bytes": sweep_body_len(), "offsets_swept": format!("0..{}", sweep_cases() as usize / 2 * SWEEP_SLICE),
               "flavours": ["reset inside the first response (tool call in the body)", "reset inside the follow-up response (after a tool ran)"],
               "cases": sweep_cases()}),
    );
    if r.counters.get("runs_judged_to_closing_frame").copied().unwrap_or(0) == 0 && r.evaluations > 0 {
        r.fatal_inconclusive("no run was judged");
    }
    drop(rt);
    r.finish(cfg)
}

#[derive(Clone, Debug)]
struct Posted {
    class: String,
    status: u16,
    message_id: String,
    session_id: String,
}

#[derive(Clone, Debug)]
struct JobPost {
    route: &'static str,
    status: u16,
    job_id: Option<String>,
    executes: bool,
}

fn count_lines(path: &std::path::Path, needle: &str) -> usize {
    let bytes = std::fs::read(path).unwrap_or_default();
    String::from_utf8_lossy(&bytes).matches(needle).count()
}

fn one_case(r: &mut Report, s: &Arc<Sched>, rt: &tokio::runtime::Runtime, case: Case, seed: u64) {
    let t_case = Instant::now();
    let store = Store::new("c07");
    let scripted = Scripted::start();
    for (run, turns) in &case.scripts {
        scripted.set_run(*run, turns.clone());
    }
    let endpoint = scripted.provider.endpoint();
    let config = if case.provider_configured {
        Some(OpenResponsesConfig {
            endpoint: endpoint.clone(),
            api_key: None,
            model: Some("m".into()),
            headers: vec![],
            tool_choice: parse_tool_choice(case.choice_label).unwrap_or_else(|_| ToolChoiceParam::auto()),
            followup_user_message: None,
            stateless_history: case.stateless,
            parallel_tool_calls: false,
        })
    } else {
        None
    };
    s.reset();
    if case.noise_us > 0 {
        s.set_noise(
            seed ^ case.idx,
            &[
                ("session.emit.*", case.noise_us),
                ("log.append.enter", case.noise_us),
                ("log.append.after_body", case.noise_us / 4),
                ("cont.cache.enter", case.noise_us / 2),
                ("cont.cache.exit", case.noise_us / 2),
                ("ws.side_effects.before_append", case.noise_us),
            ],
        );
    }
    let app = match App::open(&store, config) {
        Ok(a) => a,
        Err(e) => {
            r.inconclusive(&format!("case {}: engine open failed: {e}", case.idx));
            return;
        }
    };
    let log_path = store.log_path();
    let quick_watchdog = Duration::from_secs(25);
    let mut posted: Vec<Posted> = Vec::new();
    let mut jobs: Vec<JobPost> = Vec::new();
    let mut stuck = false;
    let mut jobs_late = false;
    let mut any_post_failed = false;

    let thread_id: String = rt.block_on(async {
        let (_, v) = app.json("POST", "/threads/ensure", None).await;
        v.get("thread_id").and_then(|x| x.as_str()).unwrap_or("").to_string()
    });
    if thread_id.is_empty() {
        r.inconclusive(&format!("case {}: /threads/ensure failed", case.idx));
        return;
    }
    for m in 0..case.seed_messages {
        let _ = app
            .store()
            .append_message(&thread_id, "user".into(), "rv".into(), format!("seed message {m}"));
    }

    for (pi, phase) in case.phases.iter().enumerate() {
        if case.delete_blobs_before_phase == Some(pi) {
            let blobs = store.ws.join(".rip").join("artifacts").join("blobs");
            if let Ok(rd) = std::fs::read_dir(&blobs) {
                let mut n = 0;
                for e in rd.flatten() {
                    if std::fs::remove_file(e.path()).is_ok() {
                        n += 1;
                    }
                }
                r.count("artifact_blobs_deleted", n);
            }
        }
        let results: Vec<(usize, u16, Value)> = rt.block_on(async {
            let mut joins = Vec::new();
            for (ai, a) in phase.iter().enumerate() {
                let app = app.clone();
                let a = a.clone();
                let tid = thread_id.clone();
                let endpoint = endpoint.clone();
                joins.push(tokio::spawn(async move {
                    match a {
                        Action::Post { content, with_override, .. } => {
                            let mut body = json!({"content": content});
                            if with_override {
                                body["openresponses"] = json!({"endpoint": endpoint, "model": "m2"});
                            }
                            let (st, v) = app.json("POST", &format!("/threads/{tid}/messages"), Some(&body)).await;
                            (ai, st, v)
                        }
                        Action::CompactionAuto { stride, max_new, dry_run } => {
                            let body = json!({"stride_messages": stride, "max_new_checkpoints": max_new,
                                              "dry_run": dry_run, "actor_id": "", "origin": ""});
                            let (st, v) = app.json("POST", &format!("/threads/{tid}/compaction-auto"), Some(&body)).await;
                            (ai, st, v)
                        }
                        Action::CompactionSchedule { stride, execute, block_on_inflight } => {
                            let body = json!({"stride_messages": stride, "max_new_checkpoints": 2, "execute": execute,
                                              "block_on_inflight": block_on_inflight, "dry_run": false,
                                              "actor_id": "", "origin": ""});
                            let (st, v) = app
                                .json("POST", &format!("/threads/{tid}/compaction-auto-schedule"), Some(&body))
                                .await;
                            (ai, st, v)
                        }
                    }
                }));
            }
            let mut out = Vec::new();
            for j in joins {
                if let Ok(x) = j.await {
                    out.push(x);
                }
            }
            out
        });
        for (ai, st, v) in results {
            match &phase[ai] {
                Action::Post { class, .. } => {
                    if st != 202 {
                        any_post_failed = true;
                    }
                    posted.push(Posted {
                        class: class.clone(),
                        status: st,
                        message_id: v.get("message_id").and_then(|x| x.as_str()).unwrap_or("").to_string(),
                        session_id: v.get("session_id").and_then(|x| x.as_str()).unwrap_or("").to_string(),
                    });
                }
                Action::CompactionAuto { .. } => jobs.push(JobPost {
                    route: "compaction-auto",
                    status: st,
                    job_id: v.get("job_id").and_then(|x| x.as_str()).map(|s| s.to_string()),
                    executes: st == 202,
                }),
                Action::CompactionSchedule { execute, .. } => jobs.push(JobPost {
                    route: "compaction-auto-schedule",
                    status: st,
                    job_id: v.get("job_id").and_then(|x| x.as_str()).map(|s| s.to_string()),
                    executes: st == 202 && *execute,
                }),
            }
        }
        // await the runs posted so far (watchdog), then give executed jobs a short grace period: a job
        // that never logs job_ended is not a C07 matter ("ended at most once"), it is only counted
        let accepted = posted.iter().filter(|p| p.status == 202).count();
        let expected_job_ends = jobs.iter().filter(|j| j.executes && j.job_id.is_some()).count();
        let done = rt
            .block_on(wait_for(quick_watchdog, || {
                if count_lines(&log_path, "\"type\":\"continuity_run_ended\"") >= accepted {
                    Some(())
                } else {
                    None
                }
            }))
            .is_some();
        if !done {
            stuck = true;
            break;
        }
        let jobs_done = rt
            .block_on(wait_for(Duration::from_secs(2), || {
                if count_lines(&log_path, "\"type\":\"continuity_job_ended\"") >= expected_job_ends {
                    Some(())
                } else {
                    None
                }
            }))
            .is_some();
        if !jobs_done {
            jobs_late = true;
        }
    }

    // quiescence analysis when the watchdog fired
    let mut sure_nothing_in_flight = false;
    if stuck {
        let t0 = Instant::now();
        let mut last_len = std::fs::metadata(&log_path).map(|m| m.len()).unwrap_or(0);
        let mut stable_since = Instant::now();
        while t0.elapsed() < Duration::from_secs(8) {
            std::thread::sleep(Duration::from_millis(100));
            let len = std::fs::metadata(&log_path).map(|m| m.len()).unwrap_or(0);
            if len != last_len {
                last_len = len;
                stable_since = Instant::now();
            }
            let tools_idle = s.count_of("ws.exec.begin") == s.count_of("ws.exec.end");
            if stable_since.elapsed() > Duration::from_secs(3) && scripted.idle_for(3000) && tools_idle {
                sure_nothing_in_flight = true;
                break;
            }
        }
    } else {
        // trailing appends of the last run (nothing is appended after run_ended / job_ended)
        std::thread::sleep(Duration::from_millis(2));
    }
    let hook_counts = s.counts();
    drop(app);
    if jobs_late {
        // let a late job finish writing before the log is read
        std::thread::sleep(Duration::from_millis(300));
    }
    judge(r, &store, &scripted, &case, &posted, &jobs, &thread_id, seed, stuck, sure_nothing_in_flight, any_post_failed, jobs_late);
    r.count("tool_executions_observed(ws.exec.begin)", hook_counts.get("ws.exec.begin").copied().unwrap_or(0));
    r.count("sse_chunks_fed_to_decoder", hook_counts.get("sse.chunk").copied().unwrap_or(0));
    s.reset();
    let took = t_case.elapsed();
    if took > Duration::from_secs(5) {
        r.count("cases_slower_than_5s", 1);
        let mut slow = r.extra.get("slow_cases").and_then(|v| v.as_array().cloned()).unwrap_or_default();
        if slow.len() < 8 {
            slow.push(json!({"case": case.idx, "kind": case.kind, "seconds": took.as_secs_f64(), "watchdog_fired": stuck,
                             "jobs_late": jobs_late, "posts": posted.len()}));
            r.note("slow_cases", Value::Array(slow));
        }
    }
}

#[allow(clippy::too_many_arguments)]
fn judge(
    r: &mut Report,
    store: &Store,
    scripted: &Scripted,
    case: &Case,
    posted: &[Posted],
    jobs: &[JobPost],
    thread_id: &str,
    seed: u64,
    stuck: bool,
    sure_nothing_in_flight: bool,
    any_post_failed: bool,
    jobs_late: bool,
) {
    let idx = case.idx;
    let witness = |detail: Value| {
        json!({
            "case": idx, "seed": seed, "kind": case.kind, "provider_configured": case.provider_configured,
            "tool_choice": case.choice_label, "stateless_history": case.stateless, "noise_us": case.noise_us,
            "phases": case.phases.iter().map(|p| p.iter().map(|a| match a {
                Action::Post { class, with_override, .. } => json!({"post": class, "override": with_override}),
                Action::CompactionAuto { stride, max_new, dry_run } => json!({"compaction_auto": [stride, max_new, dry_run]}),
                Action::CompactionSchedule { stride, execute, block_on_inflight } => json!({"compaction_schedule": [stride, execute, block_on_inflight]}),
            }).collect::<Vec<_>>()).collect::<Vec<_>>(),
            "delete_blobs_before_phase": case.delete_blobs_before_phase,
            "detail": detail,
        })
    };
    // read the log (retry while a trailing line is being written by a stuck-but-alive run)
    let mut frames = None;
    for _ in 0..20 {
        match truth::parse_log(&store.log_bytes_settled()) {
            Ok(f) => {
                frames = Some(f);
                break;
            }
            Err(_) => std::thread::sleep(Duration::from_millis(20)),
        }
    }
    let Some(frames) = frames else {
        r.inconclusive(&format!("case {idx}: event log not parseable after quiescence"));
        return;
    };
    r.eval();
    r.count("frames_judged", frames.len() as u64);
    r.count("provider_requests", scripted.provider.request_count() as u64);
    let thread: Vec<&truth::Frame> = truth::stream(&frames, "continuity", thread_id);
    let class_of: HashMap<&str, &str> = posted
        .iter()
        .filter(|p| p.status == 202)
        .map(|p| (p.session_id.as_str(), p.class.as_str()))
        .collect();

    // ---- 1. one run_spawned per accepted post
    let spawned: Vec<&&truth::Frame> = thread.iter().filter(|f| f.ty() == "continuity_run_spawned").collect();
    let mut accepted_msgs: HashSet<&str> = HashSet::new();
    for p in posted.iter().filter(|p| p.status == 202) {
        accepted_msgs.insert(p.message_id.as_str());
        let mine: Vec<&&&truth::Frame> = spawned.iter().filter(|f| f.s("message_id") == p.message_id).collect();
        if mine.len() != 1 {
            r.violation(
                &format!("C07/run_spawned_count/{}", if mine.is_empty() { "missing" } else { "duplicated" }),
                &format!("accepted post ({}) has {} continuity_run_spawned frames for its message", p.class, mine.len()),
                witness(json!({"message_id": p.message_id, "count": mine.len(), "class": p.class})),
            );
            continue;
        }
        if mine[0].s("run_session_id") != p.session_id {
            r.violation(
                "C07/run_spawned_links_other_session",
                "continuity_run_spawned names a different session than the 202 response",
                witness(json!({"message_id": p.message_id, "frame": mine[0].s("run_session_id"), "response": p.session_id})),
            );
        }
        // the message itself precedes its run_spawned
        let msg_line = thread.iter().find(|f| f.ty() == "continuity_message_appended" && f.id() == p.message_id).map(|f| f.line_no);
        if let Some(ml) = msg_line {
            if ml > mine[0].line_no {
                r.violation(
                    "C07/run_spawned_before_message",
                    "continuity_run_spawned is logged before the message it belongs to",
                    witness(json!({"message_id": p.message_id})),
                );
            }
        }
    }
    if !any_post_failed {
        for f in &spawned {
            if !accepted_msgs.contains(f.s("message_id")) {
                r.violation(
                    "C07/run_spawned_for_unposted_message",
                    "a continuity_run_spawned frame exists for a message no accepted post created",
                    witness(json!({"message_id": f.s("message_id")})),
                );
            }
        }
    }
    r.count("posts_accepted", accepted_msgs.len() as u64);
    r.count("posts_rejected", posted.iter().filter(|p| p.status != 202).count() as u64);

    // ---- 2. per spawned run
    let mut shape: Vec<String> = Vec::new();
    let mut judged_runs = 0u64;
    let mut seen_sids: HashSet<&str> = HashSet::new();
    for sp in &spawned {
        let sid = sp.s("run_session_id");
        if !seen_sids.insert(sid) {
            continue; // duplicate spawn already reported above
        }
        let class = class_of.get(sid).copied().unwrap_or("unknown");
        // signatures use the input kind only (+ the end reason where the closing frames are concerned)
        let kind = class.split('/').next().unwrap_or("unknown");
        let sess: Vec<&truth::Frame> = truth::stream(&frames, "session", sid);
        let ended: Vec<&&truth::Frame> = thread
            .iter()
            .filter(|f| f.ty() == "continuity_run_ended" && f.s("run_session_id") == sid)
            .collect();
        let sess_ended: Vec<&&truth::Frame> = sess.iter().filter(|f| f.ty() == "session_ended").collect();
        let reason = sess_ended.last().map(|f| f.s("reason")).unwrap_or("");

        if ended.is_empty() {
            // missing closing frame
            if stuck && sure_nothing_in_flight {
                let sig = if sess_ended.is_empty() {
                    format!("C07/run_never_ended/{kind}")
                } else {
                    format!("C07/run_ended_missing_after_session_ended/{kind}/{reason}")
                };
                r.violation(
                    &sig,
                    &format!(
                        "run ({class}) has no continuity_run_ended although the provider served everything, no tool is \
                         executing and the log has been silent for 3 s (session frames: {}, session_ended: {})",
                        sess.len(),
                        sess_ended.len()
                    ),
                    witness(json!({"session_id": sid, "class": class, "session_frames": sess.len(),
                                   "last_session_frame": sess.last().map(|f| f.ty().to_string()),
                                   "provider_requests": scripted.provider.request_count()})),
                );
            } else {
                r.inconclusive(&format!("case {idx}: run ({class}) not ended at watchdog, work possibly in flight"));
            }
            continue;
        }
        judged_runs += 1;
        if ended.len() > 1 {
            r.violation(
                &format!("C07/run_ended_duplicated/{kind}/{reason}"),
                &format!("run has {} continuity_run_ended frames", ended.len()),
                witness(json!({"session_id": sid, "count": ended.len(), "class": class})),
            );
        }
        // session stream shape
        match sess.first() {
            Some(f) if f.ty() == "session_started" && f.seq() == 0 => {}
            other => {
                r.violation(
                    &format!("C07/session_not_started_at_seq0/{kind}"),
                    "the session stream does not start with session_started at seq 0",
                    witness(json!({"session_id": sid, "first": other.map(|f| json!({"type": f.ty(), "seq": f.seq()}))})),
                );
            }
        }
        if sess.iter().filter(|f| f.ty() == "session_started").count() > 1 {
            r.violation(
                &format!("C07/session_started_duplicated/{kind}"),
                "more than one session_started frame",
                witness(json!({"session_id": sid})),
            );
        }
        if sess_ended.len() != 1 {
            r.violation(
                &format!(
                    "C07/session_ended_count/{}/{kind}/{}",
                    if sess_ended.is_empty() { "missing" } else { "duplicated" },
                    ended[0].s("reason")
                ),
                &format!("session stream has {} session_ended frames (run ended with {:?})", sess_ended.len(), ended[0].s("reason")),
                witness(json!({"session_id": sid, "count": sess_ended.len(), "class": class,
                               "reasons": sess_ended.iter().map(|f| f.s("reason").to_string()).collect::<Vec<_>>()})),
            );
        }
        if let Some(last_end) = sess_ended.last() {
            if let Some(last) = sess.last() {
                if last.line_no != last_end.line_no {
                    r.violation(
                        &format!("C07/frames_after_session_ended/{kind}/{reason}"),
                        &format!("session_ended is not the last frame of the session stream (a {} frame follows)", last.ty()),
                        witness(json!({"session_id": sid, "after": last.ty(), "class": class})),
                    );
                }
            }
            let max_seq = sess.iter().map(|f| f.seq()).max().unwrap_or(0);
            if last_end.seq() != max_seq {
                r.violation(
                    &format!("C07/session_ended_not_highest_seq/{kind}/{reason}"),
                    "session_ended does not carry the highest seq of its stream",
                    witness(json!({"session_id": sid, "ended_seq": last_end.seq(), "max_seq": max_seq})),
                );
            }
            // run_ended after the run's own terminal session frame
            if ended[0].line_no < last_end.line_no {
                r.violation(
                    &format!("C07/run_ended_before_session_ended/{kind}/{reason}"),
                    "continuity_run_ended is logged before the run's own session_ended",
                    witness(json!({"session_id": sid, "run_ended_line": ended[0].line_no, "session_ended_line": last_end.line_no})),
                );
            }
        }
        // thread-side order for this run
        let mine: Vec<&&truth::Frame> = thread
            .iter()
            .filter(|f| f.s("run_session_id") == sid)
            .collect();
        let pos = |ty: &str| -> Vec<usize> { mine.iter().filter(|f| f.ty() == ty).map(|f| f.line_no).collect() };
        let p_spawn = sp.line_no;
        let p_dec = pos("continuity_context_selection_decided");
        let p_comp = pos("continuity_context_compiled");
        let p_fx = pos("continuity_tool_side_effects");
        let p_cur = pos("continuity_provider_cursor_updated");
        let p_end = ended[0].line_no;
        if p_dec.len() > 1 || p_comp.len() > 1 || p_cur.len() > 1 {
            r.violation(
                &format!("C07/duplicate_context_frames/{kind}"),
                &format!("run has {} selection-decided, {} context-compiled, {} cursor-updated frames", p_dec.len(), p_comp.len(), p_cur.len()),
                witness(json!({"session_id": sid})),
            );
        }
        if p_dec.is_empty() != p_comp.is_empty() {
            r.violation(
                &format!("C07/selection_and_compiled_not_paired/{kind}/{reason}"),
                &format!("run has {} selection-decided but {} context-compiled frames", p_dec.len(), p_comp.len()),
                witness(json!({"session_id": sid})),
            );
        }
        let mut order_ok = true;
        let mut why = String::new();
        let mut need = |cond: bool, what: &str| {
            if !cond && order_ok {
                order_ok = false;
                why = what.to_string();
            }
        };
        for f in &mine {
            if f.ty() != "continuity_run_spawned" {
                need(f.line_no > p_spawn, "a run frame precedes run_spawned");
            }
            if f.ty() != "continuity_run_ended" {
                need(f.line_no < p_end, "a run frame follows run_ended");
            }
        }
        if let (Some(d), Some(c)) = (p_dec.first(), p_comp.first()) {
            need(d < c, "context_compiled precedes context_selection_decided");
        }
        if let Some(c) = p_comp.first().or(p_dec.first()) {
            for x in p_fx.iter().chain(p_cur.iter()) {
                need(x > c, "tool side effects / cursor update precede the context frames");
            }
        }
        if !order_ok {
            r.violation(
                &format!("C07/run_frame_order/{}/{kind}", why.replace(' ', "_").replace('/', "-")),
                &format!("thread frames of one run are out of causal order: {why}"),
                witness(json!({"session_id": sid, "class": class,
                               "frames": mine.iter().map(|f| json!([f.line_no, f.ty()])).collect::<Vec<_>>()})),
            );
        }
        r.count("tool_side_effect_frames", p_fx.len() as u64);
        r.count("cursor_updated_frames", p_cur.len() as u64);
        r.count("context_compiled_frames", p_comp.len() as u64);
        r.count(&format!("end_reason_{}", if reason.is_empty() { "none" } else { reason }), 1);
        shape.push(format!("{class}->{reason}/fx{}", p_fx.len().min(3)));
        r.count(&format!("run_class_{}", class.split('@').next().unwrap_or(class)), 1);
    }
    r.count("runs_judged_to_closing_frame", judged_runs);

    // ---- 3. sessions that are not linked to a spawned run must not exist here
    let mut session_ids: HashSet<&str> = HashSet::new();
    for f in &frames {
        if f.stream_kind() == "session" {
            session_ids.insert(f.stream_id());
        }
    }
    r.count("session_streams_seen", session_ids.len() as u64);

    // ---- 4. jobs
    let mut job_spawn: BTreeMap<&str, Vec<usize>> = BTreeMap::new();
    let mut job_end: BTreeMap<&str, Vec<usize>> = BTreeMap::new();
    for f in &thread {
        match f.ty() {
            "continuity_job_spawned" => job_spawn.entry(f.s("job_id")).or_default().push(f.line_no),
            "continuity_job_ended" => job_end.entry(f.s("job_id")).or_default().push(f.line_no),
            _ => {}
        }
    }
    for (job, sp) in &job_spawn {
        let en = job_end.get(job).cloned().unwrap_or_default();
        if sp.len() != 1 {
            r.violation(
                "C07/job_spawned_duplicated",
                &format!("job has {} continuity_job_spawned frames", sp.len()),
                witness(json!({"job_id": job})),
            );
        }
        if en.len() > 1 {
            r.violation(
                "C07/job_ended_more_than_once",
                &format!("job has {} continuity_job_ended frames", en.len()),
                witness(json!({"job_id": job, "ended": en.len()})),
            );
        }
        if let (Some(s0), Some(e0)) = (sp.first(), en.first()) {
            if e0 < s0 {
                r.violation(
                    "C07/job_ended_before_spawned",
                    "continuity_job_ended precedes continuity_job_spawned",
                    witness(json!({"job_id": job})),
                );
            }
        }
    }
    for job in job_end.keys() {
        if !job_spawn.contains_key(job) {
            r.violation(
                "C07/job_ended_without_spawn",
                "continuity_job_ended for a job id that was never spawned",
                witness(json!({"job_id": job})),
            );
        }
    }
    for j in jobs {
        if let Some(id) = &j.job_id {
            if j.status == 202 && !job_spawn.contains_key(id.as_str()) {
                r.violation(
                    &format!("C07/job_accepted_without_spawn_frame/{}", j.route),
                    "a 202 job response names a job id that has no continuity_job_spawned frame",
                    witness(json!({"job_id": id, "route": j.route})),
                );
            }
        }
    }
    if stuck || jobs_late {
        let unended_jobs: Vec<&str> = jobs
            .iter()
            .filter(|j| j.executes)
            .filter_map(|j| j.job_id.as_deref())
            .filter(|id| !job_end.contains_key(id))
            .collect();
        if !unended_jobs.is_empty() {
            r.count("executed_jobs_without_job_ended_after_grace", unended_jobs.len() as u64);
        }
    }
    r.count("jobs_spawned", job_spawn.len() as u64);
    r.count("jobs_ended", job_end.len() as u64);
    r.count("job_posts", jobs.len() as u64);

    if judged_runs > 0 {
        shape.sort();
        let par = case.phases.iter().map(|p| p.len()).max().unwrap_or(0);
        r.distinct_str(&format!("{}|par{}|jobs{}|{}", case.kind, par, job_spawn.len().min(3), shape.join(",")));
    }
    if r.samples.len() < r.max_samples && (case.kind != "reset_sweep" || idx == 0) {
        let mut shape_counts: BTreeMap<String, u32> = BTreeMap::new();
        for x in &shape {
            *shape_counts.entry(x.clone()).or_insert(0) += 1;
        }
        let shape = shape_counts;
        r.sample(json!({
            "case": idx, "kind": case.kind, "provider_configured": case.provider_configured, "tool_choice": case.choice_label,
            "phases": case.phases.iter().map(|p| p.len()).collect::<Vec<_>>(),
            "runs": shape, "jobs_spawned": job_spawn.len(), "jobs_ended": job_end.len(),
            "frames": frames.len(), "provider_requests": scripted.provider.request_count(),
        }));
    }
}
