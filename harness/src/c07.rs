//! C07 — monitor not built yet.
use crate::report::{Cfg, Report};

pub fn run(cfg: &Cfg) -> i32 {
    let mut r = Report::new("C07", "exploration", "not built");
    r.fatal_inconclusive("monitor not built yet");
    r.finish(cfg)
}
