//! Fake authority for C20: the scripted raw-TCP server of `provider.rs` answering the three
//! endpoints the headless `rip run --server <url>` client talks to
//!
//!   POST /threads/ensure            -> 200 {"thread_id": …}
//!   POST /threads/{id}/messages     -> 202 {"thread_id","message_id","session_id"}
//!   GET  /sessions/{sid}/events     -> 200 text/event-stream, `data: <frame json>\n\n` per frame
//!
//! The stream served for a run is selected by the *prompt* (`content` of the posted message): the
//! monitor registers `prompt -> StreamSpec` before it starts the real binary with that prompt.
//! The body is sent with a chosen HTTP chunking (chunk edges may fall inside a multi-byte
//! character or inside the `data:` prefix) so chunking invariance of the renderers is observable.
//!
//! Included from c20.rs with `#[path = "fakeauth.rs"] mod fakeauth;` (main.rs is not edited).
//! Stand-alone: `rv fakeauth --frames FILE.jsonl [--chunk N] [--port-file P]` (see `standalone`).

use crate::provider::{Provider, Recorded, Reply, Script};
use serde_json::{json, Value};
use std::collections::HashMap;
use std::sync::{Arc, Mutex};

#[derive(Clone, Debug, Default)]
pub struct StreamSpec {
    /// complete SSE body
    pub body: Vec<u8>,
    /// HTTP chunk sizes (remainder goes out as one chunk); empty = one chunk
    pub chunks: Vec<usize>,
    pub pause_us: u64,
}

pub struct FakeAuthority {
    provider: Provider,
    streams: Arc<Mutex<HashMap<String, StreamSpec>>>,
    default_stream: Arc<Mutex<Option<StreamSpec>>>,
}

/// session id derived from the prompt (only [A-Za-z0-9_-] survive; the rest is hashed in)
pub fn session_id_for(prompt: &str) -> String {
    let clean: String = prompt
        .chars()
        .filter(|c| c.is_ascii_alphanumeric() || *c == '-' || *c == '_')
        .take(40)
        .collect();
    format!("fs-{clean}-{:08x}", crate::prng::fnv_str(prompt) as u32)
}

impl FakeAuthority {
    pub fn start() -> FakeAuthority {
        let streams: Arc<Mutex<HashMap<String, StreamSpec>>> = Arc::new(Mutex::new(HashMap::new()));
        let default_stream: Arc<Mutex<Option<StreamSpec>>> = Arc::new(Mutex::new(None));
        let s2 = streams.clone();
        let d2 = default_stream.clone();
        let script: Script = Arc::new(move |rec: &Recorded| route(rec, &s2, &d2));
        FakeAuthority {
            provider: Provider::start(script),
            streams,
            default_stream,
        }
    }

    pub fn base_url(&self) -> String {
        format!("http://{}", self.provider.addr)
    }

    pub fn port(&self) -> u16 {
        self.provider.addr.port()
    }

    /// Serve `spec` to the run whose prompt is `prompt`.
    pub fn register(&self, prompt: &str, spec: StreamSpec) {
        self.streams.lock().unwrap().insert(session_id_for(prompt), spec);
    }

    pub fn unregister(&self, prompt: &str) {
        self.streams.lock().unwrap().remove(&session_id_for(prompt));
    }

    /// Stream served for any prompt that was not registered.
    pub fn set_default(&self, spec: StreamSpec) {
        *self.default_stream.lock().unwrap() = Some(spec);
    }

    pub fn requests(&self) -> Vec<Recorded> {
        self.provider.requests()
    }

    pub fn request_count(&self) -> usize {
        self.provider.request_count()
    }
}

fn route(
    rec: &Recorded,
    streams: &Arc<Mutex<HashMap<String, StreamSpec>>>,
    default_stream: &Arc<Mutex<Option<StreamSpec>>>,
) -> Reply {
    let path = rec.path.split('?').next().unwrap_or("");
    if rec.method == "POST" && path == "/threads/ensure" {
        return Reply::status(200, json!({"thread_id": "fake-thread"}).to_string());
    }
    if rec.method == "POST" && path.starts_with("/threads/") && path.ends_with("/messages") {
        let content = rec
            .json()
            .and_then(|v| v.get("content").and_then(|c| c.as_str()).map(|s| s.to_string()))
            .unwrap_or_default();
        let sid = session_id_for(&content);
        return Reply::status(
            202,
            json!({"thread_id": "fake-thread", "message_id": "fake-message", "session_id": sid}).to_string(),
        );
    }
    if rec.method == "GET" && path.starts_with("/sessions/") && path.ends_with("/events") {
        let sid = &path["/sessions/".len()..path.len() - "/events".len()];
        let spec = streams
            .lock()
            .unwrap()
            .get(sid)
            .cloned()
            .or_else(|| default_stream.lock().unwrap().clone());
        return match spec {
            Some(s) => Reply::sse(s.body).chunked(s.chunks, s.pause_us),
            None => Reply::status(404, json!({"error": "unknown session"}).to_string()),
        };
    }
    Reply::status(404, json!({"error": "no such route"}).to_string())
}

/// SSE body exactly as the real server frames it (`SseEvent::default().data(json)`): one
/// `data: <json>` line and a blank line per frame. `keepalive_every = Some(n)` interleaves the
/// server's keep-alive comment (`:ping`) after every n-th frame — comments are not frames.
pub fn sse_body(payloads: &[String], keepalive_every: Option<usize>) -> Vec<u8> {
    let mut out = Vec::new();
    for (i, p) in payloads.iter().enumerate() {
        out.extend_from_slice(b"data: ");
        out.extend_from_slice(p.as_bytes());
        out.extend_from_slice(b"\n\n");
        if let Some(n) = keepalive_every {
            if n > 0 && (i + 1) % n == 0 {
                out.extend_from_slice(b":ping\n\n");
            }
        }
    }
    out
}

/// `rv fakeauth --frames FILE.jsonl [--chunk N] [--port-file P]` — serves the frames of FILE (one
/// JSON frame per line) to every `rip run "<anything>" --server http://127.0.0.1:PORT`.
pub fn standalone(args: &[String]) -> i32 {
    let mut frames_path: Option<String> = None;
    let mut chunk: Option<usize> = None;
    let mut port_file: Option<String> = None;
    let mut i = 0;
    while i < args.len() {
        match args[i].as_str() {
            "--frames" => {
                i += 1;
                frames_path = args.get(i).cloned();
            }
            "--chunk" => {
                i += 1;
                chunk = args.get(i).and_then(|s| s.parse().ok());
            }
            "--port-file" => {
                i += 1;
                port_file = args.get(i).cloned();
            }
            _ => {}
        }
        i += 1;
    }
    let Some(fp) = frames_path else {
        eprintln!("usage: rv fakeauth --frames FILE.jsonl [--chunk N] [--port-file P]");
        return 2;
    };
    let text = match std::fs::read_to_string(&fp) {
        Ok(t) => t,
        Err(e) => {
            eprintln!("cannot read {fp}: {e}");
            return 2;
        }
    };
    let mut payloads: Vec<String> = Vec::new();
    for line in text.lines() {
        let line = line.trim();
        if line.is_empty() {
            continue;
        }
        // a witness file may hold a JSON array of frames on one line
        if let Ok(Value::Array(items)) = serde_json::from_str::<Value>(line) {
            for it in items {
                payloads.push(match it {
                    Value::String(s) => s,
                    other => other.to_string(),
                });
            }
        } else {
            payloads.push(line.to_string());
        }
    }
    let body = sse_body(&payloads, None);
    let chunks = match chunk {
        Some(c) if c > 0 => vec![c; body.len() / c + 1],
        _ => Vec::new(),
    };
    let fa = FakeAuthority::start();
    fa.set_default(StreamSpec { body, chunks, pause_us: 0 });
    if let Some(pf) = port_file {
        let _ = std::fs::write(pf, fa.port().to_string());
    }
    println!("fake authority on {} serving {} frames", fa.base_url(), payloads.len());
    loop {
        std::thread::sleep(std::time::Duration::from_secs(3600));
    }
}
