//! Hand-written deterministic PRNG (SplitMix64 seeding xoshiro256**), no external crates.

#[derive(Clone, Debug)]
pub struct Rng {
    s: [u64; 4],
}

fn splitmix(state: &mut u64) -> u64 {
    *state = state.wrapping_add(0x9E37_79B9_7F4A_7C15);
    let mut z = *state;
    z = (z ^ (z >> 30)).wrapping_mul(0xBF58_476D_1CE4_E5B9);
    z = (z ^ (z >> 27)).wrapping_mul(0x94D0_49BB_1331_11EB);
    z ^ (z >> 31)
}

impl Rng {
    pub fn new(seed: u64) -> Self {
        let mut st = seed ^ 0xD1B5_4A32_D192_ED03;
        let s = [
            splitmix(&mut st),
            splitmix(&mut st),
            splitmix(&mut st),
            splitmix(&mut st),
        ];
        Rng { s }
    }

    /// Derive an independent stream (e.g. per case index).
    pub fn derive(seed: u64, lane: u64) -> Self {
        Rng::new(seed.wrapping_mul(0x9E37_79B9_7F4A_7C15) ^ lane.wrapping_mul(0xC2B2_AE3D_27D4_EB4F))
    }

    pub fn next_u64(&mut self) -> u64 {
        let result = self.s[1].wrapping_mul(5).rotate_left(7).wrapping_mul(9);
        let t = self.s[1] << 17;
        self.s[2] ^= self.s[0];
        self.s[3] ^= self.s[1];
        self.s[1] ^= self.s[2];
        self.s[0] ^= self.s[3];
        self.s[2] ^= t;
        self.s[3] = self.s[3].rotate_left(45);
        result
    }

    /// Uniform in 0..n (n > 0).
    pub fn below(&mut self, n: u64) -> u64 {
        if n == 0 {
            return 0;
        }
        self.next_u64() % n
    }

    pub fn usize(&mut self, n: usize) -> usize {
        self.below(n as u64) as usize
    }

    /// Uniform in lo..=hi.
    pub fn range(&mut self, lo: u64, hi: u64) -> u64 {
        if hi <= lo {
            return lo;
        }
        lo + self.below(hi - lo + 1)
    }

    pub fn chance(&mut self, num: u64, den: u64) -> bool {
        self.below(den) < num
    }

    pub fn bool(&mut self) -> bool {
        self.next_u64() & 1 == 1
    }

    pub fn pick<'a, T>(&mut self, items: &'a [T]) -> &'a T {
        &items[self.usize(items.len())]
    }

    pub fn shuffle<T>(&mut self, items: &mut [T]) {
        for i in (1..items.len()).rev() {
            let j = self.usize(i + 1);
            items.swap(i, j);
        }
    }

    pub fn bytes(&mut self, n: usize) -> Vec<u8> {
        (0..n).map(|_| self.next_u64() as u8).collect()
    }

    pub fn ascii(&mut self, n: usize) -> String {
        const A: &[u8] = b"abcdefghijklmnopqrstuvwxyzABCDEFGHIJKLMNOPQRSTUVWXYZ0123456789 _-.,";
        (0..n).map(|_| A[self.usize(A.len())] as char).collect()
    }

    pub fn ident(&mut self, n: usize) -> String {
        const A: &[u8] = b"abcdefghijklmnopqrstuvwxyz0123456789";
        (0..n).map(|_| A[self.usize(A.len())] as char).collect()
    }

    /// Text mixing ASCII, multi-byte, astral, and awkward characters.
    pub fn unicode(&mut self, n_chars: usize) -> String {
        const POOL: &[&str] = &[
            "a", "b", "Z", "0", " ", "\n", "\t", "\"", "\\", "/", "é", "ß", "ü", "Ω", "→", "中", "文",
            "日", "本", "🙂", "🚀", "𝄞", "\u{2028}", "\u{2029}", "\u{feff}", "\u{7f}", "\u{1}", "e\u{301}",
            "{", "}", "[", "]", ":", ",", "'", "<", ">", "&", "%", "\r",
        ];
        let mut s = String::new();
        for _ in 0..n_chars {
            s.push_str(POOL[self.usize(POOL.len())]);
        }
        s
    }

    pub fn hex(&mut self, n: usize) -> String {
        const A: &[u8] = b"0123456789abcdef";
        (0..n).map(|_| A[self.usize(A.len())] as char).collect()
    }
}

/// FNV-1a 64 for cheap shape hashing.
pub fn fnv(bytes: &[u8]) -> u64 {
    let mut h: u64 = 0xcbf2_9ce4_8422_2325;
    for b in bytes {
        h ^= *b as u64;
        h = h.wrapping_mul(0x0000_0100_0000_01b3);
    }
    h
}

pub fn fnv_str(s: &str) -> u64 {
    fnv(s.as_bytes())
}
