//! C18 — a store never has two authorities; a live authority's lock is never taken; a store whose
//! previous authority crashed becomes usable again.
//!
//! (A) in-process, driven: 1–6 contender threads run the real start-up recovery loop
//!     (`ripd::verif_export::acquire_authority_lock_with_recovery`) on one store from every leftover
//!     state. A monitor under its own mutex keeps the set of *observed* holders (added after the
//!     loop returned `Ok`, removed before the guard is dropped — observed holding intervals are
//!     subsets of the real ones, so an observed overlap is a real one) and, after every `auth.*`
//!     hook event, checks that `lock.json` still carries the single holder's record. Schedules:
//!     seeded noise at all `auth.*` points plus rendezvous scripts for each read-then-rename pair.
//! (B) multi-process: 2–12 real `rip serve` processes (plus `rip tasks list` clients, which run
//!     the client-side recovery loop and spawn authorities themselves) are started at once on one
//!     store in each leftover state, with random `RIP_VERIF_DELAY` delays at `auth.*`; the monitor
//!     counts which processes serve at once, checks `lock.json`/`meta.json` against the server,
//!     kills the winner with SIGKILL and repeats the round on the same store.

use crate::fixture::Store;
use crate::prng::{fnv_str, Rng};
use crate::report::{Cfg, Report};
use crate::sched::sched;
use serde_json::{json, Value};
use std::cell::Cell;
use std::collections::{BTreeMap, BTreeSet, HashMap};
use std::io::{Read, Write};
use std::net::{SocketAddr, TcpListener, TcpStream};
use std::os::unix::process::CommandExt;
use std::path::{Path, PathBuf};
use std::process::{Child, Command, Stdio};
use std::sync::atomic::{AtomicBool, Ordering};
use std::sync::{Arc, Condvar, Mutex, MutexGuard};
use std::time::{Duration, Instant};

// ---------------------------------------------------------------------------------------------
// shared small helpers (also used by c19.rs)

pub(crate) fn rip_bin() -> PathBuf {
    PathBuf::from(std::env::var("RV_RIP_BIN").unwrap_or_else(|_| "/verif/target/repo/release/rip".to_string()))
}

#[derive(Debug, Clone)]
pub(crate) struct HttpResp {
    pub status: u16,
    pub head: String,
    pub body: Vec<u8>,
    /// everything that came over the wire (head + undecoded body)
    pub raw: Vec<u8>,
}

fn dechunk(raw: &[u8]) -> Vec<u8> {
    let mut out = Vec::new();
    let mut i = 0;
    while i < raw.len() {
        let Some(eol) = raw[i..].windows(2).position(|w| w == b"\r\n") else {
            break;
        };
        let size_str = String::from_utf8_lossy(&raw[i..i + eol]).to_string();
        let Ok(size) = usize::from_str_radix(size_str.split(';').next().unwrap_or("0").trim(), 16) else {
            break;
        };
        i += eol + 2;
        if size == 0 {
            break;
        }
        let end = (i + size).min(raw.len());
        out.extend_from_slice(&raw[i..end]);
        i = end + 2;
    }
    out
}

/// One HTTP/1.1 exchange over a fresh connection. `until` (checked on the bytes read so far) ends
/// an endless (SSE) response early. None = could not connect / no parsable answer.
pub(crate) fn http_exchange(
    addr: &str,
    method: &str,
    path: &str,
    body: Option<&[u8]>,
    timeout: Duration,
    until: Option<&dyn Fn(&[u8]) -> bool>,
) -> Option<HttpResp> {
    let sock: SocketAddr = addr.parse().ok()?;
    let mut s = TcpStream::connect_timeout(&sock, Duration::from_millis(400)).ok()?;
    let _ = s.set_nodelay(true);
    let _ = s.set_write_timeout(Some(Duration::from_secs(2)));
    let mut req = format!("{method} {path} HTTP/1.1\r\nhost: {addr}\r\nconnection: close\r\naccept: */*\r\n");
    if let Some(b) = body {
        req.push_str(&format!("content-type: application/json\r\ncontent-length: {}\r\n", b.len()));
    }
    req.push_str("\r\n");
    s.write_all(req.as_bytes()).ok()?;
    if let Some(b) = body {
        s.write_all(b).ok()?;
    }
    let _ = s.flush();
    let deadline = Instant::now() + timeout;
    let mut raw: Vec<u8> = Vec::new();
    let mut tmp = [0u8; 16384];
    loop {
        let now = Instant::now();
        if now >= deadline {
            break;
        }
        let _ = s.set_read_timeout(Some((deadline - now).min(Duration::from_millis(50)).max(Duration::from_millis(1))));
        match s.read(&mut tmp) {
            Ok(0) => break,
            Ok(n) => {
                raw.extend_from_slice(&tmp[..n]);
                if let Some(f) = until {
                    if f(&raw) {
                        break;
                    }
                }
            }
            Err(e) if matches!(e.kind(), std::io::ErrorKind::WouldBlock | std::io::ErrorKind::TimedOut) => continue,
            Err(_) => break,
        }
    }
    let pos = raw.windows(4).position(|w| w == b"\r\n\r\n")?;
    let head = String::from_utf8_lossy(&raw[..pos]).to_string();
    let status: u16 = head.split(' ').nth(1)?.trim().parse().ok()?;
    let rest = &raw[pos + 4..];
    let body = if head.to_ascii_lowercase().contains("transfer-encoding: chunked") {
        dechunk(rest)
    } else {
        rest.to_vec()
    };
    Some(HttpResp { status, head, body, raw })
}

pub(crate) fn http_json(addr: &str, method: &str, path: &str, body: Option<&Value>, timeout: Duration) -> Option<(u16, Value, HttpResp)> {
    let bytes = body.map(|b| serde_json::to_vec(b).unwrap_or_default());
    let r = http_exchange(addr, method, path, bytes.as_deref(), timeout, None)?;
    let v = serde_json::from_slice(&r.body).unwrap_or(Value::Null);
    Some((r.status, v, r))
}

/// "http://127.0.0.1:1234" -> "127.0.0.1:1234"
pub(crate) fn host_port(endpoint: &str) -> String {
    endpoint
        .trim()
        .trim_start_matches("http://")
        .split('/')
        .next()
        .unwrap_or("")
        .to_string()
}

pub(crate) fn openapi_reachable(endpoint: &str) -> bool {
    match http_exchange(&host_port(endpoint), "GET", "/openapi.json", None, Duration::from_millis(1500), None) {
        Some(r) => r.status == 200,
        None => false,
    }
}

pub(crate) fn kill_pid(pid: u32, sig: i32) {
    if pid > 1 {
        unsafe {
            libc::kill(pid as i32, sig);
        }
    }
}

pub(crate) fn kill_group(pgid: u32, sig: i32) {
    if pgid > 1 {
        unsafe {
            libc::kill(-(pgid as i32), sig);
        }
    }
}

/// A child process whose stderr/stdout are collected by reader threads.
pub(crate) struct Proc {
    pub child: Child,
    pub pid: u32,
    pub out: Arc<Mutex<Vec<u8>>>,
    pub err: Arc<Mutex<Vec<u8>>>,
    pub exit: Option<i32>,
    readers: Vec<std::thread::JoinHandle<()>>,
}

impl Proc {
    pub fn spawn(mut cmd: Command) -> std::io::Result<Proc> {
        cmd.stdin(Stdio::null()).stdout(Stdio::piped()).stderr(Stdio::piped());
        let mut child = cmd.spawn()?;
        let pid = child.id();
        let out = Arc::new(Mutex::new(Vec::new()));
        let err = Arc::new(Mutex::new(Vec::new()));
        let mut readers = Vec::new();
        if let Some(mut so) = child.stdout.take() {
            let out = out.clone();
            readers.push(std::thread::spawn(move || {
                let mut buf = [0u8; 4096];
                while let Ok(n) = so.read(&mut buf) {
                    if n == 0 {
                        break;
                    }
                    out.lock().unwrap().extend_from_slice(&buf[..n]);
                }
            }));
        }
        if let Some(mut se) = child.stderr.take() {
            let err = err.clone();
            readers.push(std::thread::spawn(move || {
                let mut buf = [0u8; 4096];
                while let Ok(n) = se.read(&mut buf) {
                    if n == 0 {
                        break;
                    }
                    err.lock().unwrap().extend_from_slice(&buf[..n]);
                }
            }));
        }
        Ok(Proc { child, pid, out, err, exit: None, readers })
    }

    pub fn stderr_text(&self) -> String {
        String::from_utf8_lossy(&self.err.lock().unwrap()).to_string()
    }

    pub fn stdout_text(&self) -> String {
        String::from_utf8_lossy(&self.out.lock().unwrap()).to_string()
    }

    /// endpoint from the "ripd listening on http://…" line, once printed
    pub fn listening(&self) -> Option<String> {
        let t = self.stderr_text();
        // stderr is unbuffered: only a line that has been terminated is complete
        let complete = match t.rfind('\n') {
            Some(p) => &t[..p],
            None => return None,
        };
        for line in complete.lines() {
            if let Some(rest) = line.strip_prefix("ripd listening on ") {
                return Some(rest.trim().to_string());
            }
        }
        None
    }

    pub fn alive(&mut self) -> bool {
        if self.exit.is_some() {
            return false;
        }
        match self.child.try_wait() {
            Ok(Some(st)) => {
                self.exit = Some(st.code().unwrap_or(-1));
                false
            }
            Ok(None) => true,
            Err(_) => false,
        }
    }

    pub fn wait_exit(&mut self, timeout: Duration) -> Option<i32> {
        let start = Instant::now();
        while start.elapsed() < timeout {
            if !self.alive() {
                return self.exit;
            }
            std::thread::sleep(Duration::from_millis(5));
        }
        None
    }

    /// SIGKILL (if still running), reap, join the readers.
    pub fn finish(&mut self) {
        if self.alive() {
            let _ = self.child.kill();
        }
        let _ = self.child.wait();
        // readers end when the pipes close; a grandchild holding the pipe open must not hang us
        let readers = std::mem::take(&mut self.readers);
        let t0 = Instant::now();
        for r in readers {
            while !r.is_finished() && t0.elapsed() < Duration::from_millis(300) {
                std::thread::sleep(Duration::from_millis(2));
            }
            if r.is_finished() {
                let _ = r.join();
            }
        }
    }
}

// ---------------------------------------------------------------------------------------------
// leftover states

#[derive(Clone, Copy, Debug, PartialEq, Eq, Hash)]
enum Left {
    Nothing,
    DeadLock,
    DeadLockMeta,
    DeadLockMetaDrift,
    DeadMetaOnly,
    EmptyLock,
    HalfLock,
    ShapelessLock,
    HalfLockSplitUtf8,
    EmptyLockDeadMeta,
    LivePidLock,
    LivePidLockMeta,
    LiveEndpoint,
    LiveEndpointForeignPid,
}

const ALL_LEFT: &[Left] = &[
    Left::Nothing,
    Left::DeadLock,
    Left::DeadLockMeta,
    Left::DeadLockMetaDrift,
    Left::DeadMetaOnly,
    Left::EmptyLock,
    Left::HalfLock,
    Left::ShapelessLock,
    Left::HalfLockSplitUtf8,
    Left::EmptyLockDeadMeta,
    Left::LivePidLock,
    Left::LivePidLockMeta,
    Left::LiveEndpoint,
    Left::LiveEndpointForeignPid,
];

impl Left {
    fn name(&self) -> &'static str {
        match self {
            Left::Nothing => "nothing",
            Left::DeadLock => "dead_lock_only",
            Left::DeadLockMeta => "dead_lock_and_meta",
            Left::DeadLockMetaDrift => "dead_lock_and_meta_started_at_drift",
            Left::DeadMetaOnly => "dead_meta_only",
            Left::EmptyLock => "empty_lock",
            Left::HalfLock => "half_written_lock",
            Left::ShapelessLock => "lock_not_a_record",
            Left::HalfLockSplitUtf8 => "half_written_lock_split_utf8",
            Left::EmptyLockDeadMeta => "empty_lock_with_dead_meta",
            Left::LivePidLock => "live_pid_lock_only",
            Left::LivePidLockMeta => "live_pid_lock_and_meta",
            Left::LiveEndpoint => "live_pid_answering_endpoint",
            Left::LiveEndpointForeignPid => "answering_endpoint_pid_not_local",
        }
    }
    fn live(&self) -> bool {
        matches!(
            self,
            Left::LivePidLock | Left::LivePidLockMeta | Left::LiveEndpoint | Left::LiveEndpointForeignPid
        )
    }
    /// the corrupt-lock path (1 s grace) is needed before anybody can acquire
    fn corrupt(&self) -> bool {
        matches!(
            self,
            Left::EmptyLock | Left::HalfLock | Left::ShapelessLock | Left::HalfLockSplitUtf8 | Left::EmptyLockDeadMeta
        )
    }
    fn dead(&self) -> bool {
        matches!(self, Left::DeadLock | Left::DeadLockMeta | Left::DeadLockMetaDrift | Left::DeadMetaOnly)
    }
}

/// Things that have to stay alive while the planted state is in use.
struct Planted {
    dead_pid: Option<u32>,
    sleeper: Option<Child>,
    responder: Option<Responder>,
    lock_bytes: Option<Vec<u8>>,
    meta_bytes: Option<Vec<u8>>,
}

impl Drop for Planted {
    fn drop(&mut self) {
        if let Some(mut c) = self.sleeper.take() {
            let _ = c.kill();
            let _ = c.wait();
        }
    }
}

/// Minimal HTTP server that answers 200 to everything (a "reachable authority endpoint").
struct Responder {
    addr: SocketAddr,
    stop: Arc<AtomicBool>,
    thread: Option<std::thread::JoinHandle<()>>,
}

impl Responder {
    fn start() -> Responder {
        let l = TcpListener::bind("127.0.0.1:0").expect("bind responder");
        let addr = l.local_addr().expect("addr");
        l.set_nonblocking(true).expect("nonblocking");
        let stop = Arc::new(AtomicBool::new(false));
        let stop2 = stop.clone();
        let thread = std::thread::spawn(move || {
            while !stop2.load(Ordering::Relaxed) {
                match l.accept() {
                    Ok((mut s, _)) => {
                        std::thread::spawn(move || {
                            let _ = s.set_nonblocking(false);
                            let _ = s.set_read_timeout(Some(Duration::from_millis(500)));
                            let mut buf = [0u8; 2048];
                            let mut got = Vec::new();
                            while !got.windows(4).any(|w| w == b"\r\n\r\n") {
                                match s.read(&mut buf) {
                                    Ok(0) | Err(_) => break,
                                    Ok(n) => got.extend_from_slice(&buf[..n]),
                                }
                            }
                            let _ = s.write_all(
                                b"HTTP/1.1 200 OK\r\ncontent-type: application/json\r\ncontent-length: 2\r\nconnection: close\r\n\r\n{}",
                            );
                            let _ = s.flush();
                        });
                    }
                    Err(ref e) if e.kind() == std::io::ErrorKind::WouldBlock => std::thread::sleep(Duration::from_millis(1)),
                    Err(_) => break,
                }
            }
        });
        Responder { addr, stop, thread: Some(thread) }
    }
}

impl Drop for Responder {
    fn drop(&mut self) {
        self.stop.store(true, Ordering::Relaxed);
        if let Some(t) = self.thread.take() {
            let _ = t.join();
        }
    }
}

/// A pid that is certainly dead: a reaped child, or (pid_max permitting) a pid the kernel never hands out.
fn dead_pid(rng: &mut Rng) -> Option<u32> {
    if rng.chance(3, 4) {
        if let Ok(mut c) = Command::new("true").stdin(Stdio::null()).stdout(Stdio::null()).stderr(Stdio::null()).spawn() {
            let pid = c.id();
            let _ = c.wait();
            if ripd::pid_liveness(pid) == ripd::PidLiveness::Dead {
                return Some(pid);
            }
        }
    }
    let pid_max: u32 = std::fs::read_to_string("/proc/sys/kernel/pid_max")
        .ok()
        .and_then(|s| s.trim().parse().ok())
        .unwrap_or(4_194_304);
    let pid = pid_max + 1000 + rng.below(100_000) as u32;
    (ripd::pid_liveness(pid) == ripd::PidLiveness::Dead).then_some(pid)
}

/// port 1 (tcpmux) is privileged and unused: connections are refused and no test process can ever bind it
const REFUSED_ENDPOINT: &str = "http://127.0.0.1:1";

fn lock_json(pid: u32, started: u64, ws: &Path) -> Vec<u8> {
    let mut v = serde_json::to_vec(&json!({"pid": pid, "started_at_ms": started, "workspace_root": ws.to_string_lossy()})).unwrap();
    v.push(b'\n');
    v
}

fn meta_json(endpoint: &str, pid: u32, started: u64, ws: &Path) -> Vec<u8> {
    serde_json::to_vec(&json!({"endpoint": endpoint, "pid": pid, "started_at_ms": started, "workspace_root": ws.to_string_lossy()}))
        .unwrap()
}

fn plant(left: Left, data: &Path, ws: &Path, rng: &mut Rng) -> Result<Planted, String> {
    let dir = ripd::authority_dir(data);
    std::fs::create_dir_all(&dir).map_err(|e| e.to_string())?;
    let lock_path = ripd::authority_lock_path(data);
    let meta_path = ripd::authority_meta_path(data);
    let mut p = Planted { dead_pid: None, sleeper: None, responder: None, lock_bytes: None, meta_bytes: None };
    let started = 1_700_000_000_000u64 + rng.below(1_000_000);
    let mut lock: Option<Vec<u8>> = None;
    let mut meta: Option<Vec<u8>> = None;
    match left {
        Left::Nothing => {
            if rng.bool() {
                let _ = std::fs::remove_dir_all(&dir); // the loop must also create the directory
            }
        }
        Left::DeadLock | Left::DeadLockMeta | Left::DeadLockMetaDrift | Left::DeadMetaOnly | Left::EmptyLockDeadMeta => {
            let pid = dead_pid(rng).ok_or("no dead pid available")?;
            p.dead_pid = Some(pid);
            match left {
                Left::DeadLock => lock = Some(lock_json(pid, started, ws)),
                Left::DeadLockMeta => {
                    lock = Some(lock_json(pid, started, ws));
                    meta = Some(meta_json(REFUSED_ENDPOINT, pid, started, ws));
                }
                Left::DeadLockMetaDrift => {
                    lock = Some(lock_json(pid, started, ws));
                    meta = Some(meta_json(REFUSED_ENDPOINT, pid, started + 21, ws));
                }
                Left::DeadMetaOnly => meta = Some(meta_json(REFUSED_ENDPOINT, pid, started, ws)),
                _ => {
                    lock = Some(Vec::new());
                    meta = Some(meta_json(REFUSED_ENDPOINT, pid, started, ws));
                }
            }
        }
        Left::EmptyLock => lock = Some(Vec::new()),
        Left::HalfLock => {
            let full = lock_json(4242, started, ws);
            let cut = 1 + rng.usize(full.len() - 2);
            lock = Some(full[..cut].to_vec());
        }
        Left::ShapelessLock => {
            lock = Some(match rng.below(3) {
                0 => b"{}\n".to_vec(),
                1 => b"null".to_vec(),
                _ => b"[1,2,3]".to_vec(),
            })
        }
        Left::HalfLockSplitUtf8 => {
            // a workspace path with a two-byte character, cut between its bytes
            let mut v = b"{\"pid\":4242,\"started_at_ms\":1700000000000,\"workspace_root\":\"/tmp/w".to_vec();
            v.push(0xC3);
            lock = Some(v);
        }
        Left::LivePidLock | Left::LivePidLockMeta | Left::LiveEndpoint | Left::LiveEndpointForeignPid => {
            let child = Command::new("sleep")
                .arg("60")
                .stdin(Stdio::null())
                .stdout(Stdio::null())
                .stderr(Stdio::null())
                .spawn()
                .map_err(|e| format!("spawn sleep: {e}"))?;
            let live = child.id();
            p.sleeper = Some(child);
            if ripd::pid_liveness(live) != ripd::PidLiveness::Alive {
                return Err("sleeping helper is not alive".into());
            }
            match left {
                Left::LivePidLock => lock = Some(lock_json(live, started, ws)),
                Left::LivePidLockMeta => {
                    lock = Some(lock_json(live, started, ws));
                    meta = Some(meta_json(REFUSED_ENDPOINT, live, started, ws));
                }
                Left::LiveEndpoint => {
                    let r = Responder::start();
                    lock = Some(lock_json(live, started, ws));
                    meta = Some(meta_json(&format!("http://{}", r.addr), live, started, ws));
                    p.responder = Some(r);
                }
                _ => {
                    let pid = dead_pid(rng).ok_or("no dead pid available")?;
                    p.dead_pid = Some(pid);
                    let r = Responder::start();
                    lock = Some(lock_json(pid, started, ws));
                    meta = Some(meta_json(&format!("http://{}", r.addr), pid, started, ws));
                    p.responder = Some(r);
                }
            }
        }
    }
    if let Some(l) = &lock {
        std::fs::write(&lock_path, l).map_err(|e| e.to_string())?;
    }
    if let Some(m) = &meta {
        std::fs::write(&meta_path, m).map_err(|e| e.to_string())?;
    }
    p.lock_bytes = lock;
    p.meta_bytes = meta;
    Ok(p)
}

// ---------------------------------------------------------------------------------------------
// (A) the in-process monitor

thread_local! {
    /// contender number of this thread (1-based); 0 = not a contender of the current case
    static ROLE: Cell<usize> = const { Cell::new(0) };
}

#[derive(Clone, Debug)]
enum Cond {
    /// became an observed holder at least once
    Entered(usize),
    /// an acquire attempt has returned (Ok or Err)
    Returned(usize),
    /// guard drop completed at least once
    Dropped(usize),
    /// the contender thread has finished all its attempts
    Done(usize),
    Passed(usize, &'static str, u64),
    AnyOf(Vec<Cond>),
}

#[derive(Clone, Debug)]
struct Park {
    who: usize,
    at: &'static str,
    nth: u64,
    until: Cond,
    timeout_ms: u64,
    hits: u64,
    fired: bool,
    timed_out: bool,
    /// a park that simply lasts `timeout_ms` (its expiry is the schedule, not a failure)
    timed: bool,
}

fn park(who: usize, at: &'static str, until: Cond) -> Park {
    Park { who, at, nth: 1, until, timeout_ms: 5000, hits: 0, fired: false, timed_out: false, timed: false }
}

fn park_for(who: usize, at: &'static str, ms: u64) -> Park {
    Park { who, at, nth: 1, until: Cond::AnyOf(vec![]), timeout_ms: ms, hits: 0, fired: false, timed_out: false, timed: true }
}

#[derive(Clone, Debug)]
struct Incident {
    kind: &'static str, // "two_holders" | "live_lock_taken"
    at: usize,          // trace index of the detecting event
    victim: usize,
    by: usize,
    point: String,
    detail: String,
}

#[derive(Default)]
struct MonState {
    holders: Vec<(usize, u32, u64)>,
    trace: Vec<(usize, String, u64)>,
    entered: HashMap<usize, u64>,
    returned: HashMap<usize, u64>,
    dropped: HashMap<usize, u64>,
    done: HashMap<usize, u64>,
    passed: HashMap<(usize, &'static str), u64>,
    incidents: Vec<Incident>,
    flagged_victims: Vec<usize>,
    intact_checks: u64,
    parks: Vec<Park>,
    errors: Vec<(usize, String)>,
    acquisitions: u64,
    hold_timeouts: u64,
    noise_us: u64,
    noise_rng: Option<Rng>,
}

struct Mon {
    st: Mutex<MonState>,
    cv: Condvar,
    lock_path: PathBuf,
    t0: Instant,
}

fn cond_holds(st: &MonState, c: &Cond) -> bool {
    match c {
        Cond::Entered(w) => st.entered.get(w).copied().unwrap_or(0) > 0,
        Cond::Returned(w) => st.returned.get(w).copied().unwrap_or(0) > 0,
        Cond::Dropped(w) => st.dropped.get(w).copied().unwrap_or(0) > 0,
        Cond::Done(w) => st.done.get(w).copied().unwrap_or(0) > 0,
        Cond::Passed(w, p, n) => st.passed.get(&(*w, *p)).copied().unwrap_or(0) >= *n,
        Cond::AnyOf(v) => v.iter().any(|c| cond_holds(st, c)),
    }
}

impl Mon {
    fn new(lock_path: PathBuf, parks: Vec<Park>, noise_us: u64, noise_seed: u64) -> Mon {
        Mon {
            st: Mutex::new(MonState { parks, noise_us, noise_rng: Some(Rng::new(noise_seed)), ..Default::default() }),
            cv: Condvar::new(),
            lock_path,
            t0: Instant::now(),
        }
    }

    fn push(&self, g: &mut MonState, who: usize, what: String) {
        let us = self.t0.elapsed().as_micros() as u64;
        g.trace.push((who, what, us));
    }

    fn lock(&self) -> MutexGuard<'_, MonState> {
        self.st.lock().unwrap_or_else(|e| e.into_inner())
    }

    /// While exactly one observed holder exists, `lock.json` must carry its record.
    fn check_intact(&self, g: &mut MonState, by: usize, point: &str) {
        if g.holders.len() != 1 {
            return;
        }
        let (h, pid, started) = g.holders[0];
        if g.flagged_victims.contains(&h) {
            return;
        }
        g.intact_checks += 1;
        let problem = match std::fs::read(&self.lock_path) {
            Err(_) => Some("lock.json does not exist".to_string()),
            Ok(bytes) => match serde_json::from_slice::<Value>(&bytes) {
                Ok(v) if v.get("pid").and_then(|x| x.as_u64()) == Some(pid as u64)
                    && v.get("started_at_ms").and_then(|x| x.as_u64()) == Some(started) =>
                {
                    None
                }
                Ok(v) => Some(format!("lock.json carries another record: {v}")),
                Err(_) => Some(format!("lock.json is not the holder's record ({} bytes)", bytes.len())),
            },
        };
        if let Some(detail) = problem {
            g.flagged_victims.push(h);
            let at = g.trace.len().saturating_sub(1);
            g.incidents.push(Incident { kind: "live_lock_taken", at, victim: h, by, point: point.to_string(), detail });
        }
    }

    fn on_point(&self, point: &'static str) {
        if !point.starts_with("auth.") {
            return;
        }
        let who = ROLE.with(|r| r.get());
        if who == 0 {
            return;
        }
        let mut g = self.lock();
        self.push(&mut g, who, point.to_string());
        *g.passed.entry((who, point)).or_insert(0) += 1;
        self.check_intact(&mut g, who, point);
        self.cv.notify_all();
        let mut idx = None;
        for (i, p) in g.parks.iter_mut().enumerate() {
            if !p.fired && p.who == who && p.at == point {
                p.hits += 1;
                if p.hits == p.nth {
                    p.fired = true;
                    idx = Some(i);
                    break;
                }
            }
        }
        if let Some(i) = idx {
            let until = g.parks[i].until.clone();
            let deadline = Instant::now() + Duration::from_millis(g.parks[i].timeout_ms);
            self.push(&mut g, who, format!("parked@{point}"));
            loop {
                if cond_holds(&g, &until) {
                    break;
                }
                let now = Instant::now();
                if now >= deadline {
                    g.parks[i].timed_out = !g.parks[i].timed;
                    break;
                }
                g = self.cv.wait_timeout(g, deadline - now).unwrap_or_else(|e| e.into_inner()).0;
            }
            self.push(&mut g, who, format!("resumed@{point}"));
        }
        // seeded noise *after* the event was recorded, so that the trace order stays close to the real order
        let mut sleep_us = 0;
        if g.noise_us > 0 {
            let max = g.noise_us;
            if let Some(rng) = g.noise_rng.as_mut() {
                sleep_us = match rng.below(3) {
                    0 => 0,
                    1 => rng.below(max / 8 + 1),
                    _ => rng.below(max + 1),
                };
            }
        }
        drop(g);
        if sleep_us > 0 {
            std::thread::sleep(Duration::from_micros(sleep_us));
        }
    }

    fn enter(&self, who: usize, pid: u32, started: u64) {
        let mut g = self.lock();
        self.push(&mut g, who, "enter".to_string());
        g.acquisitions += 1;
        if let Some(&(other, _, _)) = g.holders.first() {
            let at = g.trace.len() - 1;
            g.incidents.push(Incident {
                kind: "two_holders",
                at,
                victim: other,
                by: who,
                point: "acquire returned Ok".to_string(),
                detail: format!("contender {who} acquired while contender {other} still holds its guard"),
            });
        }
        g.holders.push((who, pid, started));
        self.check_intact(&mut g, who, "enter");
        *g.entered.entry(who).or_insert(0) += 1;
        *g.returned.entry(who).or_insert(0) += 1;
        self.cv.notify_all();
    }

    fn leave(&self, who: usize) {
        let mut g = self.lock();
        self.push(&mut g, who, "leave".to_string());
        if g.holders.len() == 1 && g.holders[0].0 == who {
            self.check_intact(&mut g, who, "leave");
        }
        g.holders.retain(|h| h.0 != who);
        self.cv.notify_all();
    }

    fn mark(&self, who: usize, what: &str, err: Option<String>) {
        let mut g = self.lock();
        self.push(&mut g, who, what.to_string());
        match what {
            "dropped" => *g.dropped.entry(who).or_insert(0) += 1,
            "err" => {
                *g.returned.entry(who).or_insert(0) += 1;
                if let Some(e) = err {
                    g.errors.push((who, e));
                }
            }
            "done" => *g.done.entry(who).or_insert(0) += 1,
            _ => {}
        }
        self.cv.notify_all();
    }

    fn wait(&self, c: &Cond, timeout_ms: u64) -> bool {
        let deadline = Instant::now() + Duration::from_millis(timeout_ms);
        let mut g = self.lock();
        loop {
            if cond_holds(&g, c) {
                return true;
            }
            let now = Instant::now();
            if now >= deadline {
                g.hold_timeouts += 1;
                return false;
            }
            g = self.cv.wait_timeout(g, deadline - now).unwrap_or_else(|e| e.into_inner()).0;
        }
    }
}

#[derive(Clone, Debug)]
enum Hold {
    Ms(u64),
    /// hold until the condition (bounded), then a few ms more
    Until(Cond),
}

#[derive(Clone, Debug)]
struct CSpec {
    id: usize,
    start_ms: u64,
    start_after: Option<Cond>,
    foreign_ws: bool,
    write_meta: bool,
    hold: Hold,
    attempts: u32,
    gap_ms: u64,
}

fn contender(id: usize) -> CSpec {
    CSpec { id, start_ms: 0, start_after: None, foreign_ws: false, write_meta: false, hold: Hold::Ms(5), attempts: 1, gap_ms: 0 }
}

struct Case {
    /// directed schedule name, or "noise"
    mode: String,
    left: Left,
    contenders: Vec<CSpec>,
    parks: Vec<Park>,
    noise_us: u64,
    /// what the schedule is expected to show on a correct implementation: nothing
    directed: bool,
}

const TAKE_POINTS: &[(&str, &str)] = &[
    ("auth.stale.renamed", "stale_cleanup_renames_fresh_lock"),
    ("auth.corrupt.renamed", "corrupt_cleanup_renames_fresh_lock"),
    ("auth.drop.lock", "drop_removes_foreign_lock"),
];

/// Which file-system step took the lock? Judged from the recorded hook trace.
fn attribute(trace: &[(usize, String, u64)], inc: &Incident) -> &'static str {
    let is_take = |p: &str| TAKE_POINTS.iter().find(|(tp, _)| *tp == p).map(|(_, c)| *c);
    // another acquirer that has been between `auth.created` and `auth.written` for ≥ 0.9 s at trace position `t`?
    let stalled_acquirer_at = |t: usize, not: usize| -> bool {
        let mut open: BTreeMap<usize, u64> = BTreeMap::new();
        for (w, p, us) in &trace[..t.min(trace.len())] {
            if p == "auth.created" {
                open.insert(*w, *us);
            } else if p == "auth.written" {
                open.remove(w);
            }
        }
        let now = trace[t.min(trace.len() - 1)].2;
        open.iter().any(|(w, since)| *w != not && now.saturating_sub(*since) >= 900_000)
    };
    let classify = |t: usize| -> Option<&'static str> {
        let (w, p, _) = &trace[t];
        let c = is_take(p)?;
        if p == "auth.corrupt.renamed" && stalled_acquirer_at(t, *w) {
            return Some("corrupt_grace_elapsed_on_live_slow_acquirer");
        }
        Some(c)
    };
    if trace.is_empty() {
        return "unattributed";
    }
    let d = inc.at.min(trace.len() - 1);
    // the detecting event itself, then backwards (not past the victim's own create), then forwards
    let victim_ok = |t: usize| trace[t].0 != inc.victim || inc.kind == "two_holders";
    if victim_ok(d) {
        if let Some(c) = classify(d) {
            return c;
        }
    }
    let mut t = d;
    while t > 0 {
        t -= 1;
        if inc.kind == "live_lock_taken" && trace[t].0 == inc.victim && trace[t].1 == "auth.created" {
            break;
        }
        if victim_ok(t) {
            if let Some(c) = classify(t) {
                return c;
            }
        }
    }
    for t in d + 1..trace.len() {
        if victim_ok(t) {
            if let Some(c) = classify(t) {
                return c;
            }
        }
    }
    "unattributed"
}

struct CaseOutcome {
    trace: Vec<(usize, String, u64)>,
    incidents: Vec<Incident>,
    acquisitions: u64,
    acquired_by: Vec<usize>,
    errors: Vec<(usize, String)>,
    intact_checks: u64,
    parks_timed_out: Vec<String>,
    parks_fired: u64,
    files_changed: Option<String>,
    solo_retry: Option<Result<(), String>>,
    dead_pid_still_dead: bool,
    plant_error: Option<String>,
    wall_ms: u64,
}

fn acquire_blocking(data: &Path, ws: &Path) -> Result<ripd::AuthorityLockGuard, String> {
    let rt = tokio::runtime::Builder::new_current_thread()
        .enable_all()
        .build()
        .map_err(|e| format!("runtime: {e}"))?;
    rt.block_on(ripd::verif_export::acquire_authority_lock_with_recovery(data, ws))
}

fn run_inproc_case(case: &Case, rng: &mut Rng) -> CaseOutcome {
    let t0 = Instant::now();
    let store = Store::new("c18");
    let s = sched();
    s.reset();
    let mut out = CaseOutcome {
        trace: Vec::new(),
        incidents: Vec::new(),
        acquisitions: 0,
        acquired_by: Vec::new(),
        errors: Vec::new(),
        intact_checks: 0,
        parks_timed_out: Vec::new(),
        parks_fired: 0,
        files_changed: None,
        solo_retry: None,
        dead_pid_still_dead: true,
        plant_error: None,
        wall_ms: 0,
    };
    let planted = match plant(case.left, &store.data, &store.ws, rng) {
        Ok(p) => p,
        Err(e) => {
            out.plant_error = Some(e);
            return out;
        }
    };
    let mon = Arc::new(Mon::new(ripd::authority_lock_path(&store.data), case.parks.clone(), case.noise_us, rng.next_u64()));
    {
        let m = mon.clone();
        s.set_custom(Some(Arc::new(move |p, _ctx| m.on_point(p))));
    }
    let foreign_ws = store.dir.join("other-ws");
    let _ = std::fs::create_dir_all(&foreign_ws);
    let mut handles = Vec::new();
    for c in &case.contenders {
        let c = c.clone();
        let mon = mon.clone();
        let data = store.data.clone();
        let ws = if c.foreign_ws { foreign_ws.clone() } else { store.ws.clone() };
        handles.push(std::thread::spawn(move || {
            ROLE.with(|r| r.set(c.id));
            if let Some(cond) = &c.start_after {
                mon.wait(cond, 5000);
            }
            if c.start_ms > 0 {
                std::thread::sleep(Duration::from_millis(c.start_ms));
            }
            let mut got = 0u32;
            for attempt in 0..c.attempts {
                if attempt > 0 && c.gap_ms > 0 {
                    std::thread::sleep(Duration::from_millis(c.gap_ms));
                }
                match acquire_blocking(&data, &ws) {
                    Ok(guard) => {
                        got += 1;
                        let rec = guard.record().clone();
                        mon.enter(c.id, rec.pid, rec.started_at_ms);
                        if c.write_meta {
                            let _ = guard.write_meta(REFUSED_ENDPOINT);
                        }
                        match &c.hold {
                            Hold::Ms(ms) => std::thread::sleep(Duration::from_millis(*ms)),
                            Hold::Until(cond) => {
                                mon.wait(cond, 5000);
                                std::thread::sleep(Duration::from_millis(3));
                            }
                        }
                        mon.leave(c.id);
                        drop(guard);
                        mon.mark(c.id, "dropped", None);
                    }
                    Err(e) => mon.mark(c.id, "err", Some(e)),
                }
            }
            mon.mark(c.id, "done", None);
            ROLE.with(|r| r.set(0));
            got
        }));
    }
    for (h, c) in handles.into_iter().zip(case.contenders.iter()) {
        if let Ok(n) = h.join() {
            if n > 0 {
                out.acquired_by.push(c.id);
            }
        }
    }
    s.set_custom(None);
    s.reset();
    {
        let mut g = mon.lock();
        out.trace = std::mem::take(&mut g.trace);
        out.incidents = std::mem::take(&mut g.incidents);
        out.acquisitions = g.acquisitions;
        out.errors = std::mem::take(&mut g.errors);
        out.intact_checks = g.intact_checks;
        out.parks_fired = g.parks.iter().filter(|p| p.fired).count() as u64;
        out.parks_timed_out = g
            .parks
            .iter()
            .filter(|p| p.timed_out || !p.fired)
            .map(|p| format!("{}@{}{}", p.who, p.at, if p.fired { " timed out" } else { " never reached" }))
            .collect();
    }
    if let Some(pid) = planted.dead_pid {
        out.dead_pid_still_dead = ripd::pid_liveness(pid) == ripd::PidLiveness::Dead;
    }
    if case.left.live() {
        // the files of the live authority must be byte-identical
        let lock_now = std::fs::read(ripd::authority_lock_path(&store.data)).ok();
        let meta_now = std::fs::read(ripd::authority_meta_path(&store.data)).ok();
        if lock_now != planted.lock_bytes {
            out.files_changed = Some(format!(
                "lock.json changed: now {:?}",
                lock_now.map(|b| String::from_utf8_lossy(&b).to_string())
            ));
        } else if meta_now != planted.meta_bytes {
            out.files_changed = Some(format!(
                "meta.json changed: now {:?}",
                meta_now.map(|b| String::from_utf8_lossy(&b).to_string())
            ));
        }
    } else if out.acquisitions == 0 && !case.contenders.iter().all(|c| c.foreign_ws) {
        // bounded progress failed inside the loops' own deadline: is the store wedged for good?
        // One more uncontended attempt without any injected delay decides.
        ROLE.with(|r| r.set(0));
        out.solo_retry = Some(acquire_blocking(&store.data, &store.ws).map(drop));
    }
    drop(planted);
    out.wall_ms = t0.elapsed().as_millis() as u64;
    out
}

fn trace_json(trace: &[(usize, String, u64)]) -> Value {
    let shown: Vec<String> = trace.iter().take(400).map(|(w, p, us)| format!("{w}:{p}@{}ms", us / 1000)).collect();
    json!(shown)
}

fn interleaving_hash(case: &Case, trace: &[(usize, String, u64)]) -> u64 {
    let mut map: HashMap<usize, usize> = HashMap::new();
    let mut s = format!("{}|{}|", case.left.name(), case.mode);
    for (w, p, _) in trace {
        let n = map.len();
        let t = *map.entry(*w).or_insert(n);
        s.push_str(&format!("{t}:{p};"));
    }
    fnv_str(&s)
}

fn judge_inproc(r: &mut Report, idx: u64, case: &Case, out: &CaseOutcome) {
    if let Some(e) = &out.plant_error {
        r.inconclusive(&format!("case {idx} ({}): could not plant leftover state: {e}", case.left.name()));
        return;
    }
    let witness = |extra: Value| {
        json!({
            "case": idx, "part": "in_process", "mode": case.mode, "leftover": case.left.name(),
            "contenders": case.contenders.iter().map(|c| format!("{c:?}")).collect::<Vec<_>>(),
            "parks": case.parks.iter().map(|p| format!("park contender {} at {} until {:?}", p.who, p.at, p.until)).collect::<Vec<_>>(),
            "noise_us": case.noise_us,
            "acquired_by": out.acquired_by, "errors": out.errors.iter().take(8).map(|(w, e)| format!("{w}: {e}")).collect::<Vec<_>>(),
            "trace": trace_json(&out.trace), "detail": extra,
        })
    };
    r.eval();
    r.count("inproc_cases", 1);
    r.count(&format!("inproc_cases_from_{}", case.left.name()), 1);
    r.count("inproc_contenders", case.contenders.len() as u64);
    r.count("inproc_acquisitions", out.acquisitions);
    r.count("inproc_loops_returned_err", out.errors.len() as u64);
    r.count("inproc_auth_hook_events", out.trace.iter().filter(|(_, p, _)| p.starts_with("auth.")).count() as u64);
    r.count("inproc_lock_intact_checks_while_held", out.intact_checks);
    r.count("inproc_rendezvous_fired", out.parks_fired);
    let contending: BTreeSet<usize> = out.trace.iter().filter(|(_, p, _)| p.starts_with("auth.")).map(|(w, _, _)| *w).collect();
    if contending.len() >= 2 || (case.contenders.len() == 1 && !out.trace.is_empty()) {
        r.distinct(interleaving_hash(case, &out.trace));
    }
    if case.directed && !out.parks_timed_out.is_empty() {
        r.inconclusive(&format!(
            "case {idx}: directed schedule {} was not realised ({})",
            case.mode,
            out.parks_timed_out.join(", ")
        ));
        return;
    }
    // safety: group incidents by the step that took the lock
    let mut by_cause: BTreeMap<&'static str, Vec<&Incident>> = BTreeMap::new();
    for inc in &out.incidents {
        by_cause.entry(attribute(&out.trace, inc)).or_default().push(inc);
    }
    for (cause, incs) in &by_cause {
        let kinds: BTreeSet<&str> = incs.iter().map(|i| i.kind).collect();
        let first = incs[0];
        r.violation(
            &format!("C18/{cause}/{}", case.mode),
            &format!(
                "{} from leftover state {}: {} (contender {} at {}: {})",
                kinds.iter().cloned().collect::<Vec<_>>().join(" + "),
                case.left.name(),
                cause,
                first.by,
                first.point,
                first.detail
            ),
            witness(json!(incs
                .iter()
                .map(|i| json!({"kind": i.kind, "victim": i.victim, "by": i.by, "point": i.point, "detail": i.detail, "trace_index": i.at}))
                .collect::<Vec<_>>())),
        );
        r.count("inproc_incidents", incs.len() as u64);
    }
    if case.left.live() {
        if out.acquisitions > 0 {
            r.violation(
                &format!("C18/live_leftover_lock_acquired/{}", case.left.name()),
                &format!(
                    "contender(s) {:?} acquired the authority role although the store has a live authority ({})",
                    out.acquired_by,
                    case.left.name()
                ),
                witness(json!(null)),
            );
        }
        if let Some(ch) = &out.files_changed {
            r.violation(
                &format!("C18/live_leftover_files_changed/{}", case.left.name()),
                &format!("files of a live authority were modified by recovery ({}): {ch}", case.left.name()),
                witness(json!(ch)),
            );
        }
        r.count("inproc_live_states_nobody_acquired", (out.acquisitions == 0) as u64);
    } else if out.acquisitions == 0 {
        match &out.solo_retry {
            Some(Err(e)) if out.dead_pid_still_dead => {
                r.violation(
                    &format!("C18/not_usable_again/{}", case.left.name()),
                    &format!(
                        "no contender acquired within the recovery loop's own deadline and a later uncontended attempt failed too, \
                         although the previous authority is gone ({}): {e}",
                        case.left.name()
                    ),
                    witness(json!({"solo_retry_error": e})),
                );
            }
            Some(Err(_)) => r.inconclusive(&format!("case {idx}: the dead pid was re-used by another process during the case")),
            Some(Ok(())) => r.count("inproc_progress_only_on_later_attempt", 1),
            None => {}
        }
    } else {
        r.count("inproc_progress_cases_somebody_acquired", 1);
    }
    r.sample(json!({
        "case": idx, "part": "in_process", "mode": case.mode, "leftover": case.left.name(),
        "contenders": case.contenders.len(), "noise_us": case.noise_us, "acquired_by": out.acquired_by,
        "errs": out.errors.len(), "hook_events": out.trace.len(), "intact_checks": out.intact_checks,
        "incidents": out.incidents.len(), "wall_ms": out.wall_ms,
    }));
}

// directed schedules ---------------------------------------------------------------------------

const N_DIRECTED: u64 = 15;

fn directed_case(k: u64) -> Case {
    let a = 1usize;
    let b = 2usize;
    let c3 = 3usize;
    match k {
        // F19: B has re-read the dead lock, A cleans up and acquires, B renames A's fresh lock.
        0 | 1 => {
            let mut ca = contender(a);
            ca.start_after = Some(Cond::Passed(b, "auth.stale.reread", 1));
            ca.write_meta = k == 1;
            ca.hold = Hold::Until(Cond::Dropped(b));
            let mut cb = contender(b);
            cb.hold = Hold::Ms(5);
            Case {
                mode: "park(B@auth.stale.reread)until(A_acquired)".into(),
                left: if k == 0 { Left::DeadLock } else { Left::DeadLockMeta },
                contenders: vec![ca, cb],
                parks: vec![park(b, "auth.stale.reread", Cond::AnyOf(vec![Cond::Entered(a), Cond::Done(a)]))],
                noise_us: 0,
                directed: true,
            }
        }
        // same window in the corrupt-lock cleanup: exists-check, then rename
        2 => {
            let mut ca = contender(a);
            ca.start_after = Some(Cond::Passed(b, "auth.corrupt.checked", 1));
            ca.hold = Hold::Until(Cond::Dropped(b));
            let mut cb = contender(b);
            cb.hold = Hold::Ms(5);
            Case {
                mode: "park(B@auth.corrupt.checked)until(A_acquired)".into(),
                left: Left::EmptyLock,
                contenders: vec![ca, cb],
                parks: vec![park(b, "auth.corrupt.checked", Cond::AnyOf(vec![Cond::Entered(a), Cond::Done(a)]))],
                noise_us: 0,
                directed: true,
            }
        }
        // F20: A is a live but slow acquirer (stalls > 1 s between create and write)
        3 => {
            let mut ca = contender(a);
            ca.hold = Hold::Until(Cond::Done(b));
            let mut cb = contender(b);
            cb.start_after = Some(Cond::Passed(a, "auth.created", 1));
            cb.hold = Hold::Until(Cond::AnyOf(vec![Cond::Entered(a), Cond::Done(a)]));
            Case {
                mode: "park(A@auth.created)for>1s_until(B_returned)".into(),
                left: Left::Nothing,
                contenders: vec![ca, cb],
                parks: vec![park(a, "auth.created", Cond::AnyOf(vec![Cond::Entered(b), Cond::Done(b)]))],
                noise_us: 0,
                directed: true,
            }
        }
        // Drop removes whatever lock.json is there: the victim of a theft drops while the thief holds
        4 => {
            let mut ca = contender(a);
            ca.start_after = Some(Cond::Passed(b, "auth.stale.reread", 1));
            ca.hold = Hold::Until(Cond::AnyOf(vec![Cond::Entered(b), Cond::Done(b)]));
            let mut cb = contender(b);
            cb.hold = Hold::Until(Cond::Done(c3));
            let mut cc = contender(c3);
            cc.start_after = Some(Cond::Dropped(a));
            cc.hold = Hold::Ms(5);
            Case {
                mode: "park(B@auth.stale.reread)until(A_acquired);A_drops_while_B_holds;C_acquires".into(),
                left: Left::DeadLock,
                contenders: vec![ca, cb, cc],
                parks: vec![park(b, "auth.stale.reread", Cond::AnyOf(vec![Cond::Entered(a), Cond::Done(a)]))],
                noise_us: 0,
                directed: true,
            }
        }
        // a dropping guard parked between removing meta and removing the lock while others try
        5 => {
            let mut ca = contender(a);
            ca.write_meta = true;
            ca.hold = Hold::Ms(10);
            let mut cb = contender(b);
            cb.start_after = Some(Cond::Passed(a, "auth.drop.meta", 1));
            let mut cc = contender(c3);
            cc.start_after = Some(Cond::Dropped(a));
            Case {
                mode: "park(A@auth.drop.meta)until(B_returned)".into(),
                left: Left::Nothing,
                contenders: vec![ca, cb, cc],
                parks: vec![park(a, "auth.drop.meta", Cond::Done(b))],
                noise_us: 0,
                directed: true,
            }
        }
        // a holder re-writing meta (remove + rename) while others run the loop
        6 => {
            let mut ca = contender(a);
            ca.write_meta = true;
            ca.hold = Hold::Until(Cond::Done(b));
            let mut cb = contender(b);
            cb.start_after = Some(Cond::Passed(a, "auth.meta.removed", 1));
            Case {
                mode: "park(A@auth.meta.removed)until(B_returned)".into(),
                left: Left::DeadLockMeta,
                contenders: vec![ca, cb],
                parks: vec![park(a, "auth.meta.removed", Cond::Done(b))],
                noise_us: 0,
                directed: true,
            }
        }
        // live leftovers under contention: nobody may acquire, files must stay byte-identical
        7..=9 | 14 => {
            let left = [Left::LivePidLockMeta, Left::LiveEndpoint, Left::LivePidLock, Left::LiveEndpointForeignPid][if k == 14 { 3 } else { (k - 7) as usize }];
            Case {
                mode: "six_contenders_on_live_leftover".into(),
                left,
                contenders: (1..=6).map(contender).collect(),
                parks: vec![],
                noise_us: 1500,
                directed: true,
            }
        }
        // the grace period must protect an acquirer that is slow, but faster than 1 s
        10 => {
            let mut ca = contender(a);
            ca.hold = Hold::Until(Cond::Done(b));
            let mut cb = contender(b);
            cb.start_after = Some(Cond::Passed(a, "auth.created", 1));
            Case {
                mode: "park(A@auth.created)for0.4s".into(),
                left: Left::Nothing,
                contenders: vec![ca, cb],
                parks: vec![park_for(a, "auth.created", 400)],
                noise_us: 0,
                directed: true,
            }
        }
        // a single contender on each dead leftover: plain bounded progress
        11 => Case {
            mode: "one_contender_progress".into(),
            left: Left::DeadLockMetaDrift,
            contenders: vec![contender(1)],
            parks: vec![],
            noise_us: 0,
            directed: true,
        },
        // progress from the awkward corrupt leftovers
        12 => Case {
            mode: "two_contenders_progress".into(),
            left: Left::HalfLockSplitUtf8,
            contenders: vec![contender(1), contender(2)],
            parks: vec![],
            noise_us: 0,
            directed: true,
        },
        _ => Case {
            mode: "two_contenders_progress".into(),
            left: Left::EmptyLockDeadMeta,
            contenders: vec![contender(1), contender(2)],
            parks: vec![],
            noise_us: 0,
            directed: true,
        },
    }
}

fn noise_case(rng: &mut Rng, cfg: &Cfg) -> Case {
    // corrupt leftovers cost ≥ 1 s each (grace period): keep them to a fraction of the cases
    let left = if rng.chance(1, cfg.tier.pick(8, 6)) {
        *rng.pick(&[Left::EmptyLock, Left::HalfLock, Left::ShapelessLock])
    } else {
        *rng.pick(&[
            Left::Nothing,
            Left::DeadLock,
            Left::DeadLock,
            Left::DeadLockMeta,
            Left::DeadLockMeta,
            Left::DeadLockMetaDrift,
            Left::DeadMetaOnly,
            Left::LivePidLock,
            Left::LivePidLockMeta,
            Left::LiveEndpoint,
            Left::LiveEndpointForeignPid,
        ])
    };
    let n = match rng.below(4) {
        0 => 2,
        1 => 3,
        2 => 4 + rng.usize(2),
        _ => 6,
    };
    let noise_us = [0u64, 200, 2000, 8000][rng.usize(4)];
    let mut contenders = Vec::new();
    for id in 1..=n {
        let mut c = contender(id);
        c.start_ms = if rng.bool() { 0 } else { rng.below(25) };
        c.write_meta = rng.chance(1, 3);
        c.hold = Hold::Ms(rng.below(25));
        c.attempts = if rng.chance(1, 4) { 2 } else { 1 };
        c.gap_ms = rng.below(30);
        c.foreign_ws = rng.chance(1, 16);
        contenders.push(c);
    }
    Case { mode: "noise".into(), left, contenders, parks: vec![], noise_us, directed: false }
}

// ---------------------------------------------------------------------------------------------
// (B) multi-process rounds on the real binary

#[derive(Clone, Copy, Debug, PartialEq, Eq)]
enum MpLeft {
    Nothing,
    DeadLock,
    DeadLockMeta,
    EmptyLock,
    HalfLock,
    LiveIncumbent,
    AfterKill9,
    /// leftover produced by real `rip serve` processes aborted (RIP_VERIF_ABORT) at hook points
    Crash(usize),
}

/// (name, [(what to plant first, abort point)]) — each step is one real process that aborts at the point
const CRASH_RECIPES: &[(&str, &[(&str, &str)])] = &[
    ("crash@auth.created", &[("", "auth.created")]),
    ("crash@auth.written", &[("", "auth.written")]),
    ("crash@auth.meta.removed", &[("", "auth.meta.removed")]),
    ("crash@auth.meta.renamed", &[("", "auth.meta.renamed")]),
    ("dead_lock_and_meta,crash@auth.stale.renamed", &[("dead_lock_meta", "auth.stale.renamed")]),
    ("dead_lock_and_meta,crash@auth.stale.meta", &[("dead_lock_meta", "auth.stale.meta")]),
    ("empty_lock,crash@auth.corrupt.renamed", &[("empty_lock", "auth.corrupt.renamed")]),
    ("dead_lock_and_meta,crash@auth.stale.renamed,crash@auth.created", &[("dead_lock_meta", "auth.stale.renamed"), ("", "auth.created")]),
];

impl MpLeft {
    fn name(&self) -> &'static str {
        match self {
            MpLeft::Nothing => "nothing",
            MpLeft::DeadLock => "dead_lock_only",
            MpLeft::DeadLockMeta => "dead_lock_and_meta",
            MpLeft::EmptyLock => "empty_lock",
            MpLeft::HalfLock => "half_written_lock",
            MpLeft::LiveIncumbent => "live_incumbent_rip_serve",
            MpLeft::AfterKill9 => "files_of_the_sigkilled_winner",
            MpLeft::Crash(i) => CRASH_RECIPES[*i % CRASH_RECIPES.len()].0,
        }
    }
}

/// Which cleanup path do contenders have to take from the files present at the start of a round?
fn mp_cause(data: &Path, incumbent: bool, slow: bool) -> &'static str {
    if incumbent {
        return "incumbent_displaced";
    }
    if slow {
        return "corrupt_grace_elapsed_on_live_slow_acquirer";
    }
    match std::fs::read(ripd::authority_lock_path(data)) {
        Err(_) => "unattributed_from_nothing",
        Ok(bytes) => match serde_json::from_slice::<Value>(&bytes) {
            Ok(v) if v.get("pid").and_then(|x| x.as_u64()).is_some() => "stale_cleanup_renames_fresh_lock",
            _ => "corrupt_cleanup_renames_fresh_lock",
        },
    }
}

/// hook-hit trace written by the real processes of a store (RIP_VERIF_TRACE): "<pid> <unix micros> <point>" lines
fn mp_trace_path(data: &Path) -> PathBuf {
    data.parent().unwrap_or(data).join("auth-trace.log")
}

/// Evidence-based attribution of "two authorities" in a multi-process round whose leftover files name no cause:
/// which cleanup step did some process really take, and was another process between creating and writing its lock?
fn mp_cause_from_trace(data: &Path, fallback: &'static str) -> &'static str {
    let text = std::fs::read_to_string(mp_trace_path(data)).unwrap_or_default();
    let mut ev: Vec<(u32, u128, String)> = Vec::new();
    for l in text.lines() {
        let mut it = l.split(' ');
        if let (Some(p), Some(t), Some(n)) = (it.next(), it.next(), it.next()) {
            if let (Ok(p), Ok(t)) = (p.parse::<u32>(), t.parse::<u128>()) {
                ev.push((p, t, n.to_string()));
            }
        }
    }
    let corrupt: Vec<(u32, u128)> = ev.iter().filter(|e| e.2 == "auth.corrupt.renamed").map(|e| (e.0, e.1)).collect();
    let stale: Vec<(u32, u128)> = ev.iter().filter(|e| e.2 == "auth.stale.renamed").map(|e| (e.0, e.1)).collect();
    for (p, t) in &corrupt {
        // another process had created its lock before t and had not written the record by then?
        let pids: std::collections::BTreeSet<u32> = ev.iter().map(|e| e.0).filter(|q| q != p).collect();
        for q in pids {
            let created = ev.iter().filter(|e| e.0 == q && e.2 == "auth.created" && e.1 < *t).map(|e| e.1).max();
            if let Some(c) = created {
                let written = ev.iter().filter(|e| e.0 == q && e.2 == "auth.written" && e.1 >= c).map(|e| e.1).min();
                if written.map(|w| w > *t).unwrap_or(true) {
                    return "corrupt_grace_elapsed_on_live_slow_acquirer";
                }
            }
        }
    }
    if !corrupt.is_empty() {
        return "corrupt_cleanup_renames_fresh_lock";
    }
    if !stale.is_empty() {
        return "stale_cleanup_renames_fresh_lock";
    }
    fallback
}

fn serve_cmd(bin: &Path, data: &Path, ws: &Path, delay: &str) -> Command {
    let mut c = Command::new(bin);
    c.arg("serve")
        .env("RIP_SERVER_ADDR", "127.0.0.1:0")
        .env("RIP_DATA_DIR", data)
        .env("RIP_WORKSPACE_ROOT", ws)
        .env("RIP_VERIF_TRACE", mp_trace_path(data))
        .env_remove("RIP_VERIF_ABORT")
        .current_dir(ws);
    if delay.is_empty() {
        c.env_remove("RIP_VERIF_DELAY");
    } else {
        c.env("RIP_VERIF_DELAY", delay);
    }
    c
}

fn client_cmd(bin: &Path, data: &Path, ws: &Path, delay: &str) -> Command {
    let mut c = Command::new(bin);
    c.args(["tasks", "list"])
        .env("RIP_DATA_DIR", data)
        .env("RIP_WORKSPACE_ROOT", ws)
        .env("RIP_VERIF_TRACE", mp_trace_path(data))
        .env_remove("RIP_VERIF_ABORT")
        .current_dir(ws)
        .process_group(0);
    if delay.is_empty() {
        c.env_remove("RIP_VERIF_DELAY");
    } else {
        c.env("RIP_VERIF_DELAY", delay);
    }
    c
}

fn random_delay_spec(rng: &mut Rng) -> String {
    match rng.below(5) {
        0 => String::new(),
        1 => format!("auth.*={}", [300u64, 3000, 15000][rng.usize(3)]),
        2 => format!(
            "auth.stale.reread={},auth.corrupt.checked={}",
            [5000u64, 30000, 80000][rng.usize(3)],
            [5000u64, 30000, 80000][rng.usize(3)]
        ),
        3 => format!("auth.created={},auth.written={}", rng.below(4000), rng.below(4000)),
        _ => format!(
            "auth.stale.reread={},auth.stale.renamed={},auth.corrupt.checked={},auth.drop.*={}",
            rng.below(40000),
            rng.below(10000),
            rng.below(40000),
            rng.below(5000)
        ),
    }
}

/// endpoints announced by authorities that `rip` clients spawned (they log to authority.log)
fn logged_endpoints(data: &Path) -> Vec<String> {
    let p = ripd::authority_dir(data).join("authority.log");
    let t = std::fs::read_to_string(p).unwrap_or_default();
    t.lines()
        .filter_map(|l| l.strip_prefix("ripd listening on ").map(|r| r.trim().to_string()))
        .collect()
}

struct RoundResult {
    serving: Vec<String>,
    serving_pids: Vec<Option<u32>>,
    max_listening_alive: usize,
    n_serve: usize,
    n_cli: usize,
    cli_ok: usize,
    cli_failed: Vec<String>,
    timed_out: bool,
    lock_now: Option<Value>,
    meta_now: Option<Value>,
    stderr_tail: Vec<String>,
}

/// One contention round. `procs` accumulates every direct child (they are finished by the caller).
#[allow(clippy::too_many_arguments)]
fn mp_round(
    bin: &Path,
    data: &Path,
    ws: &Path,
    n_serve: usize,
    n_cli: usize,
    slow_first: bool,
    rng: &mut Rng,
    procs: &mut Vec<Proc>,
    groups: &mut Vec<u32>,
    known_endpoints: &mut Vec<(String, Option<u32>)>,
) -> RoundResult {
    let first = procs.len();
    let mut kinds: Vec<bool> = Vec::new(); // true = serve
    let mut order: Vec<bool> = std::iter::repeat(true).take(n_serve).chain(std::iter::repeat(false).take(n_cli)).collect();
    rng.shuffle(&mut order);
    let stagger = rng.chance(1, 3);
    for (i, is_serve) in order.iter().enumerate() {
        let delay = if slow_first && i == 0 { "auth.created=3000000".to_string() } else { random_delay_spec(rng) };
        let cmd = if *is_serve || (slow_first && i == 0) { serve_cmd(bin, data, ws, &delay) } else { client_cmd(bin, data, ws, &delay) };
        let is_serve = *is_serve || (slow_first && i == 0);
        match Proc::spawn(cmd) {
            Ok(p) => {
                if !is_serve {
                    groups.push(p.pid);
                }
                procs.push(p);
                kinds.push(is_serve);
            }
            Err(_) => {}
        }
        if stagger {
            std::thread::sleep(Duration::from_millis(rng.below(12)));
        }
    }
    // wait until every server has either exited or announced itself, and every client has exited
    let deadline = Instant::now() + Duration::from_secs(if n_cli > 0 { 14 } else { 9 });
    let mut max_listening_alive = 0usize;
    let mut timed_out = false;
    loop {
        let mut pending = 0;
        let mut listening_alive = 0;
        for (k, p) in procs[first..].iter_mut().enumerate() {
            let alive = p.alive();
            if kinds[k] {
                let l = p.listening().is_some();
                if alive && l {
                    listening_alive += 1;
                } else if alive {
                    pending += 1;
                }
            } else if alive {
                pending += 1;
            }
        }
        max_listening_alive = max_listening_alive.max(listening_alive);
        if pending == 0 {
            break;
        }
        if Instant::now() >= deadline {
            timed_out = true;
            break;
        }
        std::thread::sleep(Duration::from_millis(5));
    }
    std::thread::sleep(Duration::from_millis(120)); // meta.json of the last starter
    // candidates: announced endpoints of live direct children, and of authorities spawned by clients
    for (k, p) in procs[first..].iter_mut().enumerate() {
        if kinds[k] && p.alive() {
            if let Some(ep) = p.listening() {
                if !known_endpoints.iter().any(|(e, _)| *e == ep) {
                    known_endpoints.push((ep, Some(p.pid)));
                }
            }
        }
    }
    for ep in logged_endpoints(data) {
        if !known_endpoints.iter().any(|(e, _)| *e == ep) {
            known_endpoints.push((ep, None));
        }
    }
    // two sweeps: an endpoint that answers in both was serving during the whole first sweep
    let sweep1: Vec<bool> = known_endpoints.iter().map(|(e, _)| openapi_reachable(e)).collect();
    let sweep2: Vec<bool> = known_endpoints.iter().map(|(e, _)| openapi_reachable(e)).collect();
    let mut serving = Vec::new();
    let mut serving_pids = Vec::new();
    for (i, (e, pid)) in known_endpoints.iter().enumerate() {
        if sweep1[i] && sweep2[i] {
            serving.push(e.clone());
            serving_pids.push(*pid);
        }
    }
    let mut cli_ok = 0;
    let mut cli_failed = Vec::new();
    let mut stderr_tail = Vec::new();
    for (k, p) in procs[first..].iter_mut().enumerate() {
        if !kinds[k] {
            if p.exit == Some(0) {
                cli_ok += 1;
            } else {
                cli_failed.push(format!("exit={:?} {}", p.exit, p.stderr_text().chars().take(300).collect::<String>()));
            }
        } else if !p.alive() && stderr_tail.len() < 3 {
            let t = p.stderr_text();
            stderr_tail.push(t.lines().last().unwrap_or("").chars().take(200).collect());
        }
    }
    let lock_now = std::fs::read(ripd::authority_lock_path(data)).ok().and_then(|b| serde_json::from_slice(&b).ok());
    let meta_now = std::fs::read(ripd::authority_meta_path(data)).ok().and_then(|b| serde_json::from_slice(&b).ok());
    RoundResult {
        serving,
        serving_pids,
        max_listening_alive,
        n_serve: kinds.iter().filter(|k| **k).count(),
        n_cli: kinds.iter().filter(|k| !**k).count(),
        cli_ok,
        cli_failed,
        timed_out,
        lock_now,
        meta_now,
        stderr_tail,
    }
}

/// A live authority that is hung (SIGSTOP): pid alive, endpoint silent. Nobody may take its lock.
fn mp_stopped_incumbent_case(r: &mut Report, idx: u64, rng: &mut Rng, bin: &Path, with_client: bool) {
    let store = Store::new("c18mps");
    let mut inc = match Proc::spawn(serve_cmd(bin, &store.data, &store.ws, "")) {
        Ok(p) => p,
        Err(e) => {
            r.inconclusive(&format!("cannot spawn {}: {e}", bin.display()));
            return;
        }
    };
    let t0 = Instant::now();
    while (inc.listening().is_none() || !ripd::authority_meta_path(&store.data).exists()) && inc.alive() && t0.elapsed() < Duration::from_secs(6) {
        std::thread::sleep(Duration::from_millis(3));
    }
    let Some(ep) = inc.listening() else {
        r.inconclusive(&format!("case {idx}: incumbent rip serve did not start"));
        inc.finish();
        return;
    };
    std::thread::sleep(Duration::from_millis(30));
    let lock_before = std::fs::read(ripd::authority_lock_path(&store.data)).ok();
    let meta_before = std::fs::read(ripd::authority_meta_path(&store.data)).ok();
    kill_pid(inc.pid, libc::SIGSTOP);
    std::thread::sleep(Duration::from_millis(20));
    let n = 2 + rng.usize(5);
    let mut procs: Vec<Proc> = Vec::new();
    for _ in 0..n {
        if let Ok(p) = Proc::spawn(serve_cmd(bin, &store.data, &store.ws, &random_delay_spec(rng))) {
            procs.push(p);
        }
    }
    // a client runs the client-side recovery loop (8 s deadline) against the hung authority
    let mut client: Option<Proc> = None;
    if with_client {
        client = Proc::spawn(client_cmd(bin, &store.data, &store.ws, &random_delay_spec(rng))).ok();
    }
    let deadline = Instant::now() + Duration::from_secs(if with_client { 12 } else { 9 });
    let mut usurpers: Vec<(u32, String)> = Vec::new();
    loop {
        let mut pending = 0;
        if let Some(c) = client.as_mut() {
            if c.alive() {
                pending += 1;
            }
        }
        for p in procs.iter_mut() {
            if p.alive() {
                match p.listening() {
                    Some(e) => {
                        if !usurpers.iter().any(|(q, _)| *q == p.pid) {
                            usurpers.push((p.pid, e));
                        }
                    }
                    None => pending += 1,
                }
            }
        }
        if pending == 0 || Instant::now() >= deadline {
            break;
        }
        std::thread::sleep(Duration::from_millis(5));
    }
    let lock_after = std::fs::read(ripd::authority_lock_path(&store.data)).ok();
    let meta_after = std::fs::read(ripd::authority_meta_path(&store.data)).ok();
    for ep2 in logged_endpoints(&store.data) {
        // an authority spawned by the client
        usurpers.push((0, ep2));
    }
    if let Some(c) = client.as_mut() {
        kill_group(c.pid, libc::SIGKILL);
        c.finish();
        r.count("mp_cli_clients", 1);
    }
    kill_pid(inc.pid, libc::SIGCONT);
    let t1 = Instant::now();
    let mut back = false;
    while t1.elapsed() < Duration::from_secs(3) {
        if openapi_reachable(&ep) {
            back = true;
            break;
        }
        std::thread::sleep(Duration::from_millis(20));
    }
    r.eval();
    r.count("mp_rounds", 1);
    r.count("mp_rounds_from_live_incumbent_stopped", 1);
    r.count("mp_serve_processes", procs.len() as u64);
    r.distinct_str(&format!("mp|stopped_incumbent|serve{}|usurpers{}", procs.len(), usurpers.len()));
    let witness = json!({
        "case": idx, "part": "multi_process", "leftover": "live_incumbent_stopped_with_SIGSTOP", "incumbent": {"pid": inc.pid, "endpoint": ep},
        "contenders": procs.len(), "usurpers": usurpers,
        "lock_before": lock_before.as_ref().map(|b| String::from_utf8_lossy(b).to_string()),
        "lock_after": lock_after.as_ref().map(|b| String::from_utf8_lossy(b).to_string()),
        "meta_after": meta_after.as_ref().map(|b| String::from_utf8_lossy(b).to_string()),
    });
    if !usurpers.is_empty() {
        r.violation(
            "C18/hung_live_incumbent_displaced/multi_process",
            &format!("{} rip serve process(es) took over a store whose authority is alive but stopped (pid {})", usurpers.len(), inc.pid),
            witness,
        );
    } else if lock_after != lock_before || meta_after != meta_before {
        r.violation(
            "C18/hung_live_incumbent_files_changed/multi_process",
            "lock.json/meta.json of an authority that is alive but stopped were modified by contenders",
            witness,
        );
    } else if !back {
        r.inconclusive(&format!("case {idx}: incumbent did not answer again after SIGCONT"));
    } else {
        r.count("mp_rounds_hung_incumbent_kept_its_lock", 1);
    }
    for p in procs.iter_mut() {
        p.finish();
    }
    inc.finish();
}

fn mp_case(r: &mut Report, cfg: &Cfg, idx: u64, rng: &mut Rng, bin: &Path) {
    if rng.chance(1, 7) {
        let with_client = cfg.tier == crate::report::Tier::Thorough && rng.chance(1, 2);
        mp_stopped_incumbent_case(r, idx, rng, bin, with_client);
        return;
    }
    let store = Store::new("c18mp");
    let (c1, c2) = (rng.usize(CRASH_RECIPES.len()), rng.usize(CRASH_RECIPES.len()));
    let left0 = *rng.pick(&[
        MpLeft::Nothing,
        MpLeft::DeadLock,
        MpLeft::DeadLockMeta,
        MpLeft::DeadLockMeta,
        MpLeft::EmptyLock,
        MpLeft::HalfLock,
        MpLeft::LiveIncumbent,
        MpLeft::Crash(c1),
        MpLeft::Crash(c2),
    ]);
    let rounds = 1 + rng.usize(cfg.tier.pick(2, 3));
    let mut procs: Vec<Proc> = Vec::new();
    let mut groups: Vec<u32> = Vec::new();
    let mut known: Vec<(String, Option<u32>)> = Vec::new();
    let mut incumbent: Option<(String, u32)> = None;
    // plant
    let mut planted_dead: Option<u32> = None;
    {
        let dir = ripd::authority_dir(&store.data);
        let _ = std::fs::create_dir_all(&dir);
        let started = 1_700_000_000_000u64 + rng.below(1_000_000);
        match left0 {
            MpLeft::Nothing | MpLeft::AfterKill9 => {}
            MpLeft::Crash(i) => {
                for (pre, point) in CRASH_RECIPES[i % CRASH_RECIPES.len()].1 {
                    match *pre {
                        "dead_lock_meta" => {
                            let Some(pid) = dead_pid(rng) else {
                                r.inconclusive("no dead pid available");
                                return;
                            };
                            planted_dead = Some(pid);
                            let _ = std::fs::write(ripd::authority_lock_path(&store.data), lock_json(pid, started, &store.ws));
                            let _ = std::fs::write(ripd::authority_meta_path(&store.data), meta_json(REFUSED_ENDPOINT, pid, started, &store.ws));
                        }
                        "empty_lock" => {
                            let _ = std::fs::write(ripd::authority_lock_path(&store.data), b"");
                        }
                        _ => {}
                    }
                    let mut cmd = serve_cmd(bin, &store.data, &store.ws, "");
                    cmd.env("RIP_VERIF_ABORT", format!("{point}:1"));
                    match Proc::spawn(cmd) {
                        Ok(mut p) => {
                            let t0 = Instant::now();
                            while p.alive() && p.listening().is_none() && t0.elapsed() < Duration::from_secs(5) {
                                std::thread::sleep(Duration::from_millis(3));
                            }
                            if p.alive() {
                                // for points after bind the process announces itself first; give the abort a moment
                                let _ = p.wait_exit(Duration::from_millis(800));
                            }
                            let aborted = !p.alive() && p.stderr_text().contains("rip-verif: abort at");
                            p.finish();
                            r.count("mp_crash_points_taken", aborted as u64);
                            if !aborted {
                                r.inconclusive(&format!("case {idx}: rip serve did not abort at {point}"));
                                return;
                            }
                        }
                        Err(e) => {
                            r.inconclusive(&format!("cannot spawn {}: {e}", bin.display()));
                            return;
                        }
                    }
                }
            }
            MpLeft::DeadLock | MpLeft::DeadLockMeta => {
                let Some(pid) = dead_pid(rng) else {
                    r.inconclusive("no dead pid available");
                    return;
                };
                planted_dead = Some(pid);
                let _ = std::fs::write(ripd::authority_lock_path(&store.data), lock_json(pid, started, &store.ws));
                if left0 == MpLeft::DeadLockMeta {
                    let _ = std::fs::write(ripd::authority_meta_path(&store.data), meta_json(REFUSED_ENDPOINT, pid, started, &store.ws));
                }
            }
            MpLeft::EmptyLock => {
                let _ = std::fs::write(ripd::authority_lock_path(&store.data), b"");
            }
            MpLeft::HalfLock => {
                let full = lock_json(4242, started, &store.ws);
                let cut = 1 + rng.usize(full.len() - 2);
                let _ = std::fs::write(ripd::authority_lock_path(&store.data), &full[..cut]);
            }
            MpLeft::LiveIncumbent => match Proc::spawn(serve_cmd(bin, &store.data, &store.ws, "")) {
                Ok(mut p) => {
                    let t0 = Instant::now();
                    while p.listening().is_none() && p.alive() && t0.elapsed() < Duration::from_secs(5) {
                        std::thread::sleep(Duration::from_millis(5));
                    }
                    let ep = p.listening();
                    let pid = p.pid;
                    procs.push(p);
                    match ep {
                        Some(ep) => {
                            // wait for meta.json
                            let t0 = Instant::now();
                            while !ripd::authority_meta_path(&store.data).exists() && t0.elapsed() < Duration::from_secs(2) {
                                std::thread::sleep(Duration::from_millis(2));
                            }
                            known.push((ep.clone(), Some(pid)));
                            incumbent = Some((ep, pid));
                        }
                        None => {
                            r.inconclusive(&format!("case {idx}: incumbent rip serve did not start"));
                            for p in procs.iter_mut() {
                                p.finish();
                            }
                            return;
                        }
                    }
                }
                Err(e) => {
                    r.inconclusive(&format!("cannot spawn {}: {e}", bin.display()));
                    return;
                }
            },
        }
    }
    let mut left = left0;
    for round in 0..rounds {
        let n_serve = match rng.below(3) {
            0 => 2,
            1 => 3 + rng.usize(3),
            _ => 6 + rng.usize(7),
        };
        let n_cli = if rng.chance(1, 3) { 1 + rng.usize(3) } else { 0 };
        let slow_first = left == MpLeft::Nothing && rng.chance(1, 6);
        let cause_at_start = mp_cause(&store.data, incumbent.is_some(), slow_first);
        let _ = std::fs::remove_file(mp_trace_path(&store.data));
        let res = mp_round(bin, &store.data, &store.ws, n_serve, n_cli, slow_first, rng, &mut procs, &mut groups, &mut known);
        r.eval();
        r.count("mp_rounds", 1);
        r.count(&format!("mp_rounds_from_{}", left.name()), 1);
        r.count("mp_serve_processes", res.n_serve as u64);
        r.count("mp_cli_clients", res.n_cli as u64);
        r.count("mp_cli_clients_attached_ok", res.cli_ok as u64);
        r.count("mp_openapi_probes", (known.len() * 2) as u64);
        r.distinct_str(&format!(
            "mp|{}|serve{}|cli{}|serving{}|slow{}",
            left.name(),
            res.n_serve.min(8),
            res.n_cli,
            res.serving.len(),
            slow_first
        ));
        let witness = json!({
            "case": idx, "part": "multi_process", "round": round, "leftover": left.name(), "first_leftover": left0.name(),
            "serve_processes": res.n_serve, "cli_clients": res.n_cli, "slow_first": slow_first,
            "serving_endpoints": res.serving, "serving_pids": res.serving_pids,
            "max_direct_children_listening_and_alive": res.max_listening_alive,
            "lock.json": res.lock_now, "meta.json": res.meta_now,
            "cli_failed": res.cli_failed, "loser_stderr": res.stderr_tail,
        });
        if res.timed_out {
            r.inconclusive(&format!("case {idx} round {round}: processes neither exited nor announced themselves within the watchdog"));
            break;
        }
        // no cause readable from the leftover files: let the processes' own hook trace of this round decide (a
        // cleanup rename that really happened names the known race; no cleanup step at all stays unattributed)
        let cause = if cause_at_start.starts_with("unattributed") { mp_cause_from_trace(&store.data, cause_at_start) } else { cause_at_start };
        let expected_single: Option<&(String, u32)> = incumbent.as_ref();
        let mut stop = false;
        if res.serving.len() >= 2 || res.max_listening_alive >= 2 {
            r.violation(
                &format!("C18/{cause}/multi_process"),
                &format!(
                    "{} rip authorities serve the same store at once (leftover {}, {} rip serve + {} clients started together)",
                    res.serving.len().max(res.max_listening_alive),
                    left.name(),
                    res.n_serve,
                    res.n_cli
                ),
                witness.clone(),
            );
            r.count("mp_rounds_with_two_authorities", 1);
            stop = true;
        } else if res.serving.is_empty() {
            let announced_alive = procs.iter_mut().filter(|p| p.listening().is_some()).filter_map(|p| p.alive().then_some(())).count();
            if announced_alive > 0 {
                // somebody believes to be the authority but did not answer twice within the probe timeout: load, not a verdict
                r.inconclusive(&format!("case {idx} round {round}: an announced authority did not answer /openapi.json (overloaded host?)"));
                stop = true;
            } else if incumbent.is_some() {
                r.violation(
                    "C18/incumbent_displaced/multi_process",
                    "the live incumbent authority exited while contenders ran recovery",
                    witness.clone(),
                );
                stop = true;
            } else {
                // nobody came up inside the loops' own deadlines: wedged for good?
                match Proc::spawn(serve_cmd(bin, &store.data, &store.ws, "")) {
                    Ok(mut p) => {
                        let t0 = Instant::now();
                        while p.listening().is_none() && p.alive() && t0.elapsed() < Duration::from_secs(6) {
                            std::thread::sleep(Duration::from_millis(5));
                        }
                        let ok = p.listening().is_some() && p.alive();
                        let tail = p.stderr_text();
                        if let (true, Some(ep)) = (ok, p.listening()) {
                            known.push((ep, Some(p.pid)));
                        }
                        procs.push(p);
                        let dead_ok = planted_dead.map(|d| ripd::pid_liveness(d) == ripd::PidLiveness::Dead).unwrap_or(true);
                        if !ok && dead_ok {
                            r.violation(
                                &format!("C18/not_usable_again/{}/multi_process", left.name()),
                                &format!(
                                    "no rip serve came up from leftover {} and a later uncontended start failed too: {}",
                                    left.name(),
                                    tail.lines().find(|l| l.contains("authority")).or_else(|| tail.lines().last()).unwrap_or("").chars().take(300).collect::<String>()
                                ),
                                witness.clone(),
                            );
                            stop = true;
                        } else if !ok {
                            r.inconclusive("dead pid re-used during the round");
                            stop = true;
                        } else {
                            r.count("mp_progress_only_on_later_start", 1);
                        }
                    }
                    Err(e) => {
                        r.inconclusive(&format!("cannot spawn {}: {e}", bin.display()));
                        stop = true;
                    }
                }
            }
        } else {
            // exactly one authority serves: the files must name it
            r.count("mp_rounds_exactly_one_serving", 1);
            let ep = &res.serving[0];
            let pid = res.serving_pids[0];
            if let Some((iep, ipid)) = expected_single {
                if iep != ep {
                    r.violation(
                        "C18/incumbent_displaced/multi_process",
                        &format!("another authority ({ep}) serves instead of the live incumbent ({iep}, pid {ipid})"),
                        witness.clone(),
                    );
                    stop = true;
                }
            }
            let lock_pid = res.lock_now.as_ref().and_then(|v| v.get("pid")).and_then(|x| x.as_u64());
            let meta_pid = res.meta_now.as_ref().and_then(|v| v.get("pid")).and_then(|x| x.as_u64());
            let meta_ep = res.meta_now.as_ref().and_then(|v| v.get("endpoint")).and_then(|x| x.as_str()).map(|s| s.to_string());
            let pid_ok = match pid {
                Some(p) => lock_pid == Some(p as u64) && meta_pid == Some(p as u64),
                None => lock_pid.is_some() && lock_pid == meta_pid,
            };
            if !stop && (!pid_ok || meta_ep.as_deref() != Some(ep.as_str())) {
                r.violation(
                    &format!("C18/{cause}/multi_process"),
                    &format!(
                        "lock.json/meta.json do not name the one serving authority {ep} (pid {pid:?}): lock pid {lock_pid:?}, meta pid {meta_pid:?}, meta endpoint {meta_ep:?} (leftover {})",
                        left.name()
                    ),
                    witness.clone(),
                );
                r.count("mp_rounds_files_not_naming_server", 1);
                stop = true;
            } else if !stop {
                r.count("mp_rounds_files_name_the_server", 1);
            }
        }
        if r.samples.len() < r.max_samples && round == 0 {
            r.sample(witness);
        }
        if stop {
            break;
        }
        // crash every serving authority and go again on what it leaves behind
        let mut killed = 0;
        for p in procs.iter_mut() {
            if p.alive() && p.listening().is_some() {
                kill_pid(p.pid, libc::SIGKILL);
                let _ = p.wait_exit(Duration::from_secs(2));
                killed += 1;
            }
        }
        if killed == 0 {
            // the server is a client-spawned grandchild: meta.json has its pid
            if let Some(p) = res.meta_now.as_ref().and_then(|v| v.get("pid")).and_then(|x| x.as_u64()) {
                kill_pid(p as u32, libc::SIGKILL);
                let t0 = Instant::now();
                while ripd::pid_liveness(p as u32) == ripd::PidLiveness::Alive && t0.elapsed() < Duration::from_secs(6) {
                    // an orphan is a zombie until init reaps it (takes up to ~2 s here); a zombie counts as alive for kill(0)
                    std::thread::sleep(Duration::from_millis(10));
                }
                if ripd::pid_liveness(p as u32) == ripd::PidLiveness::Alive {
                    r.count("mp_orphan_winner_not_reaped_round_sequence_cut", 1);
                    break;
                }
            }
        }
        r.count("mp_winners_sigkilled", 1);
        incumbent = None;
        planted_dead = None;
        left = MpLeft::AfterKill9;
    }
    for g in &groups {
        kill_group(*g, libc::SIGKILL);
    }
    for p in procs.iter_mut() {
        p.finish();
    }
    // authorities spawned by clients that are still around (they are in the clients' groups; belt and braces)
    if let Some(p) = std::fs::read(ripd::authority_meta_path(&store.data))
        .ok()
        .and_then(|b| serde_json::from_slice::<Value>(&b).ok())
        .and_then(|v| v.get("pid").and_then(|x| x.as_u64()))
    {
        let lock_ws = std::fs::read(ripd::authority_lock_path(&store.data))
            .ok()
            .and_then(|b| serde_json::from_slice::<Value>(&b).ok())
            .and_then(|v| v.get("workspace_root").and_then(|x| x.as_str()).map(|s| s.to_string()));
        if lock_ws.as_deref() == Some(store.ws.to_string_lossy().as_ref()) && !procs.iter().any(|q| q.pid == p as u32) {
            if let Ok(cmdline) = std::fs::read(format!("/proc/{p}/cmdline")) {
                if String::from_utf8_lossy(&cmdline).contains("serve") {
                    kill_pid(p as u32, libc::SIGKILL);
                }
            }
        }
    }
}

// ---------------------------------------------------------------------------------------------

fn burst_rounds(r: &mut Report, cfg: &Cfg) {
    use std::sync::atomic::{AtomicI64, Ordering};
    use std::sync::Barrier;
    let rounds = cfg.tier.pick(120u64, 1500u64);
    let s = sched();
    s.reset();
    let mut two = 0u64;
    let mut none = 0u64;
    let mut done = 0u64;
    for round in 0..rounds {
        if r.elapsed() > cfg.budget_s * 0.25 {
            break;
        }
        let k = 2 + (round as usize % 5);
        let store = Store::new("c18b");
        let barrier = Arc::new(Barrier::new(k));
        let holders = Arc::new(AtomicI64::new(0));
        let max_seen = Arc::new(AtomicI64::new(0));
        let acquired = Arc::new(AtomicI64::new(0));
        let mut hs = Vec::new();
        for _ in 0..k {
            let (b, h, m, a) = (barrier.clone(), holders.clone(), max_seen.clone(), acquired.clone());
            let data = store.data.clone();
            let ws = store.ws.clone();
            hs.push(std::thread::spawn(move || {
                let rt = tokio::runtime::Builder::new_current_thread().enable_all().build();
                b.wait();
                let Ok(rt) = rt else { return };
                // one direct attempt at the same instant, then (losers) the recovery loop is not needed:
                // with a live holder it must simply fail
                if let Ok(guard) = rt.block_on(ripd::verif_export::acquire_authority_lock_with_recovery(&data, &ws)) {
                    a.fetch_add(1, Ordering::SeqCst);
                    let n = h.fetch_add(1, Ordering::SeqCst) + 1;
                    m.fetch_max(n, Ordering::SeqCst);
                    std::thread::sleep(Duration::from_millis(12));
                    h.fetch_sub(1, Ordering::SeqCst);
                    drop(guard);
                }
            }));
        }
        for h in hs {
            let _ = h.join();
        }
        done += 1;
        r.eval();
        let m = max_seen.load(Ordering::SeqCst);
        if m > 1 {
            two += 1;
            r.violation(
                "C18/two_holders/barrier_burst_from_nothing",
                &format!("{m} of {k} contenders released by a barrier on an empty store held the authority lock at the same time"),
                json!({"part": "burst", "round": round, "contenders": k, "simultaneous_holders": m}),
            );
        }
        if acquired.load(Ordering::SeqCst) == 0 {
            none += 1;
        }
    }
    r.distinct_str("burst|nothing");
    r.count("burst_rounds", done);
    r.count("burst_rounds_with_two_holders", two);
    r.count("burst_rounds_nobody_acquired", none);
}

pub fn run(cfg: &Cfg) -> i32 {
    let mut r = Report::new(
        "C18",
        "fault_enumeration",
        "(A) in-process: every leftover state {nothing, dead lock, dead lock+meta (± started_at drift), dead meta only, empty / \
         half-written / shapeless / split-UTF-8 lock, empty lock + dead meta, live pid lock (± meta), answering endpoint (live / \
         non-local pid)} × {directed rendezvous schedules at each read-then-rename pair, seeded noise at all auth.* points} with \
         1–6 contender threads running the real recovery loop; (B) multi-process: 2–12 real `rip serve` (+0–3 `rip tasks list` \
         clients) started at once per leftover state with random RIP_VERIF_DELAY, winner SIGKILLed, round repeated. A case is \
         non-trivial when ≥2 contenders reached auth.* hook points (A) / the round was judged (B); distinct = distinct \
         (state, schedule, hook interleaving) resp. (state, #processes, #serving) shapes",
    );
    r.assume("hook points do not change behaviour beyond timing");
    r.assume("in-process contenders share one pid: a contender's lock can never look dead to another contender; dead-pid cleanup is triggered by planted leftovers only");
    r.assume("schedules are the directed rendezvous scripts plus what the OS scheduler and injected delays produce (not exhaustive)");
    r.assume("bounded progress is judged as: somebody acquired before all loops returned, or (to rule out timing) one later uncontended attempt succeeds");
    let bin = rip_bin();
    let have_bin = bin.exists();
    if !have_bin {
        r.inconclusive(&format!(
            "real binary {} not found (RV_RIP_BIN): multi-process part (B) skipped",
            bin.display()
        ));
    }
    r.note("rip_binary", json!(bin.display().to_string()));

    if let Some(path) = &cfg.replay {
        // re-run the stored case (directed schedules replay deterministically; noise cases re-run the same seed)
        let doc: Value = std::fs::read(path).ok().and_then(|b| serde_json::from_slice(&b).ok()).unwrap_or(Value::Null);
        let idx = doc.pointer("/witness/case").and_then(|x| x.as_u64()).unwrap_or(0);
        let part = doc.pointer("/witness/part").and_then(|x| x.as_str()).unwrap_or("in_process").to_string();
        let mut rng = cfg.case_rng(idx);
        if part == "multi_process" {
            if have_bin {
                mp_case(&mut r, cfg, idx, &mut rng, &bin);
            }
        } else {
            let case = if idx < N_DIRECTED { directed_case(idx) } else { noise_case(&mut rng, cfg) };
            let out = run_inproc_case(&case, &mut rng);
            judge_inproc(&mut r, idx, &case, &out);
        }
        return r.finish(cfg);
    }

    // (A0) barrier bursts from the empty state: K contenders released at the same instant, no injected
    // delay anywhere (delays at hook points de-synchronise contenders; a window that contains no hook
    // point — e.g. between an existence check and a rename — is only hit by truly simultaneous starts)
    burst_rounds(&mut r, cfg);

    let max_cases = cfg.tier.pick(4_000u64, 2_000_000u64);
    let mp_every = cfg.tier.pick(9u64, 7u64);
    let mut idx = 0u64;
    while idx < max_cases && (r.elapsed() < cfg.budget_s * 0.9 || idx < N_DIRECTED) {
        let i = idx;
        idx += 1;
        if !cfg.mine(i) {
            continue;
        }
        let mut rng = cfg.case_rng(i);
        if i < N_DIRECTED {
            let case = directed_case(i);
            let out = run_inproc_case(&case, &mut rng);
            judge_inproc(&mut r, i, &case, &out);
            r.count("directed_schedules_run", 1);
        } else if have_bin && (i - N_DIRECTED) % mp_every == mp_every - 1 {
            mp_case(&mut r, cfg, i, &mut rng, &bin);
        } else {
            let case = noise_case(&mut rng, cfg);
            let out = run_inproc_case(&case, &mut rng);
            judge_inproc(&mut r, i, &case, &out);
        }
    }
    r.finish(cfg)
}
