//! C18 — a store never has two authorities; a live authority's lock is never taken; a store whose
//! previous authority crashed becomes usable again.
//!
//! (A) in-process, driven: 1–6 contender threads run the real start-up recovery loop
//!     (`ripd::verif_export::acquire_authority_lock_with_recovery`) on one store from every leftover
//!     state. A monitor under its own mutex keeps the set of *observed* holders (added after the
//!     loop returned `Ok`, removed before the guard is dropped — observed holding intervals are
//!     subsets of the real ones, so an observed overlap is a real one) and, after every `auth.*`
//!     hook event, checks that `lock.json` still carries the single holder's record. Schedules:
//!     seeded noise at all `auth.*` points plus rendezvous scripts for each read-then-rename pair.
//! (B) multi-process: 2–12 real `rip serve` processes (plus `rip tasks list` clients, which run
//!     the client-side recovery loop and spawn authorities themselves) are started at once on one
//!     store in each leftover state, with random `RIP_VERIF_DELAY` delays at `auth.*`; the monitor
//!     counts which processes serve at once, checks `lock.json`/`meta.json` against the server,
//!     kills the winner with SIGKILL and repeats the round on the same store.
//! (B2) multi-process, live holder × both recovery paths: stores whose lock belongs to a LIVE party — including the
//!     mixed-owner leftovers (live lock + dead meta / meta of another live pid / corrupt meta, dead lock + answering
//!     meta of a live pid, a real `rip serve` SIGSTOPped between acquiring the lock and publishing its endpoint, with
//!     or without a dead predecessor's meta) — are attacked by `rip` clients (tasks list / threads list / config
//!     doctor / threads ensure: the client-side recovery loop) alone and together with `rip serve` contenders, under
//!     random `RIP_VERIF_DELAY`. While the owner lives lock.json must stay byte-identical (polled every few ms; the
//!     directory is watched for the lock's inode under another name), nobody else may announce an endpoint, the
//!     owner's meta stays (a foreign meta may only disappear); a resumed holder must serve alone; after the live
//!     parties are killed an uncontended `rip serve` must come up. One directed batch per run + random batches.

use crate::fixture::Store;
use crate::prng::{fnv_str, Rng};
use crate::report::{Cfg, Report};
use crate::sched::sched;
use serde_json::{json, Value};
use std::cell::Cell;
use std::collections::{BTreeMap, BTreeSet, HashMap};
use std::io::{Read, Write};
use std::net::{SocketAddr, TcpListener, TcpStream};
use std::os::unix::process::CommandExt;
use std::path::{Path, PathBuf};
use std::process::{Child, Command, Stdio};
use std::sync::atomic::{AtomicBool, Ordering};
use std::sync::{Arc, Condvar, Mutex, MutexGuard};
use std::time::{Duration, Instant};

// ---------------------------------------------------------------------------------------------
// shared small helpers (also used by c19.rs)

pub(crate) fn rip_bin() -> PathBuf {
    PathBuf::from(std::env::var("RV_RIP_BIN").unwrap_or_else(|_| "/verif/target/repo/release/rip".to_string()))
}

#[derive(Debug, Clone)]
pub(crate) struct HttpResp {
    pub status: u16,
    pub head: String,
    pub body: Vec<u8>,
    /// everything that came over the wire (head + undecoded body)
    pub raw: Vec<u8>,
}

fn dechunk(raw: &[u8]) -> Vec<u8> {
    let mut out = Vec::new();
    let mut i = 0;
    while i < raw.len() {
        let Some(eol) = raw[i..].windows(2).position(|w| w == b"\r\n") else {
            break;
        };
        let size_str = String::from_utf8_lossy(&raw[i..i + eol]).to_string();
        let Ok(size) = usize::from_str_radix(size_str.split(';').next().unwrap_or("0").trim(), 16) else {
            break;
        };
        i += eol + 2;
        if size == 0 {
            break;
        }
        let end = (i + size).min(raw.len());
        out.extend_from_slice(&raw[i..end]);
        i = end + 2;
    }
    out
}

/// One HTTP/1.1 exchange over a fresh connection. `until` (checked on the bytes read so far) ends
/// an endless (SSE) response early. None = could not connect / no parsable answer.
pub(crate) fn http_exchange(
    addr: &str,
    method: &str,
    path: &str,
    body: Option<&[u8]>,
    timeout: Duration,
    until: Option<&dyn Fn(&[u8]) -> bool>,
) -> Option<HttpResp> {
    let sock: SocketAddr = addr.parse().ok()?;
    let mut s = TcpStream::connect_timeout(&sock, Duration::from_millis(400)).ok()?;
    let _ = s.set_nodelay(true);
    let _ = s.set_write_timeout(Some(Duration::from_secs(2)));
    let mut req = format!("{method} {path} HTTP/1.1\r\nhost: {addr}\r\nconnection: close\r\naccept: */*\r\n");
    if let Some(b) = body {
        req.push_str(&format!("content-type: application/json\r\ncontent-length: {}\r\n", b.len()));
    }
    req.push_str("\r\n");
    s.write_all(req.as_bytes()).ok()?;
    if let Some(b) = body {
        s.write_all(b).ok()?;
    }
    let _ = s.flush();
    let deadline = Instant::now() + timeout;
    let mut raw: Vec<u8> = Vec::new();
    let mut tmp = [0u8; 16384];
    loop {
        let now = Instant::now();
        if now >= deadline {
            break;
        }
        let _ = s.set_read_timeout(Some((deadline - now).min(Duration::from_millis(50)).max(Duration::from_millis(1))));
        match s.read(&mut tmp) {
            Ok(0) => break,
            Ok(n) => {
                raw.extend_from_slice(&tmp[..n]);
                if let Some(f) = until {
                    if f(&raw) {
                        break;
                    }
                }
            }
            Err(e) if matches!(e.kind(), std::io::ErrorKind::WouldBlock | std::io::ErrorKind::TimedOut) => continue,
            Err(_) => break,
        }
    }
    let pos = raw.windows(4).position(|w| w == b"\r\n\r\n")?;
    let head = String::from_utf8_lossy(&raw[..pos]).to_string();
    let status: u16 = head.split(' ').nth(1)?.trim().parse().ok()?;
    let rest = &raw[pos + 4..];
    let body = if head.to_ascii_lowercase().contains("transfer-encoding: chunked") {
        dechunk(rest)
    } else {
        rest.to_vec()
    };
    Some(HttpResp { status, head, body, raw })
}

pub(crate) fn http_json(addr: &str, method: &str, path: &str, body: Option<&Value>, timeout: Duration) -> Option<(u16, Value, HttpResp)> {
    let bytes = body.map(|b| serde_json::to_vec(b).unwrap_or_default());
    let r = http_exchange(addr, method, path, bytes.as_deref(), timeout, None)?;
    let v = serde_json::from_slice(&r.body).unwrap_or(Value::Null);
    Some((r.status, v, r))
}

/// "http://127.0.0.1:1234" -> "127.0.0.1:1234"
pub(crate) fn host_port(endpoint: &str) -> String {
    endpoint
        .trim()
        .trim_start_matches("http://")
        .split('/')
        .next()
        .unwrap_or("")
        .to_string()
}

pub(crate) fn openapi_reachable(endpoint: &str) -> bool {
    match http_exchange(&host_port(endpoint), "GET", "/openapi.json", None, Duration::from_millis(1500), None) {
        Some(r) => r.status == 200,
        None => false,
    }
}

pub(crate) fn kill_pid(pid: u32, sig: i32) {
    if pid > 1 {
        unsafe {
            libc::kill(pid as i32, sig);
        }
    }
}

pub(crate) fn kill_group(pgid: u32, sig: i32) {
    if pgid > 1 {
        unsafe {
            libc::kill(-(pgid as i32), sig);
        }
    }
}

/// A child process whose stderr/stdout are collected by reader threads.
pub(crate) struct Proc {
    pub child: Child,
    pub pid: u32,
    pub out: Arc<Mutex<Vec<u8>>>,
    pub err: Arc<Mutex<Vec<u8>>>,
    pub exit: Option<i32>,
    readers: Vec<std::thread::JoinHandle<()>>,
}

impl Proc {
    pub fn spawn(mut cmd: Command) -> std::io::Result<Proc> {
        cmd.stdin(Stdio::null()).stdout(Stdio::piped()).stderr(Stdio::piped());
        let mut child = cmd.spawn()?;
        let pid = child.id();
        let out = Arc::new(Mutex::new(Vec::new()));
        let err = Arc::new(Mutex::new(Vec::new()));
        let mut readers = Vec::new();
        if let Some(mut so) = child.stdout.take() {
            let out = out.clone();
            readers.push(std::thread::spawn(move || {
                let mut buf = [0u8; 4096];
                while let Ok(n) = so.read(&mut buf) {
                    if n == 0 {
                        break;
                    }
                    out.lock().unwrap().extend_from_slice(&buf[..n]);
                }
            }));
        }
        if let Some(mut se) = child.stderr.take() {
            let err = err.clone();
            readers.push(std::thread::spawn(move || {
                let mut buf = [0u8; 4096];
                while let Ok(n) = se.read(&mut buf) {
                    if n == 0 {
                        break;
                    }
                    err.lock().unwrap().extend_from_slice(&buf[..n]);
                }
            }));
        }
        Ok(Proc { child, pid, out, err, exit: None, readers })
    }

    pub fn stderr_text(&self) -> String {
        String::from_utf8_lossy(&self.err.lock().unwrap()).to_string()
    }

    pub fn stdout_text(&self) -> String {
        String::from_utf8_lossy(&self.out.lock().unwrap()).to_string()
    }

    /// endpoint from the "ripd listening on http://…" line, once printed
    pub fn listening(&self) -> Option<String> {
        let t = self.stderr_text();
        // stderr is unbuffered: only a line that has been terminated is complete
        let complete = match t.rfind('\n') {
            Some(p) => &t[..p],
            None => return None,
        };
        for line in complete.lines() {
            if let Some(rest) = line.strip_prefix("ripd listening on ") {
                return Some(rest.trim().to_string());
            }
        }
        None
    }

    pub fn alive(&mut self) -> bool {
        if self.exit.is_some() {
            return false;
        }
        match self.child.try_wait() {
            Ok(Some(st)) => {
                self.exit = Some(st.code().unwrap_or(-1));
                false
            }
            Ok(None) => true,
            Err(_) => false,
        }
    }

    pub fn wait_exit(&mut self, timeout: Duration) -> Option<i32> {
        let start = Instant::now();
        while start.elapsed() < timeout {
            if !self.alive() {
                return self.exit;
            }
            std::thread::sleep(Duration::from_millis(5));
        }
        None
    }

    /// SIGKILL (if still running), reap, join the readers.
    pub fn finish(&mut self) {
        if self.alive() {
            let _ = self.child.kill();
        }
        let _ = self.child.wait();
        // readers end when the pipes close; a grandchild holding the pipe open must not hang us
        let readers = std::mem::take(&mut self.readers);
        let t0 = Instant::now();
        for r in readers {
            while !r.is_finished() && t0.elapsed() < Duration::from_millis(300) {
                std::thread::sleep(Duration::from_millis(2));
            }
            if r.is_finished() {
                let _ = r.join();
            }
        }
    }
}

// ---------------------------------------------------------------------------------------------
// leftover states

#[derive(Clone, Copy, Debug, PartialEq, Eq, Hash)]
enum Left {
    Nothing,
    DeadLock,
    DeadLockMeta,
    DeadLockMetaDrift,
    DeadMetaOnly,
    EmptyLock,
    HalfLock,
    ShapelessLock,
    HalfLockSplitUtf8,
    EmptyLockDeadMeta,
    LivePidLock,
    LivePidLockMeta,
    LiveEndpoint,
    LiveEndpointForeignPid,
    // mixed-owner leftovers: lock.json and meta.json belong to different parties
    /// lock of a live pid (an authority that is starting / has not published yet) next to the meta of a dead one
    LiveLockDeadMeta,
    /// lock of a live pid next to a meta naming another live pid (unreachable endpoint)
    LiveLockOtherLiveMeta,
    /// lock of a live pid next to an empty / half-written / shapeless meta
    LiveLockCorruptMeta,
    /// lock of a dead pid next to the meta of a live pid whose endpoint answers
    DeadLockLiveMetaEndpoint,
}

const ALL_LEFT: &[Left] = &[
    Left::Nothing,
    Left::DeadLock,
    Left::DeadLockMeta,
    Left::DeadLockMetaDrift,
    Left::DeadMetaOnly,
    Left::EmptyLock,
    Left::HalfLock,
    Left::ShapelessLock,
    Left::HalfLockSplitUtf8,
    Left::EmptyLockDeadMeta,
    Left::LivePidLock,
    Left::LivePidLockMeta,
    Left::LiveEndpoint,
    Left::LiveEndpointForeignPid,
    Left::LiveLockDeadMeta,
    Left::LiveLockOtherLiveMeta,
    Left::LiveLockCorruptMeta,
    Left::DeadLockLiveMetaEndpoint,
];

impl Left {
    fn name(&self) -> &'static str {
        match self {
            Left::Nothing => "nothing",
            Left::DeadLock => "dead_lock_only",
            Left::DeadLockMeta => "dead_lock_and_meta",
            Left::DeadLockMetaDrift => "dead_lock_and_meta_started_at_drift",
            Left::DeadMetaOnly => "dead_meta_only",
            Left::EmptyLock => "empty_lock",
            Left::HalfLock => "half_written_lock",
            Left::ShapelessLock => "lock_not_a_record",
            Left::HalfLockSplitUtf8 => "half_written_lock_split_utf8",
            Left::EmptyLockDeadMeta => "empty_lock_with_dead_meta",
            Left::LivePidLock => "live_pid_lock_only",
            Left::LivePidLockMeta => "live_pid_lock_and_meta",
            Left::LiveEndpoint => "live_pid_answering_endpoint",
            Left::LiveEndpointForeignPid => "answering_endpoint_pid_not_local",
            Left::LiveLockDeadMeta => "live_pid_lock_dead_meta",
            Left::LiveLockOtherLiveMeta => "live_pid_lock_other_live_pid_meta",
            Left::LiveLockCorruptMeta => "live_pid_lock_corrupt_meta",
            Left::DeadLockLiveMetaEndpoint => "dead_lock_live_pid_answering_meta",
        }
    }
    fn live(&self) -> bool {
        matches!(
            self,
            Left::LivePidLock
                | Left::LivePidLockMeta
                | Left::LiveEndpoint
                | Left::LiveEndpointForeignPid
                | Left::LiveLockDeadMeta
                | Left::LiveLockOtherLiveMeta
                | Left::LiveLockCorruptMeta
                | Left::DeadLockLiveMetaEndpoint
        )
    }
    /// lock.json carries the pid of a process that is alive (the party nobody may displace is the lock's owner)
    fn lock_owner_live(&self) -> bool {
        matches!(
            self,
            Left::LivePidLock
                | Left::LivePidLockMeta
                | Left::LiveEndpoint
                | Left::LiveLockDeadMeta
                | Left::LiveLockOtherLiveMeta
                | Left::LiveLockCorruptMeta
        )
    }
    /// meta.json is not the live lock owner's file: recovery may remove it (but not replace it while the owner lives)
    fn meta_may_go(&self) -> bool {
        matches!(self, Left::LiveLockDeadMeta | Left::LiveLockOtherLiveMeta | Left::LiveLockCorruptMeta)
    }
    /// the live authority is known only by its answering endpoint (the lock names a pid that is gone): the code may
    /// displace it when the endpoint misses a ping, so a takeover is a verdict only on a host that answered promptly
    fn ping_dependent(&self) -> bool {
        self.answering() && !self.lock_owner_live()
    }
    /// the live party is known by an endpoint that answers (attaching clients succeed at once)
    fn answering(&self) -> bool {
        matches!(self, Left::LiveEndpoint | Left::LiveEndpointForeignPid | Left::DeadLockLiveMetaEndpoint)
    }
    /// the corrupt-lock path (1 s grace) is needed before anybody can acquire
    fn corrupt(&self) -> bool {
        matches!(
            self,
            Left::EmptyLock | Left::HalfLock | Left::ShapelessLock | Left::HalfLockSplitUtf8 | Left::EmptyLockDeadMeta
        )
    }
    fn dead(&self) -> bool {
        matches!(self, Left::DeadLock | Left::DeadLockMeta | Left::DeadLockMetaDrift | Left::DeadMetaOnly)
    }
}

/// Things that have to stay alive while the planted state is in use.
struct Planted {
    dead_pid: Option<u32>,
    sleeper: Option<Child>,
    /// second live process (the pid named by a foreign live meta)
    sleeper2: Option<Child>,
    responder: Option<Responder>,
    lock_bytes: Option<Vec<u8>>,
    meta_bytes: Option<Vec<u8>>,
}

impl Drop for Planted {
    fn drop(&mut self) {
        for mut c in [self.sleeper.take(), self.sleeper2.take()].into_iter().flatten() {
            let _ = c.kill();
            let _ = c.wait();
        }
    }
}

/// Minimal HTTP server that answers 200 to everything (a "reachable authority endpoint").
struct Responder {
    addr: SocketAddr,
    stop: Arc<AtomicBool>,
    thread: Option<std::thread::JoinHandle<()>>,
    /// worst lag seen on the answering side (ms): gap between two polls of the accept loop, accept → response flushed.
    /// A contender's ping has a 250 ms budget; when this side alone used up a good part of it, an unanswered ping is
    /// the host's doing.
    lag_ms: Arc<std::sync::atomic::AtomicU64>,
}

impl Responder {
    fn start() -> Responder {
        let l = TcpListener::bind("127.0.0.1:0").expect("bind responder");
        let addr = l.local_addr().expect("addr");
        l.set_nonblocking(true).expect("nonblocking");
        let stop = Arc::new(AtomicBool::new(false));
        let stop2 = stop.clone();
        let lag_ms = Arc::new(std::sync::atomic::AtomicU64::new(0));
        let lag = lag_ms.clone();
        let thread = std::thread::spawn(move || {
            let mut last = Instant::now();
            while !stop2.load(Ordering::Relaxed) {
                let now = Instant::now();
                lag.fetch_max((now - last).as_millis() as u64, Ordering::Relaxed);
                last = now;
                match l.accept() {
                    Ok((mut s, _)) => {
                        let lag = lag.clone();
                        let t_acc = Instant::now();
                        std::thread::spawn(move || {
                            let _ = s.set_nonblocking(false);
                            let _ = s.set_read_timeout(Some(Duration::from_millis(500)));
                            let mut buf = [0u8; 2048];
                            let mut got = Vec::new();
                            while !got.windows(4).any(|w| w == b"\r\n\r\n") {
                                match s.read(&mut buf) {
                                    Ok(0) | Err(_) => break,
                                    Ok(n) => got.extend_from_slice(&buf[..n]),
                                }
                            }
                            let _ = s.write_all(
                                b"HTTP/1.1 200 OK\r\ncontent-type: application/json\r\ncontent-length: 2\r\nconnection: close\r\n\r\n{}",
                            );
                            let _ = s.flush();
                            lag.fetch_max(t_acc.elapsed().as_millis() as u64, Ordering::Relaxed);
                        });
                    }
                    Err(ref e) if e.kind() == std::io::ErrorKind::WouldBlock => std::thread::sleep(Duration::from_millis(1)),
                    Err(_) => break,
                }
            }
        });
        Responder { addr, stop, thread: Some(thread), lag_ms }
    }
}

impl Drop for Responder {
    fn drop(&mut self) {
        self.stop.store(true, Ordering::Relaxed);
        if let Some(t) = self.thread.take() {
            let _ = t.join();
        }
    }
}

/// A pid that is certainly dead: a reaped child, or (pid_max permitting) a pid the kernel never hands out.
fn dead_pid(rng: &mut Rng) -> Option<u32> {
    if rng.chance(3, 4) {
        if let Ok(mut c) = Command::new("true").stdin(Stdio::null()).stdout(Stdio::null()).stderr(Stdio::null()).spawn() {
            let pid = c.id();
            let _ = c.wait();
            if ripd::pid_liveness(pid) == ripd::PidLiveness::Dead {
                return Some(pid);
            }
        }
    }
    let pid_max: u32 = std::fs::read_to_string("/proc/sys/kernel/pid_max")
        .ok()
        .and_then(|s| s.trim().parse().ok())
        .unwrap_or(4_194_304);
    let pid = pid_max + 1000 + rng.below(100_000) as u32;
    (ripd::pid_liveness(pid) == ripd::PidLiveness::Dead).then_some(pid)
}

/// port 1 (tcpmux) is privileged and unused: connections are refused and no test process can ever bind it
const REFUSED_ENDPOINT: &str = "http://127.0.0.1:1";

fn lock_json(pid: u32, started: u64, ws: &Path) -> Vec<u8> {
    let mut v = serde_json::to_vec(&json!({"pid": pid, "started_at_ms": started, "workspace_root": ws.to_string_lossy()})).unwrap();
    v.push(b'\n');
    v
}

fn meta_json(endpoint: &str, pid: u32, started: u64, ws: &Path) -> Vec<u8> {
    serde_json::to_vec(&json!({"endpoint": endpoint, "pid": pid, "started_at_ms": started, "workspace_root": ws.to_string_lossy()}))
        .unwrap()
}

fn plant(left: Left, data: &Path, ws: &Path, rng: &mut Rng) -> Result<Planted, String> {
    let dir = ripd::authority_dir(data);
    std::fs::create_dir_all(&dir).map_err(|e| e.to_string())?;
    let lock_path = ripd::authority_lock_path(data);
    let meta_path = ripd::authority_meta_path(data);
    let mut p = Planted { dead_pid: None, sleeper: None, sleeper2: None, responder: None, lock_bytes: None, meta_bytes: None };
    // what the owner wrote as its start time is its own wall-clock reading: long ago (before this machine booted),
    // just now, in the future, or nonsense — liveness of the owner must not depend on it
    let now_ms = std::time::SystemTime::now().duration_since(std::time::UNIX_EPOCH).map(|d| d.as_millis() as u64).unwrap_or(1_700_000_000_000);
    let started = match rng.below(20) {
        0..=11 => 1_700_000_000_000u64 + rng.below(1_000_000),
        12..=16 => now_ms.saturating_sub(rng.below(30_000)),
        17 | 18 => now_ms + 86_400_000 + rng.below(1_000_000),
        _ => 1 + rng.below(1000),
    };
    let mut lock: Option<Vec<u8>> = None;
    let mut meta: Option<Vec<u8>> = None;
    match left {
        Left::Nothing => {
            if rng.bool() {
                let _ = std::fs::remove_dir_all(&dir); // the loop must also create the directory
            }
        }
        Left::DeadLock | Left::DeadLockMeta | Left::DeadLockMetaDrift | Left::DeadMetaOnly | Left::EmptyLockDeadMeta => {
            let pid = dead_pid(rng).ok_or("no dead pid available")?;
            p.dead_pid = Some(pid);
            match left {
                Left::DeadLock => lock = Some(lock_json(pid, started, ws)),
                Left::DeadLockMeta => {
                    lock = Some(lock_json(pid, started, ws));
                    meta = Some(meta_json(REFUSED_ENDPOINT, pid, started, ws));
                }
                Left::DeadLockMetaDrift => {
                    lock = Some(lock_json(pid, started, ws));
                    meta = Some(meta_json(REFUSED_ENDPOINT, pid, started + 21, ws));
                }
                Left::DeadMetaOnly => meta = Some(meta_json(REFUSED_ENDPOINT, pid, started, ws)),
                _ => {
                    lock = Some(Vec::new());
                    meta = Some(meta_json(REFUSED_ENDPOINT, pid, started, ws));
                }
            }
        }
        Left::EmptyLock => lock = Some(Vec::new()),
        Left::HalfLock => {
            let full = lock_json(4242, started, ws);
            let cut = 1 + rng.usize(full.len() - 2);
            lock = Some(full[..cut].to_vec());
        }
        Left::ShapelessLock => {
            lock = Some(match rng.below(3) {
                0 => b"{}\n".to_vec(),
                1 => b"null".to_vec(),
                _ => b"[1,2,3]".to_vec(),
            })
        }
        Left::HalfLockSplitUtf8 => {
            // a workspace path with a two-byte character, cut between its bytes
            let mut v = b"{\"pid\":4242,\"started_at_ms\":1700000000000,\"workspace_root\":\"/tmp/w".to_vec();
            v.push(0xC3);
            lock = Some(v);
        }
        Left::LivePidLock
        | Left::LivePidLockMeta
        | Left::LiveEndpoint
        | Left::LiveEndpointForeignPid
        | Left::LiveLockDeadMeta
        | Left::LiveLockOtherLiveMeta
        | Left::LiveLockCorruptMeta
        | Left::DeadLockLiveMetaEndpoint => {
            let child = Command::new("sleep")
                .arg("60")
                .stdin(Stdio::null())
                .stdout(Stdio::null())
                .stderr(Stdio::null())
                .spawn()
                .map_err(|e| format!("spawn sleep: {e}"))?;
            let live = child.id();
            p.sleeper = Some(child);
            if ripd::pid_liveness(live) != ripd::PidLiveness::Alive {
                return Err("sleeping helper is not alive".into());
            }
            match left {
                Left::LivePidLock => lock = Some(lock_json(live, started, ws)),
                Left::LivePidLockMeta => {
                    lock = Some(lock_json(live, started, ws));
                    meta = Some(meta_json(REFUSED_ENDPOINT, live, started, ws));
                }
                Left::LiveEndpoint => {
                    let r = Responder::start();
                    lock = Some(lock_json(live, started, ws));
                    meta = Some(meta_json(&format!("http://{}", r.addr), live, started, ws));
                    p.responder = Some(r);
                }
                Left::LiveLockDeadMeta => {
                    // e.g. a cleanup that died between renaming the lock and the meta, then a new authority that
                    // holds the lock and has not published its endpoint yet
                    let pid = dead_pid(rng).ok_or("no dead pid available")?;
                    p.dead_pid = Some(pid);
                    lock = Some(lock_json(live, started, ws));
                    let drift = if rng.bool() { 0 } else { rng.below(5000) };
                    meta = Some(meta_json(REFUSED_ENDPOINT, pid, started.saturating_sub(60_000 + drift), ws));
                }
                Left::LiveLockOtherLiveMeta => {
                    let other = Command::new("sleep")
                        .arg("60")
                        .stdin(Stdio::null())
                        .stdout(Stdio::null())
                        .stderr(Stdio::null())
                        .spawn()
                        .map_err(|e| format!("spawn sleep: {e}"))?;
                    let other_pid = other.id();
                    p.sleeper2 = Some(other);
                    lock = Some(lock_json(live, started, ws));
                    meta = Some(meta_json(REFUSED_ENDPOINT, other_pid, started.saturating_sub(60_000), ws));
                }
                Left::LiveLockCorruptMeta => {
                    lock = Some(lock_json(live, started, ws));
                    let full = meta_json(REFUSED_ENDPOINT, 4242, started, ws);
                    meta = Some(match rng.below(4) {
                        0 => Vec::new(),
                        1 => full[..1 + rng.usize(full.len() - 2)].to_vec(),
                        2 => b"{}".to_vec(),
                        _ => b"null".to_vec(),
                    });
                }
                Left::DeadLockLiveMetaEndpoint => {
                    let pid = dead_pid(rng).ok_or("no dead pid available")?;
                    p.dead_pid = Some(pid);
                    let r = Responder::start();
                    lock = Some(lock_json(pid, started, ws));
                    meta = Some(meta_json(&format!("http://{}", r.addr), live, started + rng.below(50), ws));
                    p.responder = Some(r);
                }
                _ => {
                    let pid = dead_pid(rng).ok_or("no dead pid available")?;
                    p.dead_pid = Some(pid);
                    let r = Responder::start();
                    lock = Some(lock_json(pid, started, ws));
                    meta = Some(meta_json(&format!("http://{}", r.addr), pid, started, ws));
                    p.responder = Some(r);
                }
            }
        }
    }
    if let Some(l) = &lock {
        std::fs::write(&lock_path, l).map_err(|e| e.to_string())?;
    }
    if let Some(m) = &meta {
        std::fs::write(&meta_path, m).map_err(|e| e.to_string())?;
    }
    p.lock_bytes = lock;
    p.meta_bytes = meta;
    Ok(p)
}

// ---------------------------------------------------------------------------------------------
// (A) the in-process monitor

thread_local! {
    /// contender number of this thread (1-based); 0 = not a contender of the current case
    static ROLE: Cell<usize> = const { Cell::new(0) };
}

#[derive(Clone, Debug)]
enum Cond {
    /// became an observed holder at least once
    Entered(usize),
    /// an acquire attempt has returned (Ok or Err)
    Returned(usize),
    /// guard drop completed at least once
    Dropped(usize),
    /// the contender thread has finished all its attempts
    Done(usize),
    Passed(usize, &'static str, u64),
    AnyOf(Vec<Cond>),
}

#[derive(Clone, Debug)]
struct Park {
    who: usize,
    at: &'static str,
    nth: u64,
    until: Cond,
    timeout_ms: u64,
    hits: u64,
    fired: bool,
    timed_out: bool,
    /// a park that simply lasts `timeout_ms` (its expiry is the schedule, not a failure)
    timed: bool,
}

fn park(who: usize, at: &'static str, until: Cond) -> Park {
    Park { who, at, nth: 1, until, timeout_ms: 5000, hits: 0, fired: false, timed_out: false, timed: false }
}

fn park_for(who: usize, at: &'static str, ms: u64) -> Park {
    Park { who, at, nth: 1, until: Cond::AnyOf(vec![]), timeout_ms: ms, hits: 0, fired: false, timed_out: false, timed: true }
}

#[derive(Clone, Debug)]
struct Incident {
    kind: &'static str, // "two_holders" | "live_lock_taken"
    at: usize,          // trace index of the detecting event
    victim: usize,
    by: usize,
    point: String,
    detail: String,
}

#[derive(Default)]
struct MonState {
    holders: Vec<(usize, u32, u64)>,
    trace: Vec<(usize, String, u64)>,
    entered: HashMap<usize, u64>,
    returned: HashMap<usize, u64>,
    dropped: HashMap<usize, u64>,
    done: HashMap<usize, u64>,
    passed: HashMap<(usize, &'static str), u64>,
    incidents: Vec<Incident>,
    flagged_victims: Vec<usize>,
    intact_checks: u64,
    parks: Vec<Park>,
    errors: Vec<(usize, String)>,
    acquisitions: u64,
    hold_timeouts: u64,
    noise_us: u64,
    noise_rng: Option<Rng>,
}

struct Mon {
    st: Mutex<MonState>,
    cv: Condvar,
    lock_path: PathBuf,
    t0: Instant,
}

fn cond_holds(st: &MonState, c: &Cond) -> bool {
    match c {
        Cond::Entered(w) => st.entered.get(w).copied().unwrap_or(0) > 0,
        Cond::Returned(w) => st.returned.get(w).copied().unwrap_or(0) > 0,
        Cond::Dropped(w) => st.dropped.get(w).copied().unwrap_or(0) > 0,
        Cond::Done(w) => st.done.get(w).copied().unwrap_or(0) > 0,
        Cond::Passed(w, p, n) => st.passed.get(&(*w, *p)).copied().unwrap_or(0) >= *n,
        Cond::AnyOf(v) => v.iter().any(|c| cond_holds(st, c)),
    }
}

impl Mon {
    fn new(lock_path: PathBuf, parks: Vec<Park>, noise_us: u64, noise_seed: u64) -> Mon {
        Mon {
            st: Mutex::new(MonState { parks, noise_us, noise_rng: Some(Rng::new(noise_seed)), ..Default::default() }),
            cv: Condvar::new(),
            lock_path,
            t0: Instant::now(),
        }
    }

    fn push(&self, g: &mut MonState, who: usize, what: String) {
        let us = self.t0.elapsed().as_micros() as u64;
        g.trace.push((who, what, us));
    }

    fn lock(&self) -> MutexGuard<'_, MonState> {
        self.st.lock().unwrap_or_else(|e| e.into_inner())
    }

    /// While exactly one observed holder exists, `lock.json` must carry its record.
    fn check_intact(&self, g: &mut MonState, by: usize, point: &str) {
        if g.holders.len() != 1 {
            return;
        }
        let (h, pid, started) = g.holders[0];
        if g.flagged_victims.contains(&h) {
            return;
        }
        g.intact_checks += 1;
        let problem = match std::fs::read(&self.lock_path) {
            Err(_) => Some("lock.json does not exist".to_string()),
            Ok(bytes) => match serde_json::from_slice::<Value>(&bytes) {
                Ok(v) if v.get("pid").and_then(|x| x.as_u64()) == Some(pid as u64)
                    && v.get("started_at_ms").and_then(|x| x.as_u64()) == Some(started) =>
                {
                    None
                }
                Ok(v) => Some(format!("lock.json carries another record: {v}")),
                Err(_) => Some(format!("lock.json is not the holder's record ({} bytes)", bytes.len())),
            },
        };
        if let Some(detail) = problem {
            g.flagged_victims.push(h);
            let at = g.trace.len().saturating_sub(1);
            g.incidents.push(Incident { kind: "live_lock_taken", at, victim: h, by, point: point.to_string(), detail });
        }
    }

    fn on_point(&self, point: &'static str) {
        if !point.starts_with("auth.") {
            return;
        }
        let who = ROLE.with(|r| r.get());
        if who == 0 {
            return;
        }
        let mut g = self.lock();
        self.push(&mut g, who, point.to_string());
        *g.passed.entry((who, point)).or_insert(0) += 1;
        self.check_intact(&mut g, who, point);
        self.cv.notify_all();
        let mut idx = None;
        for (i, p) in g.parks.iter_mut().enumerate() {
            if !p.fired && p.who == who && p.at == point {
                p.hits += 1;
                if p.hits == p.nth {
                    p.fired = true;
                    idx = Some(i);
                    break;
                }
            }
        }
        if let Some(i) = idx {
            let until = g.parks[i].until.clone();
            let deadline = Instant::now() + Duration::from_millis(g.parks[i].timeout_ms);
            self.push(&mut g, who, format!("parked@{point}"));
            loop {
                if cond_holds(&g, &until) {
                    break;
                }
                let now = Instant::now();
                if now >= deadline {
                    g.parks[i].timed_out = !g.parks[i].timed;
                    break;
                }
                g = self.cv.wait_timeout(g, deadline - now).unwrap_or_else(|e| e.into_inner()).0;
            }
            self.push(&mut g, who, format!("resumed@{point}"));
        }
        // seeded noise *after* the event was recorded, so that the trace order stays close to the real order
        let mut sleep_us = 0;
        if g.noise_us > 0 {
            let max = g.noise_us;
            if let Some(rng) = g.noise_rng.as_mut() {
                sleep_us = match rng.below(3) {
                    0 => 0,
                    1 => rng.below(max / 8 + 1),
                    _ => rng.below(max + 1),
                };
            }
        }
        drop(g);
        if sleep_us > 0 {
            std::thread::sleep(Duration::from_micros(sleep_us));
        }
    }

    fn enter(&self, who: usize, pid: u32, started: u64) {
        let mut g = self.lock();
        self.push(&mut g, who, "enter".to_string());
        g.acquisitions += 1;
        if let Some(&(other, _, _)) = g.holders.first() {
            let at = g.trace.len() - 1;
            g.incidents.push(Incident {
                kind: "two_holders",
                at,
                victim: other,
                by: who,
                point: "acquire returned Ok".to_string(),
                detail: format!("contender {who} acquired while contender {other} still holds its guard"),
            });
        }
        g.holders.push((who, pid, started));
        self.check_intact(&mut g, who, "enter");
        *g.entered.entry(who).or_insert(0) += 1;
        *g.returned.entry(who).or_insert(0) += 1;
        self.cv.notify_all();
    }

    fn leave(&self, who: usize) {
        let mut g = self.lock();
        self.push(&mut g, who, "leave".to_string());
        if g.holders.len() == 1 && g.holders[0].0 == who {
            self.check_intact(&mut g, who, "leave");
        }
        g.holders.retain(|h| h.0 != who);
        self.cv.notify_all();
    }

    fn mark(&self, who: usize, what: &str, err: Option<String>) {
        let mut g = self.lock();
        self.push(&mut g, who, what.to_string());
        match what {
            "dropped" => *g.dropped.entry(who).or_insert(0) += 1,
            "err" => {
                *g.returned.entry(who).or_insert(0) += 1;
                if let Some(e) = err {
                    g.errors.push((who, e));
                }
            }
            "done" => *g.done.entry(who).or_insert(0) += 1,
            _ => {}
        }
        self.cv.notify_all();
    }

    fn wait(&self, c: &Cond, timeout_ms: u64) -> bool {
        let deadline = Instant::now() + Duration::from_millis(timeout_ms);
        let mut g = self.lock();
        loop {
            if cond_holds(&g, c) {
                return true;
            }
            let now = Instant::now();
            if now >= deadline {
                g.hold_timeouts += 1;
                return false;
            }
            g = self.cv.wait_timeout(g, deadline - now).unwrap_or_else(|e| e.into_inner()).0;
        }
    }
}

#[derive(Clone, Debug)]
enum Hold {
    Ms(u64),
    /// hold until the condition (bounded), then a few ms more
    Until(Cond),
}

#[derive(Clone, Debug)]
struct CSpec {
    id: usize,
    start_ms: u64,
    start_after: Option<Cond>,
    foreign_ws: bool,
    write_meta: bool,
    hold: Hold,
    attempts: u32,
    gap_ms: u64,
}

fn contender(id: usize) -> CSpec {
    CSpec { id, start_ms: 0, start_after: None, foreign_ws: false, write_meta: false, hold: Hold::Ms(5), attempts: 1, gap_ms: 0 }
}

struct Case {
    /// directed schedule name, or "noise"
    mode: String,
    left: Left,
    contenders: Vec<CSpec>,
    parks: Vec<Park>,
    noise_us: u64,
    /// what the schedule is expected to show on a correct implementation: nothing
    directed: bool,
}

const TAKE_POINTS: &[(&str, &str)] = &[
    ("auth.stale.renamed", "stale_cleanup_renames_fresh_lock"),
    ("auth.corrupt.renamed", "corrupt_cleanup_renames_fresh_lock"),
    ("auth.drop.lock", "drop_removes_foreign_lock"),
];

/// Which file-system step took the lock? Judged from the recorded hook trace.
fn attribute(trace: &[(usize, String, u64)], inc: &Incident) -> &'static str {
    let is_take = |p: &str| TAKE_POINTS.iter().find(|(tp, _)| *tp == p).map(|(_, c)| *c);
    // another acquirer that has been between `auth.created` and `auth.written` for ≥ 0.9 s at trace position `t`?
    let stalled_acquirer_at = |t: usize, not: usize| -> bool {
        let mut open: BTreeMap<usize, u64> = BTreeMap::new();
        for (w, p, us) in &trace[..t.min(trace.len())] {
            if p == "auth.created" {
                open.insert(*w, *us);
            } else if p == "auth.written" {
                open.remove(w);
            }
        }
        let now = trace[t.min(trace.len() - 1)].2;
        open.iter().any(|(w, since)| *w != not && now.saturating_sub(*since) >= 900_000)
    };
    let classify = |t: usize| -> Option<&'static str> {
        let (w, p, _) = &trace[t];
        let c = is_take(p)?;
        if p == "auth.corrupt.renamed" && stalled_acquirer_at(t, *w) {
            return Some("corrupt_grace_elapsed_on_live_slow_acquirer");
        }
        Some(c)
    };
    if trace.is_empty() {
        return "unattributed";
    }
    let d = inc.at.min(trace.len() - 1);
    // the detecting event itself, then backwards (not past the victim's own create), then forwards
    let victim_ok = |t: usize| trace[t].0 != inc.victim || inc.kind == "two_holders";
    if victim_ok(d) {
        if let Some(c) = classify(d) {
            return c;
        }
    }
    let mut t = d;
    while t > 0 {
        t -= 1;
        if inc.kind == "live_lock_taken" && trace[t].0 == inc.victim && trace[t].1 == "auth.created" {
            break;
        }
        if victim_ok(t) {
            if let Some(c) = classify(t) {
                return c;
            }
        }
    }
    for t in d + 1..trace.len() {
        if victim_ok(t) {
            if let Some(c) = classify(t) {
                return c;
            }
        }
    }
    "unattributed"
}

struct CaseOutcome {
    trace: Vec<(usize, String, u64)>,
    incidents: Vec<Incident>,
    acquisitions: u64,
    acquired_by: Vec<usize>,
    errors: Vec<(usize, String)>,
    intact_checks: u64,
    parks_timed_out: Vec<String>,
    parks_fired: u64,
    files_changed: Option<String>,
    foreign_meta_removed: bool,
    responder_lag_ms: Option<u64>,
    solo_retry: Option<Result<(), String>>,
    dead_pid_still_dead: bool,
    plant_error: Option<String>,
    wall_ms: u64,
}

fn lock_inode(data: &Path) -> Option<u64> {
    use std::os::unix::fs::MetadataExt;
    std::fs::metadata(ripd::authority_lock_path(data)).ok().map(|m| m.ino())
}

/// Other names in the authority directory under which the file that was `lock.json` (inode `ino`) lives now:
/// a rename keeps the inode, so this is the live owner's lock moved aside (a cleanup tombstone), whatever it is called.
/// Staging / temp files of contenders are other inodes and do not count.
fn lock_copies(data: &Path, ino: Option<u64>) -> Vec<String> {
    use std::os::unix::fs::MetadataExt;
    let Some(ino) = ino else {
        return Vec::new();
    };
    let mut v: Vec<String> = std::fs::read_dir(ripd::authority_dir(data))
        .map(|rd| {
            rd.flatten()
                .filter(|e| e.file_name() != "lock.json" && e.metadata().map(|m| m.ino() == ino).unwrap_or(false))
                .map(|e| e.file_name().to_string_lossy().to_string())
                .collect()
        })
        .unwrap_or_default();
    v.sort();
    v
}

fn acquire_blocking(data: &Path, ws: &Path) -> Result<ripd::AuthorityLockGuard, String> {
    let rt = tokio::runtime::Builder::new_current_thread()
        .enable_all()
        .build()
        .map_err(|e| format!("runtime: {e}"))?;
    rt.block_on(ripd::verif_export::acquire_authority_lock_with_recovery(data, ws))
}

fn run_inproc_case(case: &Case, rng: &mut Rng) -> CaseOutcome {
    let t0 = Instant::now();
    let store = Store::new("c18");
    let s = sched();
    s.reset();
    let mut out = CaseOutcome {
        trace: Vec::new(),
        incidents: Vec::new(),
        acquisitions: 0,
        acquired_by: Vec::new(),
        errors: Vec::new(),
        intact_checks: 0,
        parks_timed_out: Vec::new(),
        parks_fired: 0,
        files_changed: None,
        foreign_meta_removed: false,
        responder_lag_ms: None,
        solo_retry: None,
        dead_pid_still_dead: true,
        plant_error: None,
        wall_ms: 0,
    };
    let planted = match plant(case.left, &store.data, &store.ws, rng) {
        Ok(p) => p,
        Err(e) => {
            out.plant_error = Some(e);
            return out;
        }
    };
    let planted_lock_inode = lock_inode(&store.data);
    let mon = Arc::new(Mon::new(ripd::authority_lock_path(&store.data), case.parks.clone(), case.noise_us, rng.next_u64()));
    {
        let m = mon.clone();
        s.set_custom(Some(Arc::new(move |p, _ctx| m.on_point(p))));
    }
    let foreign_ws = store.dir.join("other-ws");
    let _ = std::fs::create_dir_all(&foreign_ws);
    let mut handles = Vec::new();
    for c in &case.contenders {
        let c = c.clone();
        let mon = mon.clone();
        let data = store.data.clone();
        let ws = if c.foreign_ws { foreign_ws.clone() } else { store.ws.clone() };
        handles.push(std::thread::spawn(move || {
            ROLE.with(|r| r.set(c.id));
            if let Some(cond) = &c.start_after {
                mon.wait(cond, 5000);
            }
            if c.start_ms > 0 {
                std::thread::sleep(Duration::from_millis(c.start_ms));
            }
            let mut got = 0u32;
            for attempt in 0..c.attempts {
                if attempt > 0 && c.gap_ms > 0 {
                    std::thread::sleep(Duration::from_millis(c.gap_ms));
                }
                match acquire_blocking(&data, &ws) {
                    Ok(guard) => {
                        got += 1;
                        let rec = guard.record().clone();
                        mon.enter(c.id, rec.pid, rec.started_at_ms);
                        if c.write_meta {
                            let _ = guard.write_meta(REFUSED_ENDPOINT);
                        }
                        match &c.hold {
                            Hold::Ms(ms) => std::thread::sleep(Duration::from_millis(*ms)),
                            Hold::Until(cond) => {
                                mon.wait(cond, 5000);
                                std::thread::sleep(Duration::from_millis(3));
                            }
                        }
                        mon.leave(c.id);
                        drop(guard);
                        mon.mark(c.id, "dropped", None);
                    }
                    Err(e) => mon.mark(c.id, "err", Some(e)),
                }
            }
            mon.mark(c.id, "done", None);
            ROLE.with(|r| r.set(0));
            got
        }));
    }
    for (h, c) in handles.into_iter().zip(case.contenders.iter()) {
        if let Ok(n) = h.join() {
            if n > 0 {
                out.acquired_by.push(c.id);
            }
        }
    }
    s.set_custom(None);
    s.reset();
    {
        let mut g = mon.lock();
        out.trace = std::mem::take(&mut g.trace);
        out.incidents = std::mem::take(&mut g.incidents);
        out.acquisitions = g.acquisitions;
        out.errors = std::mem::take(&mut g.errors);
        out.intact_checks = g.intact_checks;
        out.parks_fired = g.parks.iter().filter(|p| p.fired).count() as u64;
        out.parks_timed_out = g
            .parks
            .iter()
            .filter(|p| p.timed_out || !p.fired)
            .map(|p| format!("{}@{}{}", p.who, p.at, if p.fired { " timed out" } else { " never reached" }))
            .collect();
    }
    if let Some(pid) = planted.dead_pid {
        out.dead_pid_still_dead = ripd::pid_liveness(pid) == ripd::PidLiveness::Dead;
    }
    if case.left.live() {
        // the files of the live authority must be byte-identical
        let lock_now = std::fs::read(ripd::authority_lock_path(&store.data)).ok();
        let meta_now = std::fs::read(ripd::authority_meta_path(&store.data)).ok();
        if lock_now != planted.lock_bytes {
            out.files_changed = Some(format!(
                "lock.json changed: now {:?}",
                lock_now.map(|b| String::from_utf8_lossy(&b).to_string())
            ));
        } else if meta_now != planted.meta_bytes {
            if case.left.meta_may_go() && meta_now.is_none() {
                // the meta is not the live lock owner's file: removing the dead party's leftover is allowed
                out.foreign_meta_removed = true;
            } else {
                out.files_changed = Some(format!(
                    "meta.json changed: now {:?}",
                    meta_now.map(|b| String::from_utf8_lossy(&b).to_string())
                ));
            }
        }
        // renamed copies of the live owner's lock (tombstones) must not appear either
        if out.files_changed.is_none() && case.left.lock_owner_live() {
            let extra = lock_copies(&store.data, planted_lock_inode);
            if !extra.is_empty() {
                out.files_changed = Some(format!("the live owner's lock.json was moved aside: {extra:?}"));
            }
        }
    } else if out.acquisitions == 0 && !case.contenders.iter().all(|c| c.foreign_ws) {
        // bounded progress failed inside the loops' own deadline: is the store wedged for good?
        // One more uncontended attempt without any injected delay decides.
        ROLE.with(|r| r.set(0));
        out.solo_retry = Some(acquire_blocking(&store.data, &store.ws).map(drop));
    }
    out.responder_lag_ms = planted.responder.as_ref().map(|r| r.lag_ms.load(Ordering::Relaxed));
    drop(planted);
    out.wall_ms = t0.elapsed().as_millis() as u64;
    out
}

fn trace_json(trace: &[(usize, String, u64)]) -> Value {
    let shown: Vec<String> = trace.iter().take(400).map(|(w, p, us)| format!("{w}:{p}@{}ms", us / 1000)).collect();
    json!(shown)
}

fn interleaving_hash(case: &Case, trace: &[(usize, String, u64)]) -> u64 {
    let mut map: HashMap<usize, usize> = HashMap::new();
    let mut s = format!("{}|{}|", case.left.name(), case.mode);
    for (w, p, _) in trace {
        let n = map.len();
        let t = *map.entry(*w).or_insert(n);
        s.push_str(&format!("{t}:{p};"));
    }
    fnv_str(&s)
}

fn judge_inproc(r: &mut Report, idx: u64, case: &Case, out: &CaseOutcome) {
    if let Some(e) = &out.plant_error {
        r.inconclusive(&format!("case {idx} ({}): could not plant leftover state: {e}", case.left.name()));
        return;
    }
    let witness = |extra: Value| {
        json!({
            "case": idx, "part": "in_process", "mode": case.mode, "leftover": case.left.name(),
            "contenders": case.contenders.iter().map(|c| format!("{c:?}")).collect::<Vec<_>>(),
            "parks": case.parks.iter().map(|p| format!("park contender {} at {} until {:?}", p.who, p.at, p.until)).collect::<Vec<_>>(),
            "noise_us": case.noise_us,
            "acquired_by": out.acquired_by, "errors": out.errors.iter().take(8).map(|(w, e)| format!("{w}: {e}")).collect::<Vec<_>>(),
            "trace": trace_json(&out.trace), "detail": extra,
        })
    };
    r.eval();
    r.count("inproc_cases", 1);
    r.count(&format!("inproc_cases_from_{}", case.left.name()), 1);
    r.count("inproc_contenders", case.contenders.len() as u64);
    r.count("inproc_acquisitions", out.acquisitions);
    r.count("inproc_loops_returned_err", out.errors.len() as u64);
    r.count("inproc_auth_hook_events", out.trace.iter().filter(|(_, p, _)| p.starts_with("auth.")).count() as u64);
    r.count("inproc_lock_intact_checks_while_held", out.intact_checks);
    r.count("inproc_rendezvous_fired", out.parks_fired);
    let contending: BTreeSet<usize> = out.trace.iter().filter(|(_, p, _)| p.starts_with("auth.")).map(|(w, _, _)| *w).collect();
    if contending.len() >= 2 || (case.contenders.len() == 1 && !out.trace.is_empty()) {
        r.distinct(interleaving_hash(case, &out.trace));
    }
    if case.directed && !out.parks_timed_out.is_empty() {
        r.inconclusive(&format!(
            "case {idx}: directed schedule {} was not realised ({})",
            case.mode,
            out.parks_timed_out.join(", ")
        ));
        return;
    }
    // safety: group incidents by the step that took the lock
    let mut by_cause: BTreeMap<&'static str, Vec<&Incident>> = BTreeMap::new();
    for inc in &out.incidents {
        by_cause.entry(attribute(&out.trace, inc)).or_default().push(inc);
    }
    // schedule class: the rendezvous script that produced it, or — no script, contenders run freely under the OS
    // scheduler (± seeded delays) — "noise", whichever case generator supplied the leftover state
    let sched_class = if case.parks.is_empty() { "noise" } else { case.mode.as_str() };
    for (cause, incs) in &by_cause {
        let kinds: BTreeSet<&str> = incs.iter().map(|i| i.kind).collect();
        let first = incs[0];
        r.violation(
            &format!("C18/{cause}/{sched_class}"),
            &format!(
                "{} from leftover state {}: {} (contender {} at {}: {})",
                kinds.iter().cloned().collect::<Vec<_>>().join(" + "),
                case.left.name(),
                cause,
                first.by,
                first.point,
                first.detail
            ),
            witness(json!(incs
                .iter()
                .map(|i| json!({"kind": i.kind, "victim": i.victim, "by": i.by, "point": i.point, "detail": i.detail, "trace_index": i.at}))
                .collect::<Vec<_>>())),
        );
        r.count("inproc_incidents", incs.len() as u64);
    }
    let host_slow = case.left.ping_dependent() && out.responder_lag_ms.map(|l| l > 100).unwrap_or(true);
    if case.left.live() && host_slow && (out.acquisitions > 0 || out.files_changed.is_some()) {
        r.inconclusive(&format!(
            "case {idx} ({}): the authority known only by its endpoint was displaced, but the answering side itself lagged {:?} ms (a ping has 250 ms): overloaded host, no verdict",
            case.left.name(),
            out.responder_lag_ms
        ));
        r.count("inproc_ping_dependent_takeovers_on_slow_host", 1);
    } else if case.left.live() {
        if out.acquisitions > 0 {
            r.violation(
                &format!("C18/live_leftover_lock_acquired/{}", case.left.name()),
                &format!(
                    "contender(s) {:?} acquired the authority role although the store has a live authority ({})",
                    out.acquired_by,
                    case.left.name()
                ),
                witness(json!(null)),
            );
        }
        if let Some(ch) = &out.files_changed {
            r.violation(
                &format!("C18/live_leftover_files_changed/{}", case.left.name()),
                &format!("files of a live authority were modified by recovery ({}): {ch}", case.left.name()),
                witness(json!(ch)),
            );
        }
        r.count("inproc_live_states_nobody_acquired", (out.acquisitions == 0) as u64);
        if case.left.meta_may_go() || case.left == Left::DeadLockLiveMetaEndpoint {
            r.count("inproc_mixed_owner_cases", 1);
            r.count("inproc_mixed_owner_foreign_meta_removed", out.foreign_meta_removed as u64);
        }
    } else if out.acquisitions == 0 {
        match &out.solo_retry {
            Some(Err(e)) if out.dead_pid_still_dead => {
                r.violation(
                    &format!("C18/not_usable_again/{}", case.left.name()),
                    &format!(
                        "no contender acquired within the recovery loop's own deadline and a later uncontended attempt failed too, \
                         although the previous authority is gone ({}): {e}",
                        case.left.name()
                    ),
                    witness(json!({"solo_retry_error": e})),
                );
            }
            Some(Err(_)) => r.inconclusive(&format!("case {idx}: the dead pid was re-used by another process during the case")),
            Some(Ok(())) => r.count("inproc_progress_only_on_later_attempt", 1),
            None => {}
        }
    } else {
        r.count("inproc_progress_cases_somebody_acquired", 1);
    }
    r.sample(json!({
        "case": idx, "part": "in_process", "mode": case.mode, "leftover": case.left.name(),
        "contenders": case.contenders.len(), "noise_us": case.noise_us, "acquired_by": out.acquired_by,
        "errs": out.errors.len(), "hook_events": out.trace.len(), "intact_checks": out.intact_checks,
        "incidents": out.incidents.len(), "wall_ms": out.wall_ms,
    }));
}

// directed schedules ---------------------------------------------------------------------------

/// in-process directed schedules
const N_DIRECTED: u64 = 19;
/// case index of the directed multi-process batch "clients and servers on every live / mixed-owner leftover"
const MIXED_BATCH_CASE: u64 = N_DIRECTED;

fn directed_case(k: u64) -> Case {
    let a = 1usize;
    let b = 2usize;
    let c3 = 3usize;
    match k {
        // F19: B has re-read the dead lock, A cleans up and acquires, B renames A's fresh lock.
        0 | 1 => {
            let mut ca = contender(a);
            ca.start_after = Some(Cond::Passed(b, "auth.stale.reread", 1));
            ca.write_meta = k == 1;
            ca.hold = Hold::Until(Cond::Dropped(b));
            let mut cb = contender(b);
            cb.hold = Hold::Ms(5);
            Case {
                mode: "park(B@auth.stale.reread)until(A_acquired)".into(),
                left: if k == 0 { Left::DeadLock } else { Left::DeadLockMeta },
                contenders: vec![ca, cb],
                parks: vec![park(b, "auth.stale.reread", Cond::AnyOf(vec![Cond::Entered(a), Cond::Done(a)]))],
                noise_us: 0,
                directed: true,
            }
        }
        // same window in the corrupt-lock cleanup: exists-check, then rename
        2 => {
            let mut ca = contender(a);
            ca.start_after = Some(Cond::Passed(b, "auth.corrupt.checked", 1));
            ca.hold = Hold::Until(Cond::Dropped(b));
            let mut cb = contender(b);
            cb.hold = Hold::Ms(5);
            Case {
                mode: "park(B@auth.corrupt.checked)until(A_acquired)".into(),
                left: Left::EmptyLock,
                contenders: vec![ca, cb],
                parks: vec![park(b, "auth.corrupt.checked", Cond::AnyOf(vec![Cond::Entered(a), Cond::Done(a)]))],
                noise_us: 0,
                directed: true,
            }
        }
        // F20: A is a live but slow acquirer (stalls > 1 s between create and write)
        3 => {
            let mut ca = contender(a);
            ca.hold = Hold::Until(Cond::Done(b));
            let mut cb = contender(b);
            cb.start_after = Some(Cond::Passed(a, "auth.created", 1));
            cb.hold = Hold::Until(Cond::AnyOf(vec![Cond::Entered(a), Cond::Done(a)]));
            Case {
                mode: "park(A@auth.created)for>1s_until(B_returned)".into(),
                left: Left::Nothing,
                contenders: vec![ca, cb],
                parks: vec![park(a, "auth.created", Cond::AnyOf(vec![Cond::Entered(b), Cond::Done(b)]))],
                noise_us: 0,
                directed: true,
            }
        }
        // Drop removes whatever lock.json is there: the victim of a theft drops while the thief holds
        4 => {
            let mut ca = contender(a);
            ca.start_after = Some(Cond::Passed(b, "auth.stale.reread", 1));
            ca.hold = Hold::Until(Cond::AnyOf(vec![Cond::Entered(b), Cond::Done(b)]));
            let mut cb = contender(b);
            cb.hold = Hold::Until(Cond::Done(c3));
            let mut cc = contender(c3);
            cc.start_after = Some(Cond::Dropped(a));
            cc.hold = Hold::Ms(5);
            Case {
                mode: "park(B@auth.stale.reread)until(A_acquired);A_drops_while_B_holds;C_acquires".into(),
                left: Left::DeadLock,
                contenders: vec![ca, cb, cc],
                parks: vec![park(b, "auth.stale.reread", Cond::AnyOf(vec![Cond::Entered(a), Cond::Done(a)]))],
                noise_us: 0,
                directed: true,
            }
        }
        // a dropping guard parked between removing meta and removing the lock while others try
        5 => {
            let mut ca = contender(a);
            ca.write_meta = true;
            ca.hold = Hold::Ms(10);
            let mut cb = contender(b);
            cb.start_after = Some(Cond::Passed(a, "auth.drop.meta", 1));
            let mut cc = contender(c3);
            cc.start_after = Some(Cond::Dropped(a));
            Case {
                mode: "park(A@auth.drop.meta)until(B_returned)".into(),
                left: Left::Nothing,
                contenders: vec![ca, cb, cc],
                parks: vec![park(a, "auth.drop.meta", Cond::Done(b))],
                noise_us: 0,
                directed: true,
            }
        }
        // a holder re-writing meta (remove + rename) while others run the loop
        6 => {
            let mut ca = contender(a);
            ca.write_meta = true;
            ca.hold = Hold::Until(Cond::Done(b));
            let mut cb = contender(b);
            cb.start_after = Some(Cond::Passed(a, "auth.meta.removed", 1));
            Case {
                mode: "park(A@auth.meta.removed)until(B_returned)".into(),
                left: Left::DeadLockMeta,
                contenders: vec![ca, cb],
                parks: vec![park(a, "auth.meta.removed", Cond::Done(b))],
                noise_us: 0,
                directed: true,
            }
        }
        // live leftovers under contention: nobody may acquire, files must stay byte-identical
        7..=9 | 14 => {
            let left = [Left::LivePidLockMeta, Left::LiveEndpoint, Left::LivePidLock, Left::LiveEndpointForeignPid][if k == 14 { 3 } else { (k - 7) as usize }];
            Case {
                mode: "six_contenders_on_live_leftover".into(),
                left,
                contenders: (1..=6).map(contender).collect(),
                parks: vec![],
                noise_us: 1500,
                directed: true,
            }
        }
        // mixed-owner leftovers (lock and meta of different parties) under contention
        15..=18 => {
            let left = [Left::LiveLockDeadMeta, Left::LiveLockOtherLiveMeta, Left::LiveLockCorruptMeta, Left::DeadLockLiveMetaEndpoint][(k - 15) as usize];
            let mut contenders: Vec<CSpec> = (1..=6).map(contender).collect();
            contenders[1].attempts = 2;
            contenders[1].gap_ms = 15;
            contenders[4].start_ms = 20;
            Case { mode: "six_contenders_on_mixed_owner_leftover".into(), left, contenders, parks: vec![], noise_us: 1500, directed: true }
        }
        // the grace period must protect an acquirer that is slow, but faster than 1 s
        10 => {
            let mut ca = contender(a);
            ca.hold = Hold::Until(Cond::Done(b));
            let mut cb = contender(b);
            cb.start_after = Some(Cond::Passed(a, "auth.created", 1));
            Case {
                mode: "park(A@auth.created)for0.4s".into(),
                left: Left::Nothing,
                contenders: vec![ca, cb],
                parks: vec![park_for(a, "auth.created", 400)],
                noise_us: 0,
                directed: true,
            }
        }
        // a single contender on each dead leftover: plain bounded progress
        11 => Case {
            mode: "one_contender_progress".into(),
            left: Left::DeadLockMetaDrift,
            contenders: vec![contender(1)],
            parks: vec![],
            noise_us: 0,
            directed: true,
        },
        // progress from the awkward corrupt leftovers
        12 => Case {
            mode: "two_contenders_progress".into(),
            left: Left::HalfLockSplitUtf8,
            contenders: vec![contender(1), contender(2)],
            parks: vec![],
            noise_us: 0,
            directed: true,
        },
        _ => Case {
            mode: "two_contenders_progress".into(),
            left: Left::EmptyLockDeadMeta,
            contenders: vec![contender(1), contender(2)],
            parks: vec![],
            noise_us: 0,
            directed: true,
        },
    }
}

fn noise_case(rng: &mut Rng, cfg: &Cfg) -> Case {
    // corrupt leftovers cost ≥ 1 s each (grace period): keep them to a fraction of the cases
    let left = if rng.chance(1, cfg.tier.pick(8, 6)) {
        *rng.pick(&[Left::EmptyLock, Left::HalfLock, Left::ShapelessLock])
    } else {
        *rng.pick(&[
            Left::Nothing,
            Left::DeadLock,
            Left::DeadLock,
            Left::DeadLockMeta,
            Left::DeadLockMeta,
            Left::DeadLockMetaDrift,
            Left::DeadMetaOnly,
            Left::LivePidLock,
            Left::LivePidLockMeta,
            Left::LiveEndpoint,
            Left::LiveEndpointForeignPid,
            Left::LiveLockDeadMeta,
            Left::LiveLockDeadMeta,
            Left::LiveLockOtherLiveMeta,
            Left::LiveLockCorruptMeta,
            Left::DeadLockLiveMetaEndpoint,
        ])
    };
    let n = match rng.below(4) {
        0 => 2,
        1 => 3,
        2 => 4 + rng.usize(2),
        _ => 6,
    };
    let noise_us = [0u64, 200, 2000, 8000][rng.usize(4)];
    let mut contenders = Vec::new();
    for id in 1..=n {
        let mut c = contender(id);
        c.start_ms = if rng.bool() { 0 } else { rng.below(25) };
        c.write_meta = rng.chance(1, 3);
        c.hold = Hold::Ms(rng.below(25));
        c.attempts = if rng.chance(1, 4) { 2 } else { 1 };
        c.gap_ms = rng.below(30);
        c.foreign_ws = rng.chance(1, 16);
        contenders.push(c);
    }
    Case { mode: "noise".into(), left, contenders, parks: vec![], noise_us, directed: false }
}

// ---------------------------------------------------------------------------------------------
// (B) multi-process rounds on the real binary

#[derive(Clone, Copy, Debug, PartialEq, Eq)]
enum MpLeft {
    Nothing,
    DeadLock,
    DeadLockMeta,
    EmptyLock,
    HalfLock,
    LiveIncumbent,
    AfterKill9,
    /// leftover produced by real `rip serve` processes aborted (RIP_VERIF_ABORT) at hook points
    Crash(usize),
}

/// (name, [(what to plant first, abort point)]) — each step is one real process that aborts at the point
const CRASH_RECIPES: &[(&str, &[(&str, &str)])] = &[
    ("crash@auth.created", &[("", "auth.created")]),
    ("crash@auth.written", &[("", "auth.written")]),
    ("crash@auth.meta.removed", &[("", "auth.meta.removed")]),
    ("crash@auth.meta.renamed", &[("", "auth.meta.renamed")]),
    ("dead_lock_and_meta,crash@auth.stale.renamed", &[("dead_lock_meta", "auth.stale.renamed")]),
    ("dead_lock_and_meta,crash@auth.stale.meta", &[("dead_lock_meta", "auth.stale.meta")]),
    ("empty_lock,crash@auth.corrupt.renamed", &[("empty_lock", "auth.corrupt.renamed")]),
    ("dead_lock_and_meta,crash@auth.stale.renamed,crash@auth.created", &[("dead_lock_meta", "auth.stale.renamed"), ("", "auth.created")]),
];

impl MpLeft {
    fn name(&self) -> &'static str {
        match self {
            MpLeft::Nothing => "nothing",
            MpLeft::DeadLock => "dead_lock_only",
            MpLeft::DeadLockMeta => "dead_lock_and_meta",
            MpLeft::EmptyLock => "empty_lock",
            MpLeft::HalfLock => "half_written_lock",
            MpLeft::LiveIncumbent => "live_incumbent_rip_serve",
            MpLeft::AfterKill9 => "files_of_the_sigkilled_winner",
            MpLeft::Crash(i) => CRASH_RECIPES[*i % CRASH_RECIPES.len()].0,
        }
    }
}

/// Which cleanup path do contenders have to take from the files present at the start of a round?
fn mp_cause(data: &Path, incumbent: bool, slow: bool) -> &'static str {
    if incumbent {
        return "incumbent_displaced";
    }
    if slow {
        return "corrupt_grace_elapsed_on_live_slow_acquirer";
    }
    match std::fs::read(ripd::authority_lock_path(data)) {
        Err(_) => "unattributed_from_nothing",
        Ok(bytes) => match serde_json::from_slice::<Value>(&bytes) {
            Ok(v) if v.get("pid").and_then(|x| x.as_u64()).is_some() => "stale_cleanup_renames_fresh_lock",
            _ => "corrupt_cleanup_renames_fresh_lock",
        },
    }
}

/// hook-hit trace written by the real processes of a store (RIP_VERIF_TRACE): "<pid> <unix micros> <point>" lines
fn mp_trace_path(data: &Path) -> PathBuf {
    data.parent().unwrap_or(data).join("auth-trace.log")
}

/// Evidence-based attribution of "two authorities" in a multi-process round whose leftover files name no cause:
/// which cleanup step did some process really take, and was another process between creating and writing its lock?
fn mp_cause_from_trace(data: &Path, fallback: &'static str) -> &'static str {
    let text = std::fs::read_to_string(mp_trace_path(data)).unwrap_or_default();
    let mut ev: Vec<(u32, u128, String)> = Vec::new();
    for l in text.lines() {
        let mut it = l.split(' ');
        if let (Some(p), Some(t), Some(n)) = (it.next(), it.next(), it.next()) {
            if let (Ok(p), Ok(t)) = (p.parse::<u32>(), t.parse::<u128>()) {
                ev.push((p, t, n.to_string()));
            }
        }
    }
    let corrupt: Vec<(u32, u128)> = ev.iter().filter(|e| e.2 == "auth.corrupt.renamed").map(|e| (e.0, e.1)).collect();
    let stale: Vec<(u32, u128)> = ev.iter().filter(|e| e.2 == "auth.stale.renamed").map(|e| (e.0, e.1)).collect();
    for (p, t) in &corrupt {
        // another process had created its lock before t and had not written the record by then?
        let pids: std::collections::BTreeSet<u32> = ev.iter().map(|e| e.0).filter(|q| q != p).collect();
        for q in pids {
            let created = ev.iter().filter(|e| e.0 == q && e.2 == "auth.created" && e.1 < *t).map(|e| e.1).max();
            if let Some(c) = created {
                let written = ev.iter().filter(|e| e.0 == q && e.2 == "auth.written" && e.1 >= c).map(|e| e.1).min();
                if written.map(|w| w > *t).unwrap_or(true) {
                    return "corrupt_grace_elapsed_on_live_slow_acquirer";
                }
            }
        }
    }
    if !corrupt.is_empty() {
        return "corrupt_cleanup_renames_fresh_lock";
    }
    if !stale.is_empty() {
        return "stale_cleanup_renames_fresh_lock";
    }
    fallback
}

fn serve_cmd(bin: &Path, data: &Path, ws: &Path, delay: &str) -> Command {
    let mut c = Command::new(bin);
    c.arg("serve")
        .env("RIP_SERVER_ADDR", "127.0.0.1:0")
        .env("RIP_DATA_DIR", data)
        .env("RIP_WORKSPACE_ROOT", ws)
        .env("RIP_VERIF_TRACE", mp_trace_path(data))
        .env_remove("RIP_VERIF_ABORT")
        .current_dir(ws);
    if delay.is_empty() {
        c.env_remove("RIP_VERIF_DELAY");
    } else {
        c.env("RIP_VERIF_DELAY", delay);
    }
    c
}

fn client_cmd(bin: &Path, data: &Path, ws: &Path, delay: &str) -> Command {
    client_cmd_args(bin, data, ws, delay, &["tasks", "list"])
}

/// every `rip` command without `--server` runs the client-side recovery loop (`ensure_local_authority`) first
const CLIENT_CMDS: &[&[&str]] = &[&["tasks", "list"], &["threads", "list"], &["config", "doctor"], &["threads", "ensure"]];

fn client_cmd_args(bin: &Path, data: &Path, ws: &Path, delay: &str, args: &[&str]) -> Command {
    let mut c = Command::new(bin);
    c.args(args)
        .env("RIP_DATA_DIR", data)
        .env("RIP_WORKSPACE_ROOT", ws)
        .env("RIP_VERIF_TRACE", mp_trace_path(data))
        .env_remove("RIP_VERIF_ABORT")
        .current_dir(ws)
        .process_group(0);
    if delay.is_empty() {
        c.env_remove("RIP_VERIF_DELAY");
    } else {
        c.env("RIP_VERIF_DELAY", delay);
    }
    c
}

fn random_delay_spec(rng: &mut Rng) -> String {
    match rng.below(5) {
        0 => String::new(),
        1 => format!("auth.*={}", [300u64, 3000, 15000][rng.usize(3)]),
        2 => format!(
            "auth.stale.reread={},auth.corrupt.checked={}",
            [5000u64, 30000, 80000][rng.usize(3)],
            [5000u64, 30000, 80000][rng.usize(3)]
        ),
        3 => format!("auth.created={},auth.written={}", rng.below(4000), rng.below(4000)),
        _ => format!(
            "auth.stale.reread={},auth.stale.renamed={},auth.corrupt.checked={},auth.drop.*={}",
            rng.below(40000),
            rng.below(10000),
            rng.below(40000),
            rng.below(5000)
        ),
    }
}

/// endpoints announced by authorities that `rip` clients spawned (they log to authority.log)
fn logged_endpoints(data: &Path) -> Vec<String> {
    let p = ripd::authority_dir(data).join("authority.log");
    let t = std::fs::read_to_string(p).unwrap_or_default();
    t.lines()
        .filter_map(|l| l.strip_prefix("ripd listening on ").map(|r| r.trim().to_string()))
        .collect()
}

struct RoundResult {
    serving: Vec<String>,
    serving_pids: Vec<Option<u32>>,
    max_listening_alive: usize,
    n_serve: usize,
    n_cli: usize,
    cli_ok: usize,
    cli_failed: Vec<String>,
    timed_out: bool,
    lock_now: Option<Value>,
    meta_now: Option<Value>,
    stderr_tail: Vec<String>,
}

/// One contention round. `procs` accumulates every direct child (they are finished by the caller).
#[allow(clippy::too_many_arguments)]
fn mp_round(
    bin: &Path,
    data: &Path,
    ws: &Path,
    n_serve: usize,
    n_cli: usize,
    slow_first: bool,
    rng: &mut Rng,
    procs: &mut Vec<Proc>,
    groups: &mut Vec<u32>,
    known_endpoints: &mut Vec<(String, Option<u32>)>,
) -> RoundResult {
    let first = procs.len();
    let mut kinds: Vec<bool> = Vec::new(); // true = serve
    let mut order: Vec<bool> = std::iter::repeat(true).take(n_serve).chain(std::iter::repeat(false).take(n_cli)).collect();
    rng.shuffle(&mut order);
    let stagger = rng.chance(1, 3);
    for (i, is_serve) in order.iter().enumerate() {
        let delay = if slow_first && i == 0 { "auth.created=3000000".to_string() } else { random_delay_spec(rng) };
        let cmd = if *is_serve || (slow_first && i == 0) { serve_cmd(bin, data, ws, &delay) } else { client_cmd(bin, data, ws, &delay) };
        let is_serve = *is_serve || (slow_first && i == 0);
        match Proc::spawn(cmd) {
            Ok(p) => {
                if !is_serve {
                    groups.push(p.pid);
                }
                procs.push(p);
                kinds.push(is_serve);
            }
            Err(_) => {}
        }
        if stagger {
            std::thread::sleep(Duration::from_millis(rng.below(12)));
        }
    }
    // wait until every server has either exited or announced itself, and every client has exited
    let deadline = Instant::now() + Duration::from_secs(if n_cli > 0 { 14 } else { 9 });
    let mut max_listening_alive = 0usize;
    let mut timed_out = false;
    loop {
        let mut pending = 0;
        let mut listening_alive = 0;
        for (k, p) in procs[first..].iter_mut().enumerate() {
            let alive = p.alive();
            if kinds[k] {
                let l = p.listening().is_some();
                if alive && l {
                    listening_alive += 1;
                } else if alive {
                    pending += 1;
                }
            } else if alive {
                pending += 1;
            }
        }
        max_listening_alive = max_listening_alive.max(listening_alive);
        if pending == 0 {
            break;
        }
        if Instant::now() >= deadline {
            timed_out = true;
            break;
        }
        std::thread::sleep(Duration::from_millis(5));
    }
    std::thread::sleep(Duration::from_millis(120)); // meta.json of the last starter
    // candidates: announced endpoints of live direct children, and of authorities spawned by clients
    for (k, p) in procs[first..].iter_mut().enumerate() {
        if kinds[k] && p.alive() {
            if let Some(ep) = p.listening() {
                if !known_endpoints.iter().any(|(e, _)| *e == ep) {
                    known_endpoints.push((ep, Some(p.pid)));
                }
            }
        }
    }
    for ep in logged_endpoints(data) {
        if !known_endpoints.iter().any(|(e, _)| *e == ep) {
            known_endpoints.push((ep, None));
        }
    }
    // two sweeps: an endpoint that answers in both was serving during the whole first sweep
    let sweep1: Vec<bool> = known_endpoints.iter().map(|(e, _)| openapi_reachable(e)).collect();
    let sweep2: Vec<bool> = known_endpoints.iter().map(|(e, _)| openapi_reachable(e)).collect();
    let mut serving = Vec::new();
    let mut serving_pids = Vec::new();
    for (i, (e, pid)) in known_endpoints.iter().enumerate() {
        if sweep1[i] && sweep2[i] {
            serving.push(e.clone());
            serving_pids.push(*pid);
        }
    }
    let mut cli_ok = 0;
    let mut cli_failed = Vec::new();
    let mut stderr_tail = Vec::new();
    for (k, p) in procs[first..].iter_mut().enumerate() {
        if !kinds[k] {
            if p.exit == Some(0) {
                cli_ok += 1;
            } else {
                cli_failed.push(format!("exit={:?} {}", p.exit, p.stderr_text().chars().take(300).collect::<String>()));
            }
        } else if !p.alive() && stderr_tail.len() < 3 {
            let t = p.stderr_text();
            stderr_tail.push(t.lines().last().unwrap_or("").chars().take(200).collect());
        }
    }
    let lock_now = std::fs::read(ripd::authority_lock_path(data)).ok().and_then(|b| serde_json::from_slice(&b).ok());
    let meta_now = std::fs::read(ripd::authority_meta_path(data)).ok().and_then(|b| serde_json::from_slice(&b).ok());
    RoundResult {
        serving,
        serving_pids,
        max_listening_alive,
        n_serve: kinds.iter().filter(|k| **k).count(),
        n_cli: kinds.iter().filter(|k| !**k).count(),
        cli_ok,
        cli_failed,
        timed_out,
        lock_now,
        meta_now,
        stderr_tail,
    }
}

/// A live authority that is hung (SIGSTOP): pid alive, endpoint silent. Nobody may take its lock.
fn mp_stopped_incumbent_case(r: &mut Report, idx: u64, rng: &mut Rng, bin: &Path, with_client: bool) {
    let store = Store::new("c18mps");
    let mut inc = match Proc::spawn(serve_cmd(bin, &store.data, &store.ws, "")) {
        Ok(p) => p,
        Err(e) => {
            r.inconclusive(&format!("cannot spawn {}: {e}", bin.display()));
            return;
        }
    };
    let t0 = Instant::now();
    while (inc.listening().is_none() || !ripd::authority_meta_path(&store.data).exists()) && inc.alive() && t0.elapsed() < Duration::from_secs(6) {
        std::thread::sleep(Duration::from_millis(3));
    }
    let Some(ep) = inc.listening() else {
        r.inconclusive(&format!("case {idx}: incumbent rip serve did not start"));
        inc.finish();
        return;
    };
    std::thread::sleep(Duration::from_millis(30));
    let lock_before = std::fs::read(ripd::authority_lock_path(&store.data)).ok();
    let meta_before = std::fs::read(ripd::authority_meta_path(&store.data)).ok();
    kill_pid(inc.pid, libc::SIGSTOP);
    std::thread::sleep(Duration::from_millis(20));
    let n = 2 + rng.usize(5);
    let mut procs: Vec<Proc> = Vec::new();
    for _ in 0..n {
        if let Ok(p) = Proc::spawn(serve_cmd(bin, &store.data, &store.ws, &random_delay_spec(rng))) {
            procs.push(p);
        }
    }
    // a client runs the client-side recovery loop (8 s deadline) against the hung authority
    let mut client: Option<Proc> = None;
    if with_client {
        client = Proc::spawn(client_cmd(bin, &store.data, &store.ws, &random_delay_spec(rng))).ok();
    }
    let deadline = Instant::now() + Duration::from_secs(if with_client { 12 } else { 9 });
    let mut usurpers: Vec<(u32, String)> = Vec::new();
    loop {
        let mut pending = 0;
        if let Some(c) = client.as_mut() {
            if c.alive() {
                pending += 1;
            }
        }
        for p in procs.iter_mut() {
            if p.alive() {
                match p.listening() {
                    Some(e) => {
                        if !usurpers.iter().any(|(q, _)| *q == p.pid) {
                            usurpers.push((p.pid, e));
                        }
                    }
                    None => pending += 1,
                }
            }
        }
        if pending == 0 || Instant::now() >= deadline {
            break;
        }
        std::thread::sleep(Duration::from_millis(5));
    }
    let lock_after = std::fs::read(ripd::authority_lock_path(&store.data)).ok();
    let meta_after = std::fs::read(ripd::authority_meta_path(&store.data)).ok();
    for ep2 in logged_endpoints(&store.data) {
        // an authority spawned by the client
        usurpers.push((0, ep2));
    }
    if let Some(c) = client.as_mut() {
        kill_group(c.pid, libc::SIGKILL);
        c.finish();
        r.count("mp_cli_clients", 1);
    }
    kill_pid(inc.pid, libc::SIGCONT);
    let t1 = Instant::now();
    let mut back = false;
    while t1.elapsed() < Duration::from_secs(3) {
        if openapi_reachable(&ep) {
            back = true;
            break;
        }
        std::thread::sleep(Duration::from_millis(20));
    }
    r.eval();
    r.count("mp_rounds", 1);
    r.count("mp_rounds_from_live_incumbent_stopped", 1);
    r.count("mp_serve_processes", procs.len() as u64);
    r.distinct_str(&format!("mp|stopped_incumbent|serve{}|usurpers{}", procs.len(), usurpers.len()));
    let witness = json!({
        "case": idx, "part": "multi_process", "leftover": "live_incumbent_stopped_with_SIGSTOP", "incumbent": {"pid": inc.pid, "endpoint": ep},
        "contenders": procs.len(), "usurpers": usurpers,
        "lock_before": lock_before.as_ref().map(|b| String::from_utf8_lossy(b).to_string()),
        "lock_after": lock_after.as_ref().map(|b| String::from_utf8_lossy(b).to_string()),
        "meta_after": meta_after.as_ref().map(|b| String::from_utf8_lossy(b).to_string()),
    });
    if !usurpers.is_empty() {
        r.violation(
            "C18/hung_live_incumbent_displaced/multi_process",
            &format!("{} rip serve process(es) took over a store whose authority is alive but stopped (pid {})", usurpers.len(), inc.pid),
            witness,
        );
    } else if lock_after != lock_before || meta_after != meta_before {
        r.violation(
            "C18/hung_live_incumbent_files_changed/multi_process",
            "lock.json/meta.json of an authority that is alive but stopped were modified by contenders",
            witness,
        );
    } else if !back {
        r.inconclusive(&format!("case {idx}: incumbent did not answer again after SIGCONT"));
    } else {
        r.count("mp_rounds_hung_incumbent_kept_its_lock", 1);
    }
    for p in procs.iter_mut() {
        p.finish();
    }
    inc.finish();
}


/// (B1c) an authority that was asked to stop (SIGTERM / SIGINT) while requests are in flight keeps serving them for
/// a while (graceful shutdown). It is still the store's authority — its background task keeps appending frames —
/// so until it is gone nobody else may hold the lock. Observation is logical, not timed: a *foreign, live* pid in
/// lock.json is seen first, and afterwards at least three more frames of the incumbent's own task stream (one
/// every 100 ms, a stream only the incumbent can write) reach the log.
fn mp_draining_incumbent_case(r: &mut Report, idx: u64, rng: &mut Rng, bin: &Path) {
    use std::io::{Read as _, Write as _};
    let store = Store::new("c18mpd");
    let mut inc = match Proc::spawn(serve_cmd(bin, &store.data, &store.ws, "")) {
        Ok(p) => p,
        Err(e) => {
            r.inconclusive(&format!("cannot spawn {}: {e}", bin.display()));
            return;
        }
    };
    let t0 = Instant::now();
    while (inc.listening().is_none() || !ripd::authority_meta_path(&store.data).exists()) && inc.alive() && t0.elapsed() < Duration::from_secs(6) {
        std::thread::sleep(Duration::from_millis(3));
    }
    let Some(ep) = inc.listening() else {
        r.inconclusive(&format!("case {idx}: incumbent rip serve did not start"));
        inc.finish();
        return;
    };
    let addr = host_port(&ep);
    // a background task that writes one line every 100 ms for ~4 s, and a client following its event stream
    let task = http_json(
        &addr,
        "POST",
        "/tasks",
        Some(&json!({"tool":"bash","args":{"command":"i=0; while [ $i -lt 40 ]; do echo tick$i; i=$((i+1)); sleep 0.1; done"},"title":"c18-drain"})),
        Duration::from_secs(3),
    )
    .and_then(|(_, v, _)| v.get("task_id").and_then(|x| x.as_str()).map(|s| s.to_string()));
    let Some(task_id) = task else {
        r.inconclusive(&format!("case {idx}: could not start the incumbent's background task"));
        inc.finish();
        return;
    };
    let mut held: Vec<std::net::TcpStream> = Vec::new();
    for _ in 0..(1 + rng.usize(2)) {
        if let Ok(sock) = addr.parse::<std::net::SocketAddr>() {
            if let Ok(mut st) = std::net::TcpStream::connect_timeout(&sock, Duration::from_millis(500)) {
                let _ = st.write_all(format!("GET /tasks/{task_id}/events HTTP/1.1\r\nhost: {addr}\r\naccept: text/event-stream\r\n\r\n").as_bytes());
                let _ = st.set_read_timeout(Some(Duration::from_millis(400)));
                let mut b = [0u8; 256];
                let _ = st.read(&mut b);
                held.push(st);
            }
        }
    }
    let task_frames = |data: &Path| -> u64 {
        let b = std::fs::read(data.join("events.jsonl")).unwrap_or_default();
        let needle = format!("\"stream_id\":\"{task_id}\"");
        String::from_utf8_lossy(&b).lines().filter(|l| l.contains(&needle)).count() as u64
    };
    let sig = if rng.bool() { libc::SIGTERM } else { libc::SIGINT };
    kill_pid(inc.pid, sig);
    std::thread::sleep(Duration::from_millis(20 + rng.below(300)));
    let n = 1 + rng.usize(3);
    let mut procs: Vec<Proc> = Vec::new();
    for _ in 0..n {
        if let Ok(p) = Proc::spawn(serve_cmd(bin, &store.data, &store.ws, "")) {
            procs.push(p);
        }
    }
    let mut client = if rng.chance(1, 3) { Proc::spawn(client_cmd(bin, &store.data, &store.ws, "")).ok() } else { None };
    // observe until the incumbent is gone (its own drain limit is 2 s) or 5 s
    let mut foreign_seen: Option<(u32, u64)> = None; // (pid in lock.json, incumbent task frames at that instant)
    let mut frames_after_foreign = 0u64;
    let mut inc_frames_during_drain = 0u64;
    let frames_at_signal = task_frames(&store.data);
    let t1 = Instant::now();
    while t1.elapsed() < Duration::from_secs(5) {
        let alive = inc.alive();
        let now_frames = task_frames(&store.data);
        inc_frames_during_drain = now_frames.saturating_sub(frames_at_signal);
        if let Some((_, at)) = foreign_seen {
            frames_after_foreign = now_frames.saturating_sub(at);
        } else if alive {
            let lock = std::fs::read(ripd::authority_lock_path(&store.data)).ok();
            if let Some(pid) = json_pid(&lock) {
                let is_other = pid != inc.pid && (procs.iter().any(|p| p.pid == pid) || pid_alive(pid));
                if is_other {
                    foreign_seen = Some((pid, now_frames));
                }
            }
        }
        if !alive {
            break;
        }
        std::thread::sleep(Duration::from_millis(10));
    }
    let inc_exited = !inc.alive();
    drop(held);
    r.eval();
    r.count("mp_rounds", 1);
    r.count("mp_rounds_incumbent_asked_to_stop_with_requests_in_flight", 1);
    r.count("mp_draining_incumbent_task_frames_appended_after_the_signal", inc_frames_during_drain);
    r.count("mp_serve_processes", procs.len() as u64 + 1);
    if inc_frames_during_drain > 0 {
        r.distinct_str(&format!("mp|draining_incumbent|sig{sig}|serve{}|client{}|foreign{}", procs.len(), client.is_some(), foreign_seen.is_some()));
    }
    let witness = json!({
        "case": idx, "part": "multi_process", "leftover": "live_incumbent_draining_after_signal", "signal": sig,
        "incumbent": {"pid": inc.pid, "endpoint": ep, "exited_within_5s": inc_exited},
        "contenders": procs.iter().map(|p| p.pid).collect::<Vec<_>>(),
        "foreign_pid_seen_in_lock_while_incumbent_alive": foreign_seen.map(|x| x.0),
        "incumbent_task_frames_after_that": frames_after_foreign,
        "incumbent_task_frames_after_signal": inc_frames_during_drain,
    });
    if foreign_seen.is_some() && frames_after_foreign >= 3 {
        r.violation(
            "C18/draining_incumbent_lost_its_lock/multi_process",
            &format!(
                "lock.json named another live process while the authority that had been asked to stop (pid {}) was still running and appended {} more frames of its own task stream afterwards",
                inc.pid, frames_after_foreign
            ),
            witness.clone(),
        );
    } else if inc_frames_during_drain == 0 {
        r.count("mp_draining_rounds_without_work_during_the_drain", 1);
    } else {
        r.count("mp_draining_rounds_lock_kept_until_exit", 1);
    }
    if idx % 4 == 0 {
        r.sample(witness);
    }
    if let Some(c) = client.as_mut() {
        kill_group(c.pid, libc::SIGKILL);
        c.finish();
        r.count("mp_cli_clients", 1);
    }
    for p in procs.iter_mut() {
        p.finish();
    }
    inc.finish();
    kill_stray_authority(&store.data, &store.ws, &[]);
}

fn pid_alive(pid: u32) -> bool {
    pid > 1 && unsafe { libc::kill(pid as i32, 0) == 0 }
}

// ---------------------------------------------------------------------------------------------
// (B2) multi-process: clients and servers against a store whose lock belongs to a LIVE party, including the
// mixed-owner leftovers (lock.json and meta.json of different parties). Both recovery paths run on the real binary:
// the server loop (`rip serve`) and the client loop (`rip tasks list` / `threads list` / `config doctor` / …).
// Oracle: while the lock's owner lives, lock.json stays byte-identical (polled every few ms, plus the directory is
// watched for renamed copies), nobody else announces an endpoint, a meta that is the owner's stays, a foreign meta
// may only disappear; once the live parties are killed a plain `rip serve` must come up again.

#[derive(Clone, Copy, Debug, PartialEq, Eq)]
enum Holder {
    /// planted files; the live pids are sleeper processes, an answering endpoint is a responder thread
    Planted(Left),
    /// a real `rip serve` stopped (SIGSTOP) after it acquired lock.json and before it published meta.json;
    /// `dead_meta`: the endpoint file of a crashed predecessor is still lying around
    StartingServe { dead_meta: bool },
}

impl Holder {
    fn name(&self) -> &'static str {
        match self {
            Holder::Planted(l) => l.name(),
            Holder::StartingServe { dead_meta: true } => "starting_rip_serve_lock_beside_dead_meta",
            Holder::StartingServe { dead_meta: false } => "starting_rip_serve_lock_no_meta_yet",
        }
    }
    fn lock_owner_live(&self) -> bool {
        match self {
            Holder::Planted(l) => l.lock_owner_live(),
            Holder::StartingServe { .. } => true,
        }
    }
    fn meta_may_go(&self) -> bool {
        match self {
            Holder::Planted(l) => l.meta_may_go(),
            Holder::StartingServe { dead_meta } => *dead_meta,
        }
    }
    fn answering(&self) -> bool {
        match self {
            Holder::Planted(l) => l.answering(),
            Holder::StartingServe { .. } => false,
        }
    }
}

/// mixed-owner holders first (each is run with clients alone and with clients + servers in the directed batch)
const MIXED_HOLDERS: &[Holder] = &[
    Holder::Planted(Left::LiveLockDeadMeta),
    Holder::Planted(Left::LiveLockOtherLiveMeta),
    Holder::Planted(Left::LiveLockCorruptMeta),
    Holder::Planted(Left::DeadLockLiveMetaEndpoint),
    Holder::StartingServe { dead_meta: true },
    Holder::StartingServe { dead_meta: false },
];
const SAME_OWNER_LIVE_HOLDERS: &[Holder] = &[
    Holder::Planted(Left::LivePidLock),
    Holder::Planted(Left::LivePidLockMeta),
    Holder::Planted(Left::LiveEndpoint),
    Holder::Planted(Left::LiveEndpointForeignPid),
];

#[derive(Clone, Debug)]
struct MixedProc {
    serve: bool,
    start_ms: u64,
    delay: String,
    cmd: usize,
}

#[derive(Clone, Debug)]
struct MixedSpec {
    holder: Holder,
    procs: Vec<MixedProc>,
    window_ms: u64,
    plant_seed: u64,
}

fn mixed_spec(holder: Holder, n_cli: usize, with_serve: bool, window_ms: u64, rng: &mut Rng) -> MixedSpec {
    let mut procs = Vec::new();
    for k in 0..n_cli {
        procs.push(MixedProc {
            serve: false,
            start_ms: if k == 0 { 0 } else { rng.below(window_ms / 3 + 1) },
            delay: random_delay_spec(rng),
            cmd: rng.usize(CLIENT_CMDS.len()),
        });
    }
    if with_serve {
        let n_serve = 2 + rng.usize(3);
        for k in 0..n_serve {
            // one contender right away, one well after the first recovery steps of the others, the rest anywhere
            let start_ms = match k {
                0 => rng.below(10),
                1 => 600 + rng.below(window_ms / 3 + 1),
                _ => rng.below(window_ms * 2 / 3 + 1),
            };
            procs.push(MixedProc { serve: true, start_ms, delay: random_delay_spec(rng), cmd: 0 });
        }
    }
    procs.sort_by_key(|p| p.start_ms);
    MixedSpec { holder, procs, window_ms, plant_seed: rng.next_u64() }
}

#[derive(Debug)]
enum Usable {
    Yes,
    /// the uncontended `rip serve` exited without serving
    GaveUp(String),
    /// still starting when the watchdog fired (slow host): no verdict
    Slow,
}

#[derive(Default)]
struct MixedOutcome {
    state: String,
    setup_error: Option<String>,
    lock_pid: Option<u32>,
    live_pids: Vec<u32>,
    /// the stopped `rip serve` had already written its meta.json when the SIGSTOP arrived
    holder_published_before_stop: bool,
    lock_before: Option<Vec<u8>>,
    meta_before: Option<Vec<u8>>,
    lock_after: Option<Vec<u8>>,
    meta_after: Option<Vec<u8>>,
    lock_polls: u64,
    /// (ms since the first contender started, what lock.json was then)
    lock_change: Option<(u64, String)>,
    tombstones: Vec<String>,
    /// (who, announced endpoint)
    usurpers: Vec<(String, String)>,
    n_cli: usize,
    n_serve: usize,
    cli_ok: usize,
    cli_err: usize,
    cli_retrying_at_end: usize,
    serve_refused: usize,
    serve_pending: usize,
    cli_stderr: Vec<String>,
    probes: u64,
    probes_failed: u64,
    probe_max_ms: u64,
    responder_lag_ms: u64,
    live_parties_alive_at_end: bool,
    /// (who, hook point) of the first lock-removing step recorded by the processes themselves
    taker: Option<(&'static str, String)>,
    // after SIGCONT (StartingServe only)
    resumed: bool,
    resume_problem: Option<String>,
    resume_lock_same: bool,
    resume_meta_names_holder: bool,
    resume_client_exit: Option<i32>,
    resume_late_contenders: usize,
    // after the live parties were killed
    pid_reused: bool,
    usable: Option<Usable>,
    trace_tail: Vec<String>,
    wall_ms: u64,
}

fn show_bytes(b: &Option<Vec<u8>>) -> String {
    match b {
        None => "<absent>".to_string(),
        Some(b) => String::from_utf8_lossy(b).chars().take(300).collect(),
    }
}

fn same_json(a: &Option<Vec<u8>>, b: &Option<Vec<u8>>) -> bool {
    let parse = |x: &Option<Vec<u8>>| x.as_ref().and_then(|b| serde_json::from_slice::<Value>(b).ok());
    match (parse(a), parse(b)) {
        (Some(x), Some(y)) => x == y,
        _ => false,
    }
}

fn json_pid(b: &Option<Vec<u8>>) -> Option<u32> {
    b.as_ref()
        .and_then(|b| serde_json::from_slice::<Value>(b).ok())
        .and_then(|v| v.get("pid").and_then(|x| x.as_u64()))
        .map(|p| p as u32)
}

fn read_trace(data: &Path) -> Vec<(u32, u128, String)> {
    let text = std::fs::read_to_string(mp_trace_path(data)).unwrap_or_default();
    let mut ev = Vec::new();
    for l in text.lines() {
        let mut it = l.split(' ');
        if let (Some(p), Some(t), Some(n)) = (it.next(), it.next(), it.next()) {
            if let (Ok(p), Ok(t)) = (p.parse::<u32>(), t.parse::<u128>()) {
                ev.push((p, t, n.to_string()));
            }
        }
    }
    ev
}

/// Who took a lock away, according to the hook trace the processes wrote themselves?
fn mixed_taker(data: &Path, clients: &[u32], serves: &[u32]) -> Option<(&'static str, String)> {
    read_trace(data).into_iter().find(|e| TAKE_POINTS.iter().any(|(p, _)| *p == e.2)).map(|(pid, _, point)| {
        let who = if clients.contains(&pid) {
            "client"
        } else if serves.contains(&pid) {
            "rip_serve"
        } else {
            "client_spawned_authority"
        };
        (who, point)
    })
}

/// an authority spawned by a client that outlived its process group kill (belt and braces)
fn kill_stray_authority(data: &Path, ws: &Path, ours: &[u32]) {
    if let Some(p) = json_pid(&std::fs::read(ripd::authority_meta_path(data)).ok()) {
        let lock_ws = std::fs::read(ripd::authority_lock_path(data))
            .ok()
            .and_then(|b| serde_json::from_slice::<Value>(&b).ok())
            .and_then(|v| v.get("workspace_root").and_then(|x| x.as_str()).map(|s| s.to_string()));
        if lock_ws.as_deref() == Some(ws.to_string_lossy().as_ref()) && !ours.contains(&p) {
            if let Ok(cmdline) = std::fs::read(format!("/proc/{p}/cmdline")) {
                let c = String::from_utf8_lossy(&cmdline).to_string();
                if c.contains("serve") && c.contains("rip") {
                    kill_pid(p, libc::SIGKILL);
                }
            }
        }
    }
}

fn run_mixed_store(bin: &Path, spec: &MixedSpec) -> MixedOutcome {
    let t_all = Instant::now();
    let mut rng = Rng::new(spec.plant_seed);
    let store = Store::new("c18mx");
    let lock_path = ripd::authority_lock_path(&store.data);
    let meta_path = ripd::authority_meta_path(&store.data);
    let mut o = MixedOutcome { state: spec.holder.name().to_string(), ..Default::default() };
    let mut planted: Option<Planted> = None;
    let mut holder_proc: Option<Proc> = None;
    let mut responder_addr: Option<String> = None;
    let mut dead_pids: Vec<u32> = Vec::new();
    match spec.holder {
        Holder::Planted(left) => match plant(left, &store.data, &store.ws, &mut rng) {
            Ok(p) => {
                o.live_pids = [p.sleeper.as_ref().map(|c| c.id()), p.sleeper2.as_ref().map(|c| c.id())].into_iter().flatten().collect();
                responder_addr = p.responder.as_ref().map(|r| r.addr.to_string());
                dead_pids.extend(p.dead_pid);
                planted = Some(p);
            }
            Err(e) => {
                o.setup_error = Some(format!("could not plant {}: {e}", left.name()));
                return o;
            }
        },
        Holder::StartingServe { dead_meta } => {
            let _ = std::fs::create_dir_all(ripd::authority_dir(&store.data));
            if dead_meta {
                let Some(pid) = dead_pid(&mut rng) else {
                    o.setup_error = Some("no dead pid available".into());
                    return o;
                };
                dead_pids.push(pid);
                let started = 1_700_000_000_000u64 + rng.below(1_000_000);
                let _ = std::fs::write(&meta_path, meta_json(REFUSED_ENDPOINT, pid, started, &store.ws));
            }
            // the hook delay right after the record was written widens the window in which the SIGSTOP must land
            let mut p = match Proc::spawn(serve_cmd(bin, &store.data, &store.ws, "auth.written=300000")) {
                Ok(p) => p,
                Err(e) => {
                    o.setup_error = Some(format!("cannot spawn {}: {e}", bin.display()));
                    return o;
                }
            };
            // stop it once its own hook trace says the record is complete (a record that merely parses may still be
            // missing its tail: the holder would finish it after SIGCONT and lock.json would differ for a good reason)
            let t0 = Instant::now();
            let mut got = false;
            while t0.elapsed() < Duration::from_secs(8) && p.alive() {
                if read_trace(&store.data).iter().any(|(pid, _, point)| *pid == p.pid && point == "auth.written")
                    && json_pid(&std::fs::read(&lock_path).ok()) == Some(p.pid)
                {
                    got = true;
                    break;
                }
                std::thread::sleep(Duration::from_micros(300));
            }
            if !got {
                o.setup_error = Some("the holder `rip serve` did not write its lock record within the watchdog".into());
                p.finish();
                return o;
            }
            kill_pid(p.pid, libc::SIGSTOP);
            std::thread::sleep(Duration::from_millis(25));
            if json_pid(&std::fs::read(&meta_path).ok()) == Some(p.pid) || p.listening().is_some() {
                o.holder_published_before_stop = true;
                o.state = "rip_serve_stopped_after_publishing".to_string();
            }
            o.live_pids = vec![p.pid];
            holder_proc = Some(p);
        }
    }
    o.lock_before = std::fs::read(&lock_path).ok();
    o.meta_before = std::fs::read(&meta_path).ok();
    o.lock_pid = json_pid(&o.lock_before);
    let lock_ino = lock_inode(&store.data);
    let answering = spec.holder.answering();

    // ---- phase 1: contenders run their recovery loops while the live parties live
    let mut procs: Vec<(Proc, bool)> = Vec::new();
    let mut groups: Vec<u32> = Vec::new();
    let mut next = 0usize;
    let t0 = Instant::now();
    let mut last_probe: Option<Instant> = None;
    let mut idle_since: Option<Instant> = None;
    loop {
        let el_ms = t0.elapsed().as_millis() as u64;
        while next < spec.procs.len() && el_ms >= spec.procs[next].start_ms {
            let sp = &spec.procs[next];
            next += 1;
            let cmd = if sp.serve {
                serve_cmd(bin, &store.data, &store.ws, &sp.delay)
            } else {
                client_cmd_args(bin, &store.data, &store.ws, &sp.delay, CLIENT_CMDS[sp.cmd % CLIENT_CMDS.len()])
            };
            if let Ok(p) = Proc::spawn(cmd) {
                if sp.serve {
                    o.n_serve += 1;
                } else {
                    o.n_cli += 1;
                    groups.push(p.pid);
                }
                procs.push((p, sp.serve));
            }
        }
        let now = std::fs::read(&lock_path).ok();
        o.lock_polls += 1;
        if now != o.lock_before && o.lock_change.is_none() {
            o.lock_change = Some((el_ms, show_bytes(&now)));
        }
        for n in lock_copies(&store.data, lock_ino) {
            if !o.tombstones.contains(&n) && o.tombstones.len() < 8 {
                o.tombstones.push(n);
            }
        }
        let mut pending = 0;
        for (p, serve) in procs.iter_mut() {
            let alive = p.alive();
            if *serve {
                if let Some(e) = p.listening() {
                    if !o.usurpers.iter().any(|(_, x)| *x == e) {
                        o.usurpers.push((format!("rip serve pid {}", p.pid), e));
                    }
                } else if alive {
                    pending += 1;
                }
            } else if alive {
                pending += 1;
            }
        }
        if let (true, Some(addr)) = (answering, responder_addr.as_ref()) {
            // is an unanswered ping of a contender explainable by the host? Measure what a ping costs right now.
            if last_probe.map(|t| t.elapsed() >= Duration::from_millis(100)).unwrap_or(true) {
                let t = Instant::now();
                let ok = http_exchange(addr, "GET", "/openapi.json", None, Duration::from_millis(250), None).map(|r| r.status == 200).unwrap_or(false);
                o.probes += 1;
                o.probes_failed += (!ok) as u64;
                o.probe_max_ms = o.probe_max_ms.max(t.elapsed().as_millis() as u64);
                last_probe = Some(Instant::now());
            }
        }
        if next == spec.procs.len() && pending == 0 {
            let since = *idle_since.get_or_insert_with(Instant::now);
            if since.elapsed() >= Duration::from_millis(150) {
                break;
            }
        } else {
            idle_since = None;
        }
        if el_ms >= spec.window_ms {
            break;
        }
        std::thread::sleep(Duration::from_millis(4));
    }
    o.lock_after = std::fs::read(&lock_path).ok();
    o.meta_after = std::fs::read(&meta_path).ok();
    if o.lock_after != o.lock_before && o.lock_change.is_none() {
        o.lock_change = Some((t0.elapsed().as_millis() as u64, show_bytes(&o.lock_after)));
    }
    for ep in logged_endpoints(&store.data) {
        o.usurpers.push(("authority spawned by a client".to_string(), ep));
    }
    o.live_parties_alive_at_end = match holder_proc.as_mut() {
        Some(h) => h.alive(),
        None => o.live_pids.iter().all(|p| ripd::pid_liveness(*p) == ripd::PidLiveness::Alive),
    };
    let mut client_pids = Vec::new();
    let mut serve_pids = Vec::new();
    for (p, serve) in procs.iter_mut() {
        let alive = p.alive();
        if *serve {
            serve_pids.push(p.pid);
            if p.listening().is_none() {
                if alive {
                    o.serve_pending += 1;
                } else {
                    o.serve_refused += 1;
                }
            }
        } else {
            client_pids.push(p.pid);
            if alive {
                o.cli_retrying_at_end += 1;
            } else if p.exit == Some(0) {
                o.cli_ok += 1;
            } else {
                o.cli_err += 1;
                if o.cli_stderr.len() < 2 {
                    o.cli_stderr.push(p.stderr_text().chars().take(240).collect());
                }
            }
        }
    }
    for g in &groups {
        kill_group(*g, libc::SIGKILL);
    }
    o.taker = mixed_taker(&store.data, &client_pids, &serve_pids);
    let clean = o.lock_change.is_none() && o.tombstones.is_empty() && o.usurpers.is_empty() && o.live_parties_alive_at_end;

    // ---- phase 2 (real holder only): it goes on, publishes its endpoint and must be the one authority
    let mut late: Vec<Proc> = Vec::new();
    if let (Some(h), true) = (holder_proc.as_mut(), clean) {
        kill_pid(h.pid, libc::SIGCONT);
        let t1 = Instant::now();
        while h.listening().is_none() && h.alive() && t1.elapsed() < Duration::from_secs(10) {
            std::thread::sleep(Duration::from_millis(4));
        }
        match h.listening() {
            None => {
                o.resume_problem = Some(format!(
                    "the holder did not come up after SIGCONT (alive={}): {}",
                    h.alive(),
                    h.stderr_text().lines().last().unwrap_or("").chars().take(200).collect::<String>()
                ))
            }
            Some(ep) => {
                o.resumed = true;
                let t2 = Instant::now();
                while json_pid(&std::fs::read(&meta_path).ok()) != Some(h.pid) && t2.elapsed() < Duration::from_secs(3) {
                    std::thread::sleep(Duration::from_millis(3));
                }
                for _ in 0..2 {
                    if let Ok(p) = Proc::spawn(serve_cmd(bin, &store.data, &store.ws, &random_delay_spec(&mut rng))) {
                        serve_pids.push(p.pid);
                        late.push(p);
                    }
                }
                o.resume_late_contenders = late.len();
                let mut cl = Proc::spawn(client_cmd(bin, &store.data, &store.ws, "")).ok();
                if let Some(c) = cl.as_ref() {
                    groups.push(c.pid);
                    client_pids.push(c.pid);
                }
                let t3 = Instant::now();
                loop {
                    let mut pending = 0;
                    for p in late.iter_mut() {
                        if p.alive() && p.listening().is_none() {
                            pending += 1;
                        }
                    }
                    if let Some(c) = cl.as_mut() {
                        if c.alive() {
                            pending += 1;
                        }
                    }
                    if pending == 0 || t3.elapsed() >= Duration::from_secs(12) {
                        break;
                    }
                    std::thread::sleep(Duration::from_millis(5));
                }
                for p in late.iter_mut() {
                    if let Some(e) = p.listening() {
                        o.usurpers.push((format!("rip serve pid {} (started after the holder resumed)", p.pid), e));
                    }
                }
                for e in logged_endpoints(&store.data) {
                    o.usurpers.push(("authority spawned by a client (after the holder resumed)".to_string(), e));
                }
                let lock_now = std::fs::read(&lock_path).ok();
                o.resume_lock_same = same_json(&lock_now, &o.lock_before);
                if !o.resume_lock_same {
                    o.lock_change = Some((t0.elapsed().as_millis() as u64, show_bytes(&lock_now)));
                }
                o.resume_meta_names_holder = json_pid(&std::fs::read(&meta_path).ok()) == Some(h.pid);
                if let Some(c) = cl.as_mut() {
                    if !c.alive() {
                        o.resume_client_exit = c.exit;
                    }
                    kill_group(c.pid, libc::SIGKILL);
                    c.finish();
                }
                if !h.alive() {
                    o.resume_problem = Some("the holder exited after it had resumed".into());
                } else if !openapi_reachable(&ep) && !openapi_reachable(&ep) {
                    o.resume_problem = Some("the resumed holder did not answer /openapi.json (overloaded host?)".into());
                }
                o.taker = mixed_taker(&store.data, &client_pids, &serve_pids);
            }
        }
    }
    let clean = clean && o.lock_change.is_none() && o.usurpers.is_empty();
    o.trace_tail = read_trace(&store.data).iter().rev().take(60).rev().map(|(p, t, n)| format!("{p} {t} {n}")).collect();

    // ---- phase 3: the live parties are killed and reaped; the store must become usable again
    o.responder_lag_ms = planted.as_ref().and_then(|p| p.responder.as_ref()).map(|r| r.lag_ms.load(Ordering::Relaxed)).unwrap_or(0);
    drop(planted);
    if let Some(h) = holder_proc.as_mut() {
        kill_pid(h.pid, libc::SIGCONT);
        h.finish();
    }
    for (p, _) in procs.iter_mut() {
        p.finish();
    }
    for p in late.iter_mut() {
        p.finish();
    }
    o.pid_reused = o.live_pids.iter().chain(dead_pids.iter()).any(|p| ripd::pid_liveness(*p) != ripd::PidLiveness::Dead);
    if clean && !o.pid_reused {
        match Proc::spawn(serve_cmd(bin, &store.data, &store.ws, "")) {
            Ok(mut p) => {
                let t4 = Instant::now();
                while p.listening().is_none() && p.alive() && t4.elapsed() < Duration::from_secs(10) {
                    std::thread::sleep(Duration::from_millis(5));
                }
                o.usable = Some(if p.listening().is_some() {
                    Usable::Yes
                } else if p.alive() {
                    Usable::Slow
                } else {
                    let t = p.stderr_text();
                    Usable::GaveUp(t.lines().find(|l| l.contains("authority")).or_else(|| t.lines().last()).unwrap_or("").chars().take(300).collect())
                });
                serve_pids.push(p.pid);
                p.finish();
            }
            Err(_) => o.usable = Some(Usable::Slow),
        }
    }
    for g in &groups {
        kill_group(*g, libc::SIGKILL);
    }
    let mut ours = client_pids.clone();
    ours.extend(serve_pids.iter().copied());
    kill_stray_authority(&store.data, &store.ws, &ours);
    o.wall_ms = t_all.elapsed().as_millis() as u64;
    o
}

fn judge_mixed(r: &mut Report, idx: u64, k: usize, spec: &MixedSpec, o: &MixedOutcome) {
    if let Some(e) = &o.setup_error {
        r.inconclusive(&format!("case {idx} store {k} ({}): {e}", o.state));
        return;
    }
    let state = o.state.as_str();
    r.eval();
    r.count("mp_mixed_stores", 1);
    r.count(&format!("mp_mixed_stores_from_{state}"), 1);
    r.count("mp_mixed_clients", o.n_cli as u64);
    r.count("mp_mixed_serve_contenders", o.n_serve as u64);
    r.count("mp_mixed_lock_byte_checks_while_holder_alive", o.lock_polls);
    r.count("mp_mixed_clients_still_retrying_at_window_end", o.cli_retrying_at_end as u64);
    r.count("mp_mixed_clients_exited_ok", o.cli_ok as u64);
    r.count("mp_mixed_clients_exited_with_error", o.cli_err as u64);
    r.count("mp_mixed_serve_contenders_refused", o.serve_refused as u64);
    r.count("mp_mixed_responder_probes", o.probes);
    let published = o.holder_published_before_stop;
    let meta_may_go = spec.holder.meta_may_go() && !published;
    let meta_shape = if o.meta_after == o.meta_before {
        "meta_same"
    } else if o.meta_after.is_none() {
        "meta_removed"
    } else {
        "meta_changed"
    };
    r.distinct_str(&format!(
        "mpmix|{state}|cli{}|serve{}|{meta_shape}|ok{}err{}wait{}|resumed{}|usable{}",
        o.n_cli,
        o.n_serve.min(4),
        o.cli_ok,
        o.cli_err,
        o.cli_retrying_at_end,
        o.resumed,
        matches!(o.usable, Some(Usable::Yes))
    ));
    let witness = json!({
        "case": idx, "part": "multi_process_mixed", "store": k, "leftover": state,
        "contenders": spec.procs.iter().map(|p| if p.serve {
            format!("rip serve @{}ms delay[{}]", p.start_ms, p.delay)
        } else {
            format!("rip {} @{}ms delay[{}]", CLIENT_CMDS[p.cmd % CLIENT_CMDS.len()].join(" "), p.start_ms, p.delay)
        }).collect::<Vec<_>>(),
        "window_ms": spec.window_ms,
        "lock_owner_pid": o.lock_pid, "live_pids": o.live_pids,
        "lock_before": show_bytes(&o.lock_before), "lock_after": show_bytes(&o.lock_after),
        "meta_before": show_bytes(&o.meta_before), "meta_after": show_bytes(&o.meta_after),
        "lock_first_seen_changed": o.lock_change.as_ref().map(|(ms, now)| json!({"after_ms": ms, "lock.json": now})),
        "lock_file_seen_moved_aside_as": o.tombstones,
        "second_authorities": o.usurpers,
        "lock_removing_step_in_hook_trace": o.taker.as_ref().map(|(w, p)| format!("{p} by {w}")),
        "clients": {"exited_ok": o.cli_ok, "exited_with_error": o.cli_err, "still_retrying": o.cli_retrying_at_end, "stderr": o.cli_stderr},
        "serve_contenders_refused": o.serve_refused,
        "resumed": o.resumed, "resume_problem": o.resume_problem,
        "responder_probes": {"n": o.probes, "failed": o.probes_failed, "max_ms": o.probe_max_ms, "answering_side_lag_ms": o.responder_lag_ms},
        "hook_trace_tail": o.trace_tail,
    });
    if !o.live_parties_alive_at_end {
        r.inconclusive(&format!("case {idx} store {k} ({state}): a live party of the planted state died during the window"));
        return;
    }
    // an authority known only by its answering endpoint (lock of a dead / foreign pid) may legitimately be displaced
    // when its endpoint does not answer a contender's ping in time: judge that only on a host that answered promptly
    let ping_dependent = spec.holder.answering() && !spec.holder.lock_owner_live();
    let host_slow = ping_dependent && (o.probes == 0 || o.probes_failed > 0 || o.probe_max_ms > 100 || o.responder_lag_ms > 100);
    let who = o.taker.as_ref().map(|(w, _)| *w).unwrap_or("unattributed");
    let mut bad = false;
    if o.lock_change.is_some() || !o.tombstones.is_empty() {
        bad = true;
        if host_slow {
            r.inconclusive(&format!("case {idx} store {k} ({state}): lock replaced, but the answering endpoint itself was slow (max {} ms, {} failed probes)", o.probe_max_ms, o.probes_failed));
        } else {
            let (ms, now) = o.lock_change.clone().unwrap_or((0, format!("moved aside as {:?}", o.tombstones)));
            r.violation(
                &format!("C18/live_lock_taken_by_{who}/{state}/multi_process"),
                &format!(
                    "lock.json of a store whose authority is alive ({state}; lock owner pid {:?}, live pids {:?}) was taken away {} ms after contenders started \
                     ({} clients, {} rip serve): it now is {}; lock-removing step in the processes' own hook trace: {}; second authorities: {:?}",
                    o.lock_pid,
                    o.live_pids,
                    ms,
                    o.n_cli,
                    o.n_serve,
                    now.trim(),
                    o.taker.as_ref().map(|(w, p)| format!("{p} by {w}")).unwrap_or_else(|| "none recorded".into()),
                    o.usurpers
                ),
                witness.clone(),
            );
            r.count("mp_mixed_live_lock_taken", 1);
        }
    } else if !o.usurpers.is_empty() {
        bad = true;
        if host_slow {
            r.inconclusive(&format!("case {idx} store {k} ({state}): second authority, but the answering endpoint itself was slow"));
        } else {
            r.violation(
                &format!("C18/second_authority_beside_live_holder/{state}/multi_process"),
                &format!("{:?} announced an endpoint on a store whose authority is alive ({state}; live pids {:?}) although lock.json was not seen changing", o.usurpers, o.live_pids),
                witness.clone(),
            );
        }
    }
    if !bad && o.meta_after != o.meta_before {
        if meta_may_go && o.meta_after.is_none() {
            r.count("mp_mixed_foreign_meta_removed", 1);
        } else if !host_slow {
            bad = true;
            r.violation(
                &format!("C18/live_leftover_files_changed/{state}/multi_process"),
                &format!("meta.json next to the lock of a live authority ({state}) was {}: before {:?}, after {:?}", if o.meta_after.is_none() { "removed" } else { "replaced" }, show_bytes(&o.meta_before), show_bytes(&o.meta_after)),
                witness.clone(),
            );
        }
    }
    if bad {
        return;
    }
    r.count("mp_mixed_stores_live_lock_kept", 1);
    if matches!(spec.holder, Holder::StartingServe { .. }) {
        match (&o.resume_problem, o.resumed) {
            (Some(p), _) => r.inconclusive(&format!("case {idx} store {k} ({state}): {p}")),
            (None, true) => {
                r.count("mp_mixed_holder_resumed_and_served_alone", 1);
                r.count("mp_mixed_late_contenders_after_resume", o.resume_late_contenders as u64);
                r.count("mp_mixed_client_attached_to_resumed_holder", (o.resume_client_exit == Some(0)) as u64);
                if !o.resume_meta_names_holder {
                    r.violation(
                        &format!("C18/live_leftover_files_changed/{state}/multi_process"),
                        "meta.json does not name the one live authority after it published its endpoint",
                        witness.clone(),
                    );
                    return;
                }
            }
            _ => {}
        }
    }
    match &o.usable {
        Some(Usable::Yes) => r.count("mp_mixed_usable_again_after_holder_killed", 1),
        Some(Usable::GaveUp(tail)) => r.violation(
            &format!("C18/not_usable_again/{state}/multi_process"),
            &format!("after the live parties of leftover {state} were killed an uncontended rip serve gave up: {tail}"),
            witness.clone(),
        ),
        Some(Usable::Slow) => r.inconclusive(&format!("case {idx} store {k} ({state}): uncontended rip serve still starting when the watchdog fired")),
        None if o.pid_reused => r.inconclusive(&format!("case {idx} store {k} ({state}): a killed pid was re-used before the usability check")),
        None => {}
    }
    if r.samples.len() < r.max_samples && k == 0 {
        r.sample(witness);
    }
}

/// Run several stores at once (a correct client facing a live lock it cannot reach retries until its own 8 s deadline).
fn mp_mixed_batch(r: &mut Report, idx: u64, bin: &Path, specs: Vec<MixedSpec>) {
    let outcomes: Vec<Option<MixedOutcome>> = std::thread::scope(|s| {
        let hs: Vec<_> = specs.iter().map(|sp| s.spawn(move || run_mixed_store(bin, sp))).collect();
        hs.into_iter().map(|h| h.join().ok()).collect()
    });
    for (k, (sp, o)) in specs.iter().zip(outcomes.iter()).enumerate() {
        match o {
            Some(o) => judge_mixed(r, idx, k, sp, o),
            None => r.inconclusive(&format!("case {idx} store {k}: monitor thread panicked")),
        }
    }
}

/// directed: every mixed-owner holder with clients alone and with clients + servers, every same-owner live holder once
fn mp_mixed_directed(r: &mut Report, cfg: &Cfg, idx: u64, rng: &mut Rng, bin: &Path) {
    let window_ms = 9_500;
    let mut specs = Vec::new();
    for h in MIXED_HOLDERS {
        for with_serve in [false, true] {
            let n_cli = 1 + rng.usize(3);
            specs.push(mixed_spec(*h, n_cli, with_serve, window_ms, rng));
        }
    }
    for h in SAME_OWNER_LIVE_HOLDERS {
        let n_cli = 1 + rng.usize(2);
        let with_serve = rng.bool();
        specs.push(mixed_spec(*h, n_cli, with_serve, window_ms, rng));
    }
    let _ = cfg;
    r.count("mp_mixed_directed_batches", 1);
    mp_mixed_batch(r, idx, bin, specs);
}

/// random: one or two stores, any live holder, 0–3 clients; the quick tier cuts the observation window short
fn mp_mixed_random(r: &mut Report, cfg: &Cfg, idx: u64, rng: &mut Rng, bin: &Path) {
    let window_ms = cfg.tier.pick(2_500, 9_500);
    let n_stores = cfg.tier.pick(2, 3);
    let mut specs = Vec::new();
    for _ in 0..n_stores {
        let h = if rng.chance(3, 4) { *rng.pick(MIXED_HOLDERS) } else { *rng.pick(SAME_OWNER_LIVE_HOLDERS) };
        let n_cli = rng.usize(4);
        let with_serve = n_cli == 0 || rng.chance(2, 3);
        specs.push(mixed_spec(h, n_cli, with_serve, window_ms, rng));
    }
    mp_mixed_batch(r, idx, bin, specs);
}

fn mp_case(r: &mut Report, cfg: &Cfg, idx: u64, rng: &mut Rng, bin: &Path) {
    if rng.chance(1, cfg.tier.pick(9, 6)) {
        mp_mixed_random(r, cfg, idx, rng, bin);
        return;
    }
    if rng.chance(1, 7) {
        let with_client = cfg.tier == crate::report::Tier::Thorough && rng.chance(1, 2);
        mp_stopped_incumbent_case(r, idx, rng, bin, with_client);
        return;
    }
    if rng.chance(1, 7) {
        mp_draining_incumbent_case(r, idx, rng, bin);
        return;
    }
    let store = Store::new("c18mp");
    let (c1, c2) = (rng.usize(CRASH_RECIPES.len()), rng.usize(CRASH_RECIPES.len()));
    let left0 = *rng.pick(&[
        MpLeft::Nothing,
        MpLeft::DeadLock,
        MpLeft::DeadLockMeta,
        MpLeft::DeadLockMeta,
        MpLeft::EmptyLock,
        MpLeft::HalfLock,
        MpLeft::LiveIncumbent,
        MpLeft::Crash(c1),
        MpLeft::Crash(c2),
    ]);
    let rounds = 1 + rng.usize(cfg.tier.pick(2, 3));
    let mut procs: Vec<Proc> = Vec::new();
    let mut groups: Vec<u32> = Vec::new();
    let mut known: Vec<(String, Option<u32>)> = Vec::new();
    let mut incumbent: Option<(String, u32)> = None;
    // plant
    let mut planted_dead: Option<u32> = None;
    {
        let dir = ripd::authority_dir(&store.data);
        let _ = std::fs::create_dir_all(&dir);
        let started = 1_700_000_000_000u64 + rng.below(1_000_000);
        match left0 {
            MpLeft::Nothing | MpLeft::AfterKill9 => {}
            MpLeft::Crash(i) => {
                for (pre, point) in CRASH_RECIPES[i % CRASH_RECIPES.len()].1 {
                    match *pre {
                        "dead_lock_meta" => {
                            let Some(pid) = dead_pid(rng) else {
                                r.inconclusive("no dead pid available");
                                return;
                            };
                            planted_dead = Some(pid);
                            let _ = std::fs::write(ripd::authority_lock_path(&store.data), lock_json(pid, started, &store.ws));
                            let _ = std::fs::write(ripd::authority_meta_path(&store.data), meta_json(REFUSED_ENDPOINT, pid, started, &store.ws));
                        }
                        "empty_lock" => {
                            let _ = std::fs::write(ripd::authority_lock_path(&store.data), b"");
                        }
                        _ => {}
                    }
                    let mut cmd = serve_cmd(bin, &store.data, &store.ws, "");
                    cmd.env("RIP_VERIF_ABORT", format!("{point}:1"));
                    match Proc::spawn(cmd) {
                        Ok(mut p) => {
                            let t0 = Instant::now();
                            while p.alive() && p.listening().is_none() && t0.elapsed() < Duration::from_secs(5) {
                                std::thread::sleep(Duration::from_millis(3));
                            }
                            if p.alive() {
                                // for points after bind the process announces itself first; give the abort a moment
                                let _ = p.wait_exit(Duration::from_millis(800));
                            }
                            let aborted = !p.alive() && p.stderr_text().contains("rip-verif: abort at");
                            p.finish();
                            r.count("mp_crash_points_taken", aborted as u64);
                            if !aborted {
                                r.inconclusive(&format!("case {idx}: rip serve did not abort at {point}"));
                                return;
                            }
                        }
                        Err(e) => {
                            r.inconclusive(&format!("cannot spawn {}: {e}", bin.display()));
                            return;
                        }
                    }
                }
            }
            MpLeft::DeadLock | MpLeft::DeadLockMeta => {
                let Some(pid) = dead_pid(rng) else {
                    r.inconclusive("no dead pid available");
                    return;
                };
                planted_dead = Some(pid);
                let _ = std::fs::write(ripd::authority_lock_path(&store.data), lock_json(pid, started, &store.ws));
                if left0 == MpLeft::DeadLockMeta {
                    let _ = std::fs::write(ripd::authority_meta_path(&store.data), meta_json(REFUSED_ENDPOINT, pid, started, &store.ws));
                }
            }
            MpLeft::EmptyLock => {
                let _ = std::fs::write(ripd::authority_lock_path(&store.data), b"");
            }
            MpLeft::HalfLock => {
                let full = lock_json(4242, started, &store.ws);
                let cut = 1 + rng.usize(full.len() - 2);
                let _ = std::fs::write(ripd::authority_lock_path(&store.data), &full[..cut]);
            }
            MpLeft::LiveIncumbent => match Proc::spawn(serve_cmd(bin, &store.data, &store.ws, "")) {
                Ok(mut p) => {
                    let t0 = Instant::now();
                    while p.listening().is_none() && p.alive() && t0.elapsed() < Duration::from_secs(5) {
                        std::thread::sleep(Duration::from_millis(5));
                    }
                    let ep = p.listening();
                    let pid = p.pid;
                    procs.push(p);
                    match ep {
                        Some(ep) => {
                            // wait for meta.json
                            let t0 = Instant::now();
                            while !ripd::authority_meta_path(&store.data).exists() && t0.elapsed() < Duration::from_secs(2) {
                                std::thread::sleep(Duration::from_millis(2));
                            }
                            known.push((ep.clone(), Some(pid)));
                            incumbent = Some((ep, pid));
                        }
                        None => {
                            r.inconclusive(&format!("case {idx}: incumbent rip serve did not start"));
                            for p in procs.iter_mut() {
                                p.finish();
                            }
                            return;
                        }
                    }
                }
                Err(e) => {
                    r.inconclusive(&format!("cannot spawn {}: {e}", bin.display()));
                    return;
                }
            },
        }
    }
    let mut left = left0;
    for round in 0..rounds {
        let n_serve = match rng.below(3) {
            0 => 2,
            1 => 3 + rng.usize(3),
            _ => 6 + rng.usize(7),
        };
        let n_cli = if rng.chance(1, 3) { 1 + rng.usize(3) } else { 0 };
        let slow_first = left == MpLeft::Nothing && rng.chance(1, 6);
        let cause_at_start = mp_cause(&store.data, incumbent.is_some(), slow_first);
        let _ = std::fs::remove_file(mp_trace_path(&store.data));
        let res = mp_round(bin, &store.data, &store.ws, n_serve, n_cli, slow_first, rng, &mut procs, &mut groups, &mut known);
        r.eval();
        r.count("mp_rounds", 1);
        r.count(&format!("mp_rounds_from_{}", left.name()), 1);
        r.count("mp_serve_processes", res.n_serve as u64);
        r.count("mp_cli_clients", res.n_cli as u64);
        r.count("mp_cli_clients_attached_ok", res.cli_ok as u64);
        r.count("mp_openapi_probes", (known.len() * 2) as u64);
        r.distinct_str(&format!(
            "mp|{}|serve{}|cli{}|serving{}|slow{}",
            left.name(),
            res.n_serve.min(8),
            res.n_cli,
            res.serving.len(),
            slow_first
        ));
        let witness = json!({
            "case": idx, "part": "multi_process", "round": round, "leftover": left.name(), "first_leftover": left0.name(),
            "serve_processes": res.n_serve, "cli_clients": res.n_cli, "slow_first": slow_first,
            "serving_endpoints": res.serving, "serving_pids": res.serving_pids,
            "max_direct_children_listening_and_alive": res.max_listening_alive,
            "lock.json": res.lock_now, "meta.json": res.meta_now,
            "cli_failed": res.cli_failed, "loser_stderr": res.stderr_tail,
        });
        if res.timed_out {
            r.inconclusive(&format!("case {idx} round {round}: processes neither exited nor announced themselves within the watchdog"));
            break;
        }
        // no cause readable from the leftover files: let the processes' own hook trace of this round decide (a
        // cleanup rename that really happened names the known race; no cleanup step at all stays unattributed)
        let cause = if cause_at_start.starts_with("unattributed") { mp_cause_from_trace(&store.data, cause_at_start) } else { cause_at_start };
        let expected_single: Option<&(String, u32)> = incumbent.as_ref();
        let mut stop = false;
        if res.serving.len() >= 2 || res.max_listening_alive >= 2 {
            r.violation(
                &format!("C18/{cause}/multi_process"),
                &format!(
                    "{} rip authorities serve the same store at once (leftover {}, {} rip serve + {} clients started together)",
                    res.serving.len().max(res.max_listening_alive),
                    left.name(),
                    res.n_serve,
                    res.n_cli
                ),
                witness.clone(),
            );
            r.count("mp_rounds_with_two_authorities", 1);
            stop = true;
        } else if res.serving.is_empty() {
            let announced_alive = procs.iter_mut().filter(|p| p.listening().is_some()).filter_map(|p| p.alive().then_some(())).count();
            if announced_alive > 0 {
                // somebody believes to be the authority but did not answer twice within the probe timeout: load, not a verdict
                r.inconclusive(&format!("case {idx} round {round}: an announced authority did not answer /openapi.json (overloaded host?)"));
                stop = true;
            } else if incumbent.is_some() {
                r.violation(
                    "C18/incumbent_displaced/multi_process",
                    "the live incumbent authority exited while contenders ran recovery",
                    witness.clone(),
                );
                stop = true;
            } else {
                // nobody came up inside the loops' own deadlines: wedged for good?
                match Proc::spawn(serve_cmd(bin, &store.data, &store.ws, "")) {
                    Ok(mut p) => {
                        let t0 = Instant::now();
                        while p.listening().is_none() && p.alive() && t0.elapsed() < Duration::from_secs(6) {
                            std::thread::sleep(Duration::from_millis(5));
                        }
                        let ok = p.listening().is_some() && p.alive();
                        let tail = p.stderr_text();
                        if let (true, Some(ep)) = (ok, p.listening()) {
                            known.push((ep, Some(p.pid)));
                        }
                        procs.push(p);
                        let dead_ok = planted_dead.map(|d| ripd::pid_liveness(d) == ripd::PidLiveness::Dead).unwrap_or(true);
                        if !ok && dead_ok {
                            r.violation(
                                &format!("C18/not_usable_again/{}/multi_process", left.name()),
                                &format!(
                                    "no rip serve came up from leftover {} and a later uncontended start failed too: {}",
                                    left.name(),
                                    tail.lines().find(|l| l.contains("authority")).or_else(|| tail.lines().last()).unwrap_or("").chars().take(300).collect::<String>()
                                ),
                                witness.clone(),
                            );
                            stop = true;
                        } else if !ok {
                            r.inconclusive("dead pid re-used during the round");
                            stop = true;
                        } else {
                            r.count("mp_progress_only_on_later_start", 1);
                        }
                    }
                    Err(e) => {
                        r.inconclusive(&format!("cannot spawn {}: {e}", bin.display()));
                        stop = true;
                    }
                }
            }
        } else {
            // exactly one authority serves: the files must name it
            r.count("mp_rounds_exactly_one_serving", 1);
            let ep = &res.serving[0];
            let pid = res.serving_pids[0];
            if let Some((iep, ipid)) = expected_single {
                if iep != ep {
                    r.violation(
                        "C18/incumbent_displaced/multi_process",
                        &format!("another authority ({ep}) serves instead of the live incumbent ({iep}, pid {ipid})"),
                        witness.clone(),
                    );
                    stop = true;
                }
            }
            let lock_pid = res.lock_now.as_ref().and_then(|v| v.get("pid")).and_then(|x| x.as_u64());
            let meta_pid = res.meta_now.as_ref().and_then(|v| v.get("pid")).and_then(|x| x.as_u64());
            let meta_ep = res.meta_now.as_ref().and_then(|v| v.get("endpoint")).and_then(|x| x.as_str()).map(|s| s.to_string());
            let pid_ok = match pid {
                Some(p) => lock_pid == Some(p as u64) && meta_pid == Some(p as u64),
                None => lock_pid.is_some() && lock_pid == meta_pid,
            };
            if !stop && (!pid_ok || meta_ep.as_deref() != Some(ep.as_str())) {
                r.violation(
                    &format!("C18/{cause}/multi_process"),
                    &format!(
                        "lock.json/meta.json do not name the one serving authority {ep} (pid {pid:?}): lock pid {lock_pid:?}, meta pid {meta_pid:?}, meta endpoint {meta_ep:?} (leftover {})",
                        left.name()
                    ),
                    witness.clone(),
                );
                r.count("mp_rounds_files_not_naming_server", 1);
                stop = true;
            } else if !stop {
                r.count("mp_rounds_files_name_the_server", 1);
            }
        }
        if r.samples.len() < r.max_samples && round == 0 {
            r.sample(witness);
        }
        if stop {
            break;
        }
        // crash every serving authority and go again on what it leaves behind
        let mut killed = 0;
        for p in procs.iter_mut() {
            if p.alive() && p.listening().is_some() {
                kill_pid(p.pid, libc::SIGKILL);
                let _ = p.wait_exit(Duration::from_secs(2));
                killed += 1;
            }
        }
        if killed == 0 {
            // the server is a client-spawned grandchild: meta.json has its pid
            if let Some(p) = res.meta_now.as_ref().and_then(|v| v.get("pid")).and_then(|x| x.as_u64()) {
                kill_pid(p as u32, libc::SIGKILL);
                let t0 = Instant::now();
                while ripd::pid_liveness(p as u32) == ripd::PidLiveness::Alive && t0.elapsed() < Duration::from_secs(6) {
                    // an orphan is a zombie until init reaps it (takes up to ~2 s here); a zombie counts as alive for kill(0)
                    std::thread::sleep(Duration::from_millis(10));
                }
                if ripd::pid_liveness(p as u32) == ripd::PidLiveness::Alive {
                    r.count("mp_orphan_winner_not_reaped_round_sequence_cut", 1);
                    break;
                }
            }
        }
        r.count("mp_winners_sigkilled", 1);
        incumbent = None;
        planted_dead = None;
        left = MpLeft::AfterKill9;
    }
    for g in &groups {
        kill_group(*g, libc::SIGKILL);
    }
    for p in procs.iter_mut() {
        p.finish();
    }
    // authorities spawned by clients that are still around (they are in the clients' groups; belt and braces)
    if let Some(p) = std::fs::read(ripd::authority_meta_path(&store.data))
        .ok()
        .and_then(|b| serde_json::from_slice::<Value>(&b).ok())
        .and_then(|v| v.get("pid").and_then(|x| x.as_u64()))
    {
        let lock_ws = std::fs::read(ripd::authority_lock_path(&store.data))
            .ok()
            .and_then(|b| serde_json::from_slice::<Value>(&b).ok())
            .and_then(|v| v.get("workspace_root").and_then(|x| x.as_str()).map(|s| s.to_string()));
        if lock_ws.as_deref() == Some(store.ws.to_string_lossy().as_ref()) && !procs.iter().any(|q| q.pid == p as u32) {
            if let Ok(cmdline) = std::fs::read(format!("/proc/{p}/cmdline")) {
                if String::from_utf8_lossy(&cmdline).contains("serve") {
                    kill_pid(p as u32, libc::SIGKILL);
                }
            }
        }
    }
}

// ---------------------------------------------------------------------------------------------

thread_local! {
    /// (sub-round number + 1 of the burst this thread takes part in, passed `auth.written` in the current attempt)
    static BURST: Cell<(usize, bool)> = const { Cell::new((0, false)) };
}

/// Spin (then yield) until `cond` holds; false on watchdog.
fn spin_until(cond: impl Fn() -> bool, timeout: Duration) -> bool {
    let mut i = 0u32;
    let t = Instant::now();
    loop {
        if cond() {
            return true;
        }
        i = i.wrapping_add(1);
        if i < 20_000 {
            std::hint::spin_loop();
        } else {
            if t.elapsed() > timeout {
                return false;
            }
            std::thread::yield_now();
        }
    }
}

struct BurstShared {
    k: usize,
    align: bool,
    /// per sub-round: contenders that reached `auth.written` / returned without reaching it / returned Ok
    at_written: Vec<std::sync::atomic::AtomicUsize>,
    done: Vec<std::sync::atomic::AtomicUsize>,
    oks: Vec<std::sync::atomic::AtomicUsize>,
    // generation barrier (busy-waiting: a futex barrier wakes its waiters microseconds apart)
    count: std::sync::atomic::AtomicUsize,
    gen: std::sync::atomic::AtomicUsize,
    broken: AtomicBool,
    /// set by the group's first thread when the burst budget is used up
    stop: AtomicBool,
}

impl BurstShared {
    fn barrier(&self) -> bool {
        let g = self.gen.load(Ordering::SeqCst);
        if self.count.fetch_add(1, Ordering::SeqCst) + 1 == self.k {
            self.count.store(0, Ordering::SeqCst);
            self.gen.fetch_add(1, Ordering::SeqCst);
        } else if !spin_until(|| self.gen.load(Ordering::SeqCst) != g || self.broken.load(Ordering::SeqCst), Duration::from_secs(10)) {
            self.broken.store(true, Ordering::SeqCst);
        }
        !self.broken.load(Ordering::SeqCst)
    }
}

/// (A0) tight bursts from the empty state. A group of K threads runs many sub-rounds, each on a fresh store: all
/// start one acquire attempt together (busy-wait barrier), every `Ok` guard is kept until *all* attempts of the
/// sub-round have returned (second barrier) — two `Ok`s in one sub-round are two simultaneous holders, whatever the
/// timing. No delay is injected anywhere. Every other group additionally re-aligns the contenders at the last hook
/// point inside the acquire step: a contender that reaches `auth.written` waits there until every other contender
/// has either arrived too or has returned from its attempt, so that an un-hooked check-then-act window behind the
/// record write is entered together (with an exclusive create only the winner gets there; it waits for the losers).
fn burst_rounds(r: &mut Report, cfg: &Cfg) {
    use std::sync::atomic::AtomicUsize;
    let groups = cfg.tier.pick(8u64, 400u64);
    let t_burst = Instant::now();
    let burst_deadline = Instant::now() + Duration::from_secs_f64((cfg.budget_s * 0.2 - r.elapsed()).max(1.0));
    let s = sched();
    s.reset();
    let mut two = 0u64;
    let mut none = 0u64;
    let mut done = 0u64;
    let mut aligned_rounds = 0u64;
    let mut met_rounds = 0u64;
    let mut direct_rounds = 0u64;
    let mut broken_groups = 0u64;
    for g in 0..groups {
        if Instant::now() >= burst_deadline {
            break;
        }
        let align = g % 2 == 1;
        // the recovery loop builds an HTTP client before its first attempt (milliseconds, jittery): groups that
        // call the loop's first step `AuthorityLockGuard::try_acquire` directly are the tightly synchronised ones
        let direct = g % 4 < 2;
        let k = if align { 3 + (g as usize / 4 % 4) } else { 2 + (g as usize / 4 % 5) };
        let per_group = if direct { 200usize } else { 12usize };
        let stores: Vec<Store> = (0..per_group).map(|_| Store::new("c18b")).collect();
        let sh = Arc::new(BurstShared {
            k,
            align,
            at_written: (0..per_group).map(|_| AtomicUsize::new(0)).collect(),
            done: (0..per_group).map(|_| AtomicUsize::new(0)).collect(),
            oks: (0..per_group).map(|_| AtomicUsize::new(0)).collect(),
            count: AtomicUsize::new(0),
            gen: AtomicUsize::new(0),
            broken: AtomicBool::new(false),
            stop: AtomicBool::new(false),
        });
        {
            let sh = sh.clone();
            s.set_custom(Some(Arc::new(move |p, _ctx| {
                if p != "auth.written" {
                    return;
                }
                let (j1, passed) = BURST.with(|b| b.get());
                if j1 == 0 || passed {
                    return;
                }
                BURST.with(|b| b.set((j1, true)));
                let j = j1 - 1;
                sh.at_written[j].fetch_add(1, Ordering::SeqCst);
                if sh.align {
                    let ok = spin_until(
                        || sh.at_written[j].load(Ordering::SeqCst) + sh.done[j].load(Ordering::SeqCst) >= sh.k || sh.broken.load(Ordering::SeqCst),
                        Duration::from_secs(5),
                    );
                    if !ok {
                        sh.broken.store(true, Ordering::SeqCst);
                    }
                }
            })));
        }
        let paths: Arc<Vec<(PathBuf, PathBuf)>> = Arc::new(stores.iter().map(|st| (st.data.clone(), st.ws.clone())).collect());
        let mut hs = Vec::new();
        for t in 0..k {
            let sh = sh.clone();
            let paths = paths.clone();
            hs.push(std::thread::spawn(move || {
                let Ok(rt) = tokio::runtime::Builder::new_current_thread().enable_all().build() else {
                    sh.broken.store(true, Ordering::SeqCst);
                    return 0usize;
                };
                let mut completed = 0usize;
                for (j, (data, ws)) in paths.iter().enumerate() {
                    if t == 0 && Instant::now() >= burst_deadline {
                        sh.stop.store(true, Ordering::SeqCst);
                    }
                    if !sh.barrier() || sh.stop.load(Ordering::SeqCst) {
                        break;
                    }
                    BURST.with(|b| b.set((j + 1, false)));
                    let res = if direct {
                        ripd::AuthorityLockGuard::try_acquire(data, ws)
                    } else {
                        rt.block_on(ripd::verif_export::acquire_authority_lock_with_recovery(data, ws))
                    };
                    let passed = BURST.with(|b| b.get().1);
                    BURST.with(|b| b.set((0, false)));
                    if !passed {
                        sh.done[j].fetch_add(1, Ordering::SeqCst);
                    }
                    if res.is_ok() {
                        sh.oks[j].fetch_add(1, Ordering::SeqCst);
                    }
                    // every attempt of this sub-round has returned; all guards handed out are still alive
                    if !sh.barrier() {
                        break;
                    }
                    drop(res);
                    completed = j + 1;
                }
                completed
            }));
        }
        let completed = hs.into_iter().map(|h| h.join().unwrap_or(0)).min().unwrap_or(0);
        s.set_custom(None);
        if sh.broken.load(Ordering::SeqCst) {
            broken_groups += 1;
        }
        for j in 0..completed {
            done += 1;
            r.eval();
            let m = sh.oks[j].load(Ordering::SeqCst);
            direct_rounds += direct as u64;
            if align {
                aligned_rounds += 1;
                if sh.at_written[j].load(Ordering::SeqCst) >= 2 {
                    met_rounds += 1;
                }
            }
            if m > 1 {
                two += 1;
                r.violation(
                    "C18/two_holders/barrier_burst_from_nothing",
                    &format!("{m} of {k} contenders released by a barrier on an empty store held the authority lock at the same time"),
                    json!({"part": "burst", "group": g, "sub_round": j, "contenders": k, "simultaneous_holders": m, "realigned_at_auth_written": align, "try_acquire_called_directly": direct}),
                );
            }
            if m == 0 {
                none += 1;
            }
        }
    }
    s.reset();
    if broken_groups > 0 {
        r.inconclusive(&format!("{broken_groups} burst group(s) cut short by the barrier watchdog (overloaded host)"));
    }
    r.distinct_str("burst|nothing");
    r.count("burst_wall_ms", t_burst.elapsed().as_millis() as u64);
    r.count("burst_rounds", done);
    r.count("burst_rounds_with_two_holders", two);
    r.count("burst_rounds_nobody_acquired", none);
    r.count("burst_rounds_first_step_called_directly", direct_rounds);
    r.count("burst_rounds_realigned_at_auth_written", aligned_rounds);
    r.count("burst_rounds_two_contenders_met_at_auth_written", met_rounds);
}

pub fn run(cfg: &Cfg) -> i32 {
    let mut r = Report::new(
        "C18",
        "fault_enumeration",
        "(A) in-process: every leftover state {nothing, dead lock, dead lock+meta (± started_at drift), dead meta only, empty / \
         half-written / shapeless / split-UTF-8 lock, empty lock + dead meta, live pid lock (± meta), answering endpoint (live / \
         non-local pid)} × {directed rendezvous schedules at each read-then-rename pair, seeded noise at all auth.* points} with \
         1–6 contender threads running the real recovery loop; (B) multi-process: 2–12 real `rip serve` (+0–3 `rip tasks list` \
         clients) started at once per leftover state with random RIP_VERIF_DELAY, winner SIGKILLed, round repeated; (B2) \
         every live / mixed-owner leftover {live lock + dead | other-live | corrupt meta, dead lock + answering live meta, real \
         rip serve stopped between lock and meta (± dead meta), live lock (± meta), answering endpoint} × {1–3 rip clients \
         alone, clients + 2–4 rip serve in two waves} with lock.json polled for byte identity while the owner lives. A case is \
         non-trivial when ≥2 contenders reached auth.* hook points (A) / the round was judged (B); distinct = distinct \
         (state, schedule, hook interleaving) resp. (state, #processes, #serving) shapes",
    );
    r.assume("hook points do not change behaviour beyond timing");
    r.assume("in-process contenders share one pid: a contender's lock can never look dead to another contender; dead-pid cleanup is triggered by planted leftovers only");
    r.assume("schedules are the directed rendezvous scripts plus what the OS scheduler and injected delays produce (not exhaustive)");
    r.assume("a meta.json that does not belong to the live lock owner (dead pid, other pid, unparsable) may be removed by recovery, never replaced while the owner lives");
    r.assume("an authority known only by an answering endpoint (lock of a dead pid) may be displaced when its endpoint misses a ping: such a takeover is judged only when the monitor's own pings were all answered within 100 ms");
    r.assume("bounded progress is judged as: somebody acquired before all loops returned, or (to rule out timing) one later uncontended attempt succeeds");
    let bin = rip_bin();
    let have_bin = bin.exists();
    if !have_bin {
        r.inconclusive(&format!(
            "real binary {} not found (RV_RIP_BIN): multi-process part (B) skipped",
            bin.display()
        ));
    }
    r.note("rip_binary", json!(bin.display().to_string()));

    if let Some(path) = &cfg.replay {
        // re-run the stored case (directed schedules replay deterministically; noise cases re-run the same seed)
        let doc: Value = std::fs::read(path).ok().and_then(|b| serde_json::from_slice(&b).ok()).unwrap_or(Value::Null);
        let idx = doc.pointer("/witness/case").and_then(|x| x.as_u64()).unwrap_or(0);
        let part = doc.pointer("/witness/part").and_then(|x| x.as_str()).unwrap_or("in_process").to_string();
        let mut rng = cfg.case_rng(idx);
        if part == "multi_process_mixed" && idx == MIXED_BATCH_CASE {
            if have_bin {
                mp_mixed_directed(&mut r, cfg, idx, &mut rng, &bin);
            }
        } else if part == "multi_process" || part == "multi_process_mixed" {
            if have_bin {
                mp_case(&mut r, cfg, idx, &mut rng, &bin);
            }
        } else {
            let case = if idx < N_DIRECTED { directed_case(idx) } else { noise_case(&mut rng, cfg) };
            let out = run_inproc_case(&case, &mut rng);
            judge_inproc(&mut r, idx, &case, &out);
        }
        return r.finish(cfg);
    }

    // (A0) barrier bursts from the empty state: K contenders released at the same instant, no injected
    // delay anywhere (delays at hook points de-synchronise contenders; a window that contains no hook
    // point — e.g. between an existence check and a rename — is only hit by truly simultaneous starts);
    // see burst_rounds for the sub-round / re-alignment scheme
    burst_rounds(&mut r, cfg);

    let max_cases = cfg.tier.pick(4_000u64, 2_000_000u64);
    let mp_every = cfg.tier.pick(9u64, 7u64);
    let mut idx = 0u64;
    while idx < max_cases && (r.elapsed() < cfg.budget_s * 0.9 || idx <= MIXED_BATCH_CASE) {
        let i = idx;
        idx += 1;
        if !cfg.mine(i) {
            continue;
        }
        let mut rng = cfg.case_rng(i);
        if i < N_DIRECTED {
            let case = directed_case(i);
            let out = run_inproc_case(&case, &mut rng);
            judge_inproc(&mut r, i, &case, &out);
            r.count("directed_schedules_run", 1);
        } else if i == MIXED_BATCH_CASE {
            if have_bin {
                mp_mixed_directed(&mut r, cfg, i, &mut rng, &bin);
                // two graceful-shutdown rounds in every run (more follow at random among the multi-process cases)
                mp_draining_incumbent_case(&mut r, i, &mut rng, &bin);
                mp_draining_incumbent_case(&mut r, i + 1, &mut rng, &bin);
            }
        } else if have_bin && (i - N_DIRECTED) % mp_every == mp_every - 1 {
            mp_case(&mut r, cfg, i, &mut rng, &bin);
        } else {
            let case = noise_case(&mut rng, cfg);
            let out = run_inproc_case(&case, &mut rng);
            judge_inproc(&mut r, i, &case, &out);
        }
    }
    r.finish(cfg)
}
