#![allow(dead_code)]
//! rv — runtime-verification harness for numman-ali/rip.
//!
//!   rv <property-id> [--tier quick|thorough] [--seed N] [--out PATH] [--jobs N] [--shard i/n]
//!                    [--budget SECONDS] [--replay PATH] [flags…]
//!   rv <helper> …      (emit | mark | provider | fakeauth | child helpers used by the monitors)
//!
//! exit 0 = property held on everything explored (KNOWN-FINDING lines allowed)
//! exit 1 = `VIOLATION property=<id> replay=<path>` printed
//! exit 2 = inconclusive (never folded into the other two)

mod fixture;
mod prng;
mod report;
mod sched;
mod truth;

mod c01;
mod c02;
mod c03;
mod c04;
mod c05;
mod c06;
mod c07;
mod c08;
mod c09;
mod c10;
mod c11;
mod c12;
mod c13;
mod c14;
mod c15;
mod c16;
mod c17;
mod c18;
mod c19;
mod c20;
mod gen_hist;
mod helpers;
mod provider;

use report::{Cfg, Tier};
use serde_json::{json, Value};
use std::collections::{BTreeMap, HashSet};
use std::path::PathBuf;

struct Entry {
    id: &'static str,
    run: fn(&Cfg) -> i32,
    // (jobs, budget seconds) per tier
    quick: (u64, f64),
    thorough: (u64, f64),
}

const TABLE: &[Entry] = &[
    Entry { id: "C01", run: c01::run, quick: (4, 35.0), thorough: (14, 420.0) },
    Entry { id: "C02", run: c02::run, quick: (4, 35.0), thorough: (14, 420.0) },
    Entry { id: "C03", run: c03::run, quick: (4, 35.0), thorough: (14, 420.0) },
    Entry { id: "C04", run: c04::run, quick: (6, 60.0), thorough: (14, 600.0) },
    Entry { id: "C05", run: c05::run, quick: (6, 35.0), thorough: (14, 600.0) },
    Entry { id: "C06", run: c06::run, quick: (4, 45.0), thorough: (12, 480.0) },
    Entry { id: "C07", run: c07::run, quick: (4, 45.0), thorough: (12, 480.0) },
    Entry { id: "C08", run: c08::run, quick: (4, 45.0), thorough: (14, 480.0) },
    Entry { id: "C09", run: c09::run, quick: (4, 40.0), thorough: (14, 420.0) },
    Entry { id: "C10", run: c10::run, quick: (4, 30.0), thorough: (14, 360.0) },
    Entry { id: "C11", run: c11::run, quick: (4, 45.0), thorough: (12, 480.0) },
    Entry { id: "C12", run: c12::run, quick: (4, 30.0), thorough: (14, 420.0) },
    Entry { id: "C13", run: c13::run, quick: (4, 40.0), thorough: (14, 480.0) },
    Entry { id: "C14", run: c14::run, quick: (4, 35.0), thorough: (14, 420.0) },
    Entry { id: "C15", run: c15::run, quick: (4, 45.0), thorough: (14, 480.0) },
    Entry { id: "C16", run: c16::run, quick: (4, 45.0), thorough: (12, 480.0) },
    Entry { id: "C17", run: c17::run, quick: (4, 50.0), thorough: (12, 540.0) },
    Entry { id: "C18", run: c18::run, quick: (4, 50.0), thorough: (12, 600.0) },
    Entry { id: "C19", run: c19::run, quick: (1, 80.0), thorough: (1, 600.0) },
    Entry { id: "C20", run: c20::run, quick: (4, 30.0), thorough: (14, 420.0) },
];

fn main() {
    let args: Vec<String> = std::env::args().skip(1).collect();
    if args.is_empty() {
        eprintln!("usage: rv <property-id|helper> [options]");
        std::process::exit(2);
    }
    let cmd = args[0].clone();
    // helper sub-commands (children of monitors)
    if let Some(code) = helpers::dispatch(&cmd, &args[1..]) {
        std::process::exit(code);
    }

    let id = cmd.to_uppercase();
    let Some(entry) = TABLE.iter().find(|e| e.id == id) else {
        eprintln!("unknown property or helper: {cmd}");
        std::process::exit(2);
    };

    let mut tier = match std::env::var("VERIF_TIER").ok().as_deref() {
        Some("thorough") => Tier::Thorough,
        _ => Tier::Quick,
    };
    let mut seed: u64 = std::env::var("VERIF_SEED")
        .ok()
        .and_then(|s| s.trim().parse::<i64>().ok())
        .map(|v| v as u64)
        .unwrap_or(1);
    let root = PathBuf::from(std::env::var("VERIF_ROOT").unwrap_or_else(|_| "/verif".to_string()));
    let mut out: Option<PathBuf> = None;
    let mut shard: Option<(u64, u64)> = None;
    let mut jobs: Option<u64> = None;
    let mut budget: Option<f64> = None;
    let mut replay: Option<PathBuf> = None;
    let mut extra: Vec<String> = Vec::new();
    let mut i = 1;
    while i < args.len() {
        let a = args[i].as_str();
        let mut val = || {
            i += 1;
            args.get(i).cloned().unwrap_or_default()
        };
        match a {
            "--tier" => {
                tier = if val() == "thorough" { Tier::Thorough } else { Tier::Quick };
            }
            "--seed" => seed = val().parse::<i64>().map(|v| v as u64).unwrap_or(1),
            "--out" => out = Some(PathBuf::from(val())),
            "--jobs" => jobs = val().parse().ok(),
            "--budget" => budget = val().parse().ok(),
            "--replay" => replay = Some(PathBuf::from(val())),
            "--shard" => {
                let v = val();
                if let Some((a, b)) = v.split_once('/') {
                    shard = Some((a.parse().unwrap_or(0), b.parse().unwrap_or(1)));
                }
            }
            other => extra.push(other.to_string()),
        }
        i += 1;
    }
    let (def_jobs, def_budget) = match tier {
        Tier::Quick => entry.quick,
        Tier::Thorough => entry.thorough,
    };
    let out = out.unwrap_or_else(|| root.join("evidence").join(format!("{id}.json")));
    let budget_s = budget.unwrap_or(def_budget);
    let jobs = jobs.unwrap_or(def_jobs).max(1);

    if shard.is_none() && jobs > 1 && replay.is_none() {
        std::process::exit(run_sharded(&id, tier, seed, &out, jobs, budget_s, &extra, entry.id));
    }

    let cfg = Cfg {
        id: id.clone(),
        tier,
        seed,
        out,
        shard: shard.unwrap_or((0, 1)),
        replay,
        root,
        budget_s,
        extra,
    };
    fixture::isolate_env();
    let code = (entry.run)(&cfg);
    fixture::cleanup_scratch();
    std::process::exit(code);
}

#[allow(clippy::too_many_arguments)]
fn run_sharded(
    id: &str,
    tier: Tier,
    seed: u64,
    out: &PathBuf,
    jobs: u64,
    budget_s: f64,
    extra: &[String],
    _entry_id: &str,
) -> i32 {
    let start = std::time::Instant::now();
    let exe = std::env::current_exe().expect("current exe");
    let mut children = Vec::new();
    for s in 0..jobs {
        let shard_out = PathBuf::from(format!("{}.shard-{s}", out.display()));
        let _ = std::fs::remove_file(&shard_out);
        let mut c = std::process::Command::new(&exe);
        c.arg(id)
            .arg("--tier")
            .arg(tier.as_str())
            .arg("--seed")
            .arg(seed.to_string())
            .arg("--out")
            .arg(&shard_out)
            .arg("--shard")
            .arg(format!("{s}/{jobs}"))
            .arg("--budget")
            .arg(budget_s.to_string());
        for e in extra {
            c.arg(e);
        }
        c.stdout(std::process::Stdio::piped());
        c.stderr(std::process::Stdio::inherit());
        match c.spawn() {
            Ok(ch) => children.push((s, shard_out, ch)),
            Err(e) => {
                println!("INCONCLUSIVE property={id} cannot spawn shard {s}: {e}");
                return 2;
            }
        }
    }
    let mut worst = 0;
    let mut crashed: Vec<String> = Vec::new();
    let mut evals = 0u64;
    let mut viol = 0i64;
    let mut hashes: HashSet<String> = HashSet::new();
    let mut merged_cov: serde_json::Map<String, Value> = serde_json::Map::new();
    let mut samples: Vec<Value> = Vec::new();
    let mut observed: BTreeMap<String, u64> = BTreeMap::new();
    let mut level = String::from("exploration");
    let mut assumptions: Vec<Value> = Vec::new();
    let mut sigs: Vec<Value> = Vec::new();
    let mut known_seen: Vec<Value> = Vec::new();
    let mut inconclusive: Vec<Value> = Vec::new();
    let mut fatal: Vec<Value> = Vec::new();
    let mut printed: HashSet<String> = HashSet::new();
    let mut ok_shards = 0u64;
    for (s, shard_out, ch) in children {
        let outp = ch.wait_with_output();
        let (code, stdout) = match outp {
            Ok(o) => (o.status.code().unwrap_or(-1), String::from_utf8_lossy(&o.stdout).to_string()),
            Err(_) => (-1, String::new()),
        };
        for line in stdout.lines() {
            if line.starts_with("OK ") {
                continue;
            }
            // de-duplicate identical KNOWN-FINDING lines across shards (strip the seen counter)
            let key = line.split(" seen=").next().unwrap_or(line).to_string();
            if line.starts_with("KNOWN-FINDING") && !printed.insert(key) {
                continue;
            }
            println!("{line}");
        }
        match code {
            0 => ok_shards += 1,
            1 => worst = 1,
            2 => {
                if worst == 0 {
                    // a shard that had nothing to do is not fatal as long as others evaluated
                }
            }
            other => crashed.push(format!("shard {s} exited with {other}")),
        }
        if let Ok(bytes) = std::fs::read(&shard_out) {
            if let Ok(ev) = serde_json::from_slice::<Value>(&bytes) {
                if let Some(l) = ev.get("level").and_then(|x| x.as_str()) {
                    level = l.to_string();
                }
                viol += ev.get("violations").and_then(|x| x.as_i64()).unwrap_or(0);
                if let Some(a) = ev.get("assumptions").and_then(|x| x.as_array()) {
                    for x in a {
                        if !assumptions.contains(x) {
                            assumptions.push(x.clone());
                        }
                    }
                }
                if let Some(cov) = ev.get("coverage").and_then(|x| x.as_object()) {
                    evals += cov.get("evaluations").and_then(|x| x.as_u64()).unwrap_or(0);
                    if let Some(sm) = cov.get("samples").and_then(|x| x.as_array()) {
                        for x in sm {
                            if samples.len() < 6 {
                                samples.push(x.clone());
                            }
                        }
                    }
                    if let Some(o) = cov.get("observed").and_then(|x| x.as_object()) {
                        for (k, v) in o {
                            let e = observed.entry(k.clone()).or_insert(0);
                            if k.starts_with("max_") {
                                *e = (*e).max(v.as_u64().unwrap_or(0));
                            } else {
                                *e += v.as_u64().unwrap_or(0);
                            }
                        }
                    }
                    for (key, acc) in [
                        ("violation_signatures", &mut sigs),
                        ("known_findings_seen", &mut known_seen),
                        ("inconclusive", &mut inconclusive),
                        ("fatal_inconclusive", &mut fatal),
                    ] {
                        if let Some(a) = cov.get(key).and_then(|x| x.as_array()) {
                            for x in a {
                                if acc.len() < 100 && !acc.contains(x) {
                                    acc.push(x.clone());
                                }
                            }
                        }
                    }
                    for (k, v) in cov {
                        if !merged_cov.contains_key(k) {
                            merged_cov.insert(k.clone(), v.clone());
                        }
                    }
                }
            }
            let _ = std::fs::remove_file(&shard_out);
        }
        let hp = report::hashes_path(&shard_out);
        if let Ok(s) = std::fs::read_to_string(&hp) {
            for l in s.lines() {
                hashes.insert(l.to_string());
            }
            let _ = std::fs::remove_file(&hp);
        }
    }
    merged_cov.insert("evaluations".into(), json!(evals));
    merged_cov.insert("distinct_nontrivial".into(), json!(hashes.len()));
    merged_cov.insert("samples".into(), Value::Array(samples));
    merged_cov.insert("observed".into(), json!(observed));
    merged_cov.insert("violation_signatures".into(), Value::Array(sigs));
    merged_cov.insert("known_findings_seen".into(), Value::Array(known_seen));
    merged_cov.insert("inconclusive".into(), Value::Array(inconclusive));
    merged_cov.insert("shards".into(), json!(jobs));
    merged_cov.insert("shards_ok".into(), json!(ok_shards));
    merged_cov.insert("shards_crashed".into(), json!(crashed));
    let fatal_all = worst == 0 && (evals == 0 || !crashed.is_empty() || ok_shards == 0);
    if !fatal_all {
        fatal.clear();
    }
    merged_cov.insert("fatal_inconclusive".into(), Value::Array(fatal.clone()));
    let evidence = json!({
        "property_id": id,
        "tier": tier.as_str(),
        "seed": seed,
        "level": level,
        "coverage": Value::Object(merged_cov),
        "assumptions": assumptions,
        "wall_s": (start.elapsed().as_secs_f64() * 1000.0).round() / 1000.0,
        "violations": viol,
    });
    if let Some(p) = out.parent() {
        let _ = std::fs::create_dir_all(p);
    }
    let _ = std::fs::write(out, serde_json::to_vec_pretty(&evidence).unwrap_or_default());
    if worst == 1 {
        return 1;
    }
    if fatal_all {
        println!(
            "INCONCLUSIVE property={id} evaluations={evals} ok_shards={ok_shards} crashed={:?} {:?}",
            crashed, fatal
        );
        return 2;
    }
    println!(
        "OK property={id} tier={} seed={seed} shards={jobs} evaluations={evals} distinct_nontrivial={} wall_s={:.1}",
        tier.as_str(),
        hashes.len(),
        start.elapsed().as_secs_f64()
    );
    0
}
