//! C16 — the tool loop answers each provider call exactly once and never runs a barred tool.
//!
//! The real engine (router + session loop + tool runner) is pointed at the scripted provider.
//! Every scripted function call is a `write {append:true}` / `bash echo >>` of a unique token, so
//! "executed" is read off the workspace. The oracle works on three recordings: the request bodies
//! the provider received (in order), the session frames in events.jsonl, and the workspace files.
//! What the provider "emitted" is re-derived from the bytes it served by an independent SSE
//! reading (toolscript::emitted_calls), not taken from the engine.

#[path = "toolscript.rs"]
pub mod toolscript;

use crate::fixture::{runtime, wait_for, App, Store};
use crate::prng::Rng;
use crate::report::{Cfg, Report, Tier};
use crate::truth;
use ripd::verif_export::{parse_tool_choice, OpenResponsesConfig, ToolChoiceParam};
use serde_json::{json, Value};
use std::collections::{BTreeMap, HashMap, HashSet};
use std::time::Duration;
use toolscript::{
    build_turn, choice_allows, gen_call, gen_run, mark_prompt, workspace_text, CallKind, CallSpec, Emission, Fault,
    GenOpts, Scripted, Turn, TurnParts,
};

pub const MAX_TOOL_CALLS: usize = 32;

#[derive(Clone, Copy, Debug, PartialEq, Eq)]
enum Route {
    /// POST /sessions + POST /sessions/{id}/input (engine-level provider config)
    Session,
    /// POST /threads/{id}/messages without overrides (engine-level provider config)
    ThreadEngine,
    /// POST /threads/{id}/messages with an `openresponses` override (config is rebuilt by the route)
    ThreadOverride,
}

impl Route {
    fn label(&self) -> &'static str {
        match self {
            Route::Session => "session_input",
            Route::ThreadEngine => "thread_message",
            Route::ThreadOverride => "thread_message_override",
        }
    }
}

struct Case {
    idx: u64,
    /// provider-side run id (markers); unique per process so that one provider can serve many cases
    run: u32,
    directed: Option<&'static str>,
    route: Route,
    choice_label: String,
    choice: ToolChoiceParam,
    stateless: bool,
    parallel: bool,
    followup: Option<String>,
    forever: bool,
    turns: Vec<Turn>,
}

fn choice_pool() -> Vec<(&'static str, String)> {
    let f = |names: &[&str]| -> Vec<Value> { names.iter().map(|n| json!({"type":"function","name":n})).collect() };
    vec![
        ("auto", "auto".into()),
        ("none", "none".into()),
        ("required", "required".into()),
        ("function:write", "function:write".into()),
        ("function:bash", "function:bash".into()),
        ("function:read", "function:read".into()),
        ("function:nosuch_tool", "function:nosuch_tool".into()),
        ("allowed[write]", format!("json:{}", json!({"type":"allowed_tools","tools":f(&["write"])}))),
        (
            "allowed[bash,shell]/auto",
            format!("json:{}", json!({"type":"allowed_tools","mode":"auto","tools":f(&["bash","shell"])})),
        ),
        (
            "allowed[write,bash]/required",
            format!("json:{}", json!({"type":"allowed_tools","mode":"required","tools":f(&["write","bash"])})),
        ),
        ("allowed[read,ls]", format!("json:{}", json!({"type":"allowed_tools","tools":f(&["read","ls"])}))),
        (
            "allowed[write]/none",
            format!("json:{}", json!({"type":"allowed_tools","mode":"none","tools":f(&["write"])})),
        ),
        (
            "allowed[apply_patch-hosted,write]",
            format!(
                "json:{}",
                json!({"type":"allowed_tools","tools":[{"type":"apply_patch"},{"type":"function","name":"write"}]})
            ),
        ),
    ]
}

fn choice_from(label: &str) -> (String, ToolChoiceParam) {
    for (l, spec) in choice_pool() {
        if l == label {
            let p = parse_tool_choice(&spec).unwrap_or_else(|_| ToolChoiceParam::auto());
            return (l.to_string(), p);
        }
    }
    ("auto".into(), ToolChoiceParam::auto())
}

fn base_opts(idx: u64, run: u32) -> GenOpts {
    GenOpts {
        case: idx,
        run,
        turns: 2,
        max_calls: 1,
        duplicates: false,
        unanswerable: false,
        forever: false,
        final_fault: Fault::None,
        weird_events: false,
        no_response_id_turn: None,
    }
}

fn plain_parts(calls: Vec<CallSpec>) -> TurnParts {
    TurnParts {
        calls,
        text_deltas: 1,
        with_response_id: true,
        fault: Fault::None,
        malformed_json: false,
        schema_invalid: false,
        shuffle_all: false,
        sequential: true,
        chunked: false,
    }
}

const DIRECTED: &[&str] = &[
    "repeated_done/session",
    "repeated_done/thread_stateless",
    "two_items_same_call_id",
    "endless_provider",
    "choice_none",
    "choice_function_write",
    "choice_allowed_mode_none",
    "long_call_id",
    "config_fidelity_override",
    "invalid_tool_choice",
    "stateless_followup_message",
    "no_response_id",
    "endless_provider_stateless",
];

fn directed_case(seed: u64, idx: u64, name: &'static str, run: u32) -> Case {
    let mut rng = Rng::derive(seed ^ 0xC16D, idx);
    let o = base_opts(idx, run);
    let mut case = Case {
        idx,
        run,
        directed: Some(name),
        route: Route::Session,
        choice_label: "auto".into(),
        choice: ToolChoiceParam::auto(),
        stateless: false,
        parallel: false,
        followup: None,
        forever: false,
        turns: Vec::new(),
    };
    let two_turns = |rng: &mut Rng, calls: Vec<CallSpec>| -> Vec<Turn> {
        let mut calls = calls;
        for (i, c) in calls.iter_mut().enumerate() {
            c.output_index = 1 + i as u64;
        }
        vec![
            build_turn(rng, run, 0, plain_parts(calls)),
            build_turn(rng, run, 1, plain_parts(Vec::new())),
        ]
    };
    match name {
        "repeated_done/session" => {
            let c = gen_call(&mut rng, &o, 0, 0, CallKind::WriteAppend, Emission::RepeatedDone);
            case.turns = two_turns(&mut rng, vec![c]);
        }
        "repeated_done/thread_stateless" => {
            case.route = Route::ThreadEngine;
            case.stateless = true;
            let c = gen_call(&mut rng, &o, 0, 0, CallKind::BashEcho, Emission::RepeatedDone);
            let d = gen_call(&mut rng, &o, 0, 1, CallKind::WriteAppend, Emission::Canonical);
            case.turns = two_turns(&mut rng, vec![c, d]);
        }
        "two_items_same_call_id" => {
            let mut a = gen_call(&mut rng, &o, 0, 0, CallKind::WriteAppend, Emission::Canonical);
            let mut b = gen_call(&mut rng, &o, 0, 1, CallKind::WriteAppend, Emission::AddedFull);
            b.call_id = a.call_id.clone();
            a.shares_call_id = true;
            b.shares_call_id = true;
            case.turns = two_turns(&mut rng, vec![a, b]);
        }
        "endless_provider" | "endless_provider_stateless" => {
            case.forever = true;
            case.stateless = name.ends_with("stateless");
            let mut o = o.clone();
            o.forever = true;
            o.max_calls = 5;
            case.turns = gen_run(&mut rng, &o);
        }
        "choice_none" | "choice_function_write" | "choice_allowed_mode_none" => {
            let label = match name {
                "choice_none" => "none",
                "choice_function_write" => "function:write",
                _ => "allowed[write]/none",
            };
            let (l, p) = choice_from(label);
            case.choice_label = l;
            case.choice = p;
            let a = gen_call(&mut rng, &o, 0, 0, CallKind::WriteAppend, Emission::Canonical);
            let b = gen_call(&mut rng, &o, 0, 1, CallKind::BashEcho, Emission::DoneOnly);
            let c = gen_call(&mut rng, &o, 0, 2, CallKind::ReadFile, Emission::AddedFull);
            case.turns = two_turns(&mut rng, vec![a, b, c]);
        }
        "long_call_id" => {
            let a = gen_call(&mut rng, &o, 0, 0, CallKind::LongCallId, Emission::Canonical);
            case.turns = two_turns(&mut rng, vec![a]);
        }
        "config_fidelity_override" => {
            case.route = Route::ThreadOverride;
            let (l, p) = choice_from("none");
            case.choice_label = l;
            case.choice = p;
            let a = gen_call(&mut rng, &o, 0, 0, CallKind::WriteAppend, Emission::Canonical);
            case.turns = two_turns(&mut rng, vec![a]);
        }
        "invalid_tool_choice" => {
            case.choice_label = "invalid".into();
            case.choice = ToolChoiceParam::new(json!({"type":"bogus_choice","name":7}));
            let a = gen_call(&mut rng, &o, 0, 0, CallKind::WriteAppend, Emission::Canonical);
            case.turns = two_turns(&mut rng, vec![a]);
        }
        "stateless_followup_message" => {
            case.stateless = true;
            case.followup = Some("Please continue.".into());
            let a = gen_call(&mut rng, &o, 0, 0, CallKind::WriteAppend, Emission::Canonical);
            let b = gen_call(&mut rng, &o, 1, 0, CallKind::BashEcho, Emission::DeltasOnly);
            let mut a = a;
            a.output_index = 1;
            let mut b = b;
            b.output_index = 1;
            case.turns = vec![
                build_turn(&mut rng, run, 0, plain_parts(vec![a])),
                build_turn(&mut rng, run, 1, plain_parts(vec![b])),
                build_turn(&mut rng, run, 2, plain_parts(Vec::new())),
            ];
        }
        "no_response_id" => {
            let mut a = gen_call(&mut rng, &o, 0, 0, CallKind::WriteAppend, Emission::Canonical);
            a.output_index = 1;
            let mut p = plain_parts(vec![a]);
            p.with_response_id = false;
            case.turns = vec![
                build_turn(&mut rng, run, 0, p),
                build_turn(&mut rng, run, 1, plain_parts(Vec::new())),
            ];
        }
        _ => {}
    }
    case
}

fn random_case(seed: u64, idx: u64, tier: Tier, run: u32) -> Case {
    let mut rng = Rng::derive(seed, idx);
    let route = match rng.below(10) {
        0..=4 => Route::Session,
        5..=7 => Route::ThreadEngine,
        _ => Route::ThreadOverride,
    };
    let pool = choice_pool();
    let label = if rng.chance(2, 5) { "auto" } else { pool[rng.usize(pool.len())].0 };
    let (choice_label, choice) = choice_from(label);
    let stateless = rng.chance(2, 5);
    let forever = rng.chance(1, tier.pick(40, 25));
    let final_fault = match rng.below(12) {
        0 => Fault::NoDone,
        1 => Fault::Http { status: [400u16, 401, 429, 500][rng.usize(4)], with_body: rng.bool(), echo: rng.bool() },
        2 => Fault::EmptyBody,
        3 => Fault::HeadersOnly,
        _ => Fault::None,
    };
    let turns_n = 1 + rng.usize(6);
    let opts = GenOpts {
        case: idx,
        run,
        turns: turns_n,
        max_calls: 1 + rng.usize(5),
        duplicates: rng.chance(1, 3),
        unanswerable: rng.chance(1, 6),
        forever,
        final_fault,
        weird_events: rng.chance(1, 3),
        no_response_id_turn: if !forever && rng.chance(1, 25) { Some(rng.usize(turns_n)) } else { None },
    };
    let mut turns = gen_run(&mut rng, &opts);
    // a reset inside the last turn's body
    if !forever && rng.chance(1, 12) {
        if let Some(t) = turns.last_mut() {
            if t.fault == Fault::None && !t.body.is_empty() {
                t.fault = Fault::ResetAt(rng.usize(t.body.len() + 1));
            }
        }
    }
    Case {
        idx,
        run,
        directed: None,
        route,
        choice_label,
        choice,
        stateless,
        parallel: stateless && idx % 3 == 0,
        followup: if rng.chance(1, 8) { Some("Continue with the task.".into()) } else { None },
        forever,
        turns,
    }
}

fn make_case(seed: u64, idx: u64, tier: Tier, run: u32) -> Case {
    if (idx as usize) < DIRECTED.len() {
        directed_case(seed, idx, DIRECTED[idx as usize], run)
    } else {
        random_case(seed, idx, tier, run)
    }
}

/// Engines are expensive to open (≈70 ms: router + HTTP client), so they are reused for the cases
/// that ask for the same engine-level provider configuration; one scripted provider serves all of
/// them. Everything is rotated every `POOL_GENERATION` cases. Judging only reads what a case
/// appended (log offset) and that case's own tokens / provider run id.
const POOL_GENERATION: usize = 250;
const APP_MAX_USES: usize = 40;

struct Pooled {
    key: String,
    app: App,
    store: Store,
    uses: usize,
}

struct Pool {
    scripted: Scripted,
    apps: Vec<Pooled>,
    cases: usize,
    next_run: u32,
}

impl Pool {
    fn new() -> Pool {
        Pool { scripted: Scripted::start(), apps: Vec::new(), cases: 0, next_run: 0 }
    }

    fn take_run(&mut self) -> u32 {
        if self.cases >= POOL_GENERATION {
            self.apps.clear();
            self.scripted = Scripted::start();
            self.cases = 0;
        }
        self.cases += 1;
        self.next_run += 1;
        self.next_run
    }

    fn app_for(&mut self, case: &Case) -> Result<usize, String> {
        let key = format!(
            "{}|{}|{}|{:?}|{}",
            case.choice_label,
            case.stateless,
            case.parallel,
            case.followup,
            case.choice.value()
        );
        if let Some(i) = self.apps.iter().position(|p| p.key == key) {
            if self.apps[i].uses < APP_MAX_USES && std::fs::metadata(self.apps[i].store.log_path()).map(|m| m.len()).unwrap_or(0) < 6_000_000 {
                self.apps[i].uses += 1;
                return Ok(i);
            }
            self.apps.remove(i);
        }
        if self.apps.len() >= 24 {
            self.apps.remove(0);
        }
        let store = Store::new("c16");
        let config = OpenResponsesConfig {
            endpoint: self.scripted.provider.endpoint(),
            api_key: None,
            model: Some("m".into()),
            headers: vec![],
            tool_choice: case.choice.clone(),
            followup_user_message: case.followup.clone(),
            stateless_history: case.stateless,
            parallel_tool_calls: case.parallel,
        };
        let app = App::open(&store, Some(config))?;
        self.apps.push(Pooled { key, app, store, uses: 1 });
        Ok(self.apps.len() - 1)
    }
}

pub fn run(cfg: &Cfg) -> i32 {
    let mut r = Report::new(
        "C16",
        "exploration",
        "seeded provider conversations (1–6 turns, 0–5 function calls per turn emitted through added/delta/done \
         items in interleaved or shuffled order, missing item ids, repeated done events, shared call ids, \
         added-never-done, [DONE]-less turns, malformed/schema-invalid events, endless tool requests) × tool_choice \
         (auto, none, required, function:X, allowed_tools lists and modes) × history mode × route (session input, \
         thread message, thread message with override), 13 directed cases first; a case is non-trivial when the \
         provider received ≥1 request and ≥1 completed call was judged; distinct = distinct (route, tool_choice, \
         history mode, per-turn call kinds × emission classes, end reason) shapes",
    );
    r.assume("tools are observed through unique tokens appended to workspace files; a tool with no observable effect (read, unknown tool) is judged through frames and answers only");
    r.assume("what the provider emitted is re-derived from the served bytes: a call is an output_item.done function_call item with a call_id");
    let rt = runtime(4);
    let mut fidelity: BTreeMap<String, u64> = BTreeMap::new();
    let mut pool = Pool::new();

    if let Some(path) = &cfg.replay {
        let doc: Value = std::fs::read(path)
            .ok()
            .and_then(|b| serde_json::from_slice(&b).ok())
            .unwrap_or(Value::Null);
        let seed = doc.get("seed").and_then(|x| x.as_u64()).unwrap_or(cfg.seed);
        let tier = if doc.get("tier").and_then(|x| x.as_str()) == Some("thorough") { Tier::Thorough } else { Tier::Quick };
        match doc.get("witness").and_then(|w| w.get("case")).and_then(|x| x.as_u64()) {
            Some(idx) => {
                let run = pool.take_run();
                let case = make_case(seed, idx, tier, run);
                one_case(&mut r, &rt, &mut pool, case, seed, &mut fidelity);
            }
            None => r.fatal_inconclusive("replay file has no witness.case"),
        }
        return r.finish(cfg);
    }

    let max_cases = cfg.tier.pick(20_000u64, 10_000_000u64);
    let mut idx = 0u64;
    while idx < max_cases && !r.over(cfg) {
        let i = idx;
        idx += 1;
        if !cfg.mine(i) {
            continue;
        }
        let run = pool.take_run();
        let case = make_case(cfg.seed, i, cfg.tier, run);
        one_case(&mut r, &rt, &mut pool, case, cfg.seed, &mut fidelity);
    }
    r.note(
        "config_fidelity",
        json!({
            "what": "requests whose declared tool_choice differs from the engine-level configured one, by route \
                     (the thread route rebuilds the provider config with tool_choice=auto whenever a config is \
                     resolved from files/env/overrides — server.rs thread_post_message); execution is judged \
                     against the declared choice",
            "declared_differs_from_configured": fidelity,
        }),
    );
    if r.counters.get("calls_judged").copied().unwrap_or(0) == 0 && r.evaluations > 0 {
        r.fatal_inconclusive("no completed provider call was ever judged");
    }
    drop(pool);
    drop(rt);
    r.finish(cfg)
}

fn read_from(path: &std::path::Path, offset: u64) -> Vec<u8> {
    use std::io::{Read, Seek, SeekFrom};
    let mut out = Vec::new();
    if let Ok(mut f) = std::fs::File::open(path) {
        if f.seek(SeekFrom::Start(offset)).is_ok() {
            let _ = f.read_to_end(&mut out);
        }
    }
    out
}

fn input_items(body: &Value) -> Vec<Value> {
    match body.get("input") {
        Some(Value::String(s)) => vec![json!({"type":"message","role":"user","content":s})],
        Some(Value::Array(a)) => a.clone(),
        _ => Vec::new(),
    }
}

fn is_followup_msg(item: &Value, followup: &Option<String>) -> bool {
    match followup {
        Some(f) => {
            item.get("role").and_then(|x| x.as_str()) == Some("user")
                && item.get("content").and_then(|x| x.as_str()) == Some(f.as_str())
        }
        None => false,
    }
}

struct Outcome {
    session_id: String,
    ended: bool,
    post_status: u16,
}

async fn drive(app: &App, store: &Store, case: &Case, endpoint: &str, watchdog: Duration, offset: u64) -> Outcome {
    let prompt = format!("Do the scripted work. {}", mark_prompt(case.run));
    let mut session_id = String::new();
    let mut status = 0u16;
    match case.route {
        Route::Session => {
            let (st, v) = app.json("POST", "/sessions", None).await;
            if st == 201 {
                session_id = v.get("session_id").and_then(|x| x.as_str()).unwrap_or("").to_string();
                let (st2, _) = app
                    .json("POST", &format!("/sessions/{session_id}/input"), Some(&json!({"input": prompt})))
                    .await;
                status = st2;
            }
        }
        Route::ThreadEngine | Route::ThreadOverride => {
            let (_, v) = app.json("POST", "/threads/ensure", None).await;
            let tid = v.get("thread_id").and_then(|x| x.as_str()).unwrap_or("").to_string();
            let mut body = json!({"content": prompt});
            if case.route == Route::ThreadOverride {
                let mut o = json!({
                    "endpoint": endpoint, "model": "m-override",
                    "stateless_history": case.stateless, "parallel_tool_calls": case.parallel,
                });
                if let Some(f) = &case.followup {
                    o["followup_user_message"] = json!(f);
                }
                body["openresponses"] = o;
            }
            let (st, v) = app.json("POST", &format!("/threads/{tid}/messages"), Some(&body)).await;
            status = st;
            session_id = v.get("session_id").and_then(|x| x.as_str()).unwrap_or("").to_string();
        }
    }
    if status != 202 || session_id.is_empty() {
        return Outcome { session_id, ended: false, post_status: status };
    }
    let log_path = store.log_path();
    let needle_sid = format!("\"{session_id}\"");
    let thread = case.route != Route::Session;
    let ended = wait_for(watchdog, || {
        let bytes = read_from(&log_path, offset);
        let text = String::from_utf8_lossy(&bytes);
        let ty = if thread { "\"type\":\"continuity_run_ended\"" } else { "\"type\":\"session_ended\"" };
        if text.lines().any(|l| l.contains(ty) && l.contains(&needle_sid)) {
            Some(())
        } else {
            None
        }
    })
    .await
    .is_some();
    Outcome { session_id, ended, post_status: status }
}

fn one_case(
    r: &mut Report,
    rt: &tokio::runtime::Runtime,
    pool: &mut Pool,
    case: Case,
    seed: u64,
    fidelity: &mut BTreeMap<String, u64>,
) {
    pool.scripted.set_run(case.run, case.turns.clone());
    let slot = match pool.app_for(&case) {
        Ok(i) => i,
        Err(e) => {
            r.inconclusive(&format!("case {}: engine open failed: {e}", case.idx));
            return;
        }
    };
    let endpoint = pool.scripted.provider.endpoint();
    let offset = std::fs::metadata(pool.apps[slot].store.log_path()).map(|m| m.len()).unwrap_or(0);
    let served_from = pool.scripted.served_len();
    let watchdog = Duration::from_secs(if case.forever { 40 } else { 20 });
    let out = rt.block_on(drive(&pool.apps[slot].app, &pool.apps[slot].store, &case, &endpoint, watchdog, offset));
    if out.post_status != 202 {
        r.inconclusive(&format!("case {}: post not accepted (status {})", case.idx, out.post_status));
        pool.apps.remove(slot);
        return;
    }
    if !out.ended {
        r.inconclusive(&format!(
            "case {} ({}): run did not end within the watchdog ({} provider requests for it so far)",
            case.idx,
            case.directed.unwrap_or("random"),
            pool.scripted.requests_of(case.run).len()
        ));
        pool.apps.remove(slot); // never reuse an engine with a run possibly still in flight
        return;
    }
    let log_tail = read_from(&pool.apps[slot].store.log_path(), offset);
    let ws = pool.apps[slot].store.ws.clone();
    judge(r, &log_tail, &ws, &pool.scripted, served_from, &case, &out.session_id, seed, fidelity);
    // the scripts of this run are not needed any more
    pool.scripted.scripts.lock().unwrap().remove(&case.run);
}

fn shape_of(case: &Case, reason: &str, n_requests: usize) -> String {
    let mut s = format!(
        "{}|{}|{}|req{}|{}|",
        case.route.label(),
        case.choice_label,
        if case.stateless { "stateless" } else { "prev_id" },
        n_requests.min(40),
        reason
    );
    for t in case.turns.iter().take(8) {
        let mut parts: Vec<String> = t
            .calls
            .iter()
            .map(|c| format!("{:?}/{}", c.kind, c.class()))
            .collect();
        parts.sort();
        s.push_str(&format!("[{};{}]", parts.join(","), t.fault.class()));
    }
    s
}

#[allow(clippy::too_many_arguments)]
fn judge(
    r: &mut Report,
    log_tail: &[u8],
    ws_root: &std::path::Path,
    scripted: &Scripted,
    served_from: usize,
    case: &Case,
    sid: &str,
    seed: u64,
    fidelity: &mut BTreeMap<String, u64>,
) {
    let idx = case.idx;
    let witness = |detail: Value| {
        json!({
            "case": idx, "seed": seed, "directed": case.directed, "route": case.route.label(),
            "tool_choice": case.choice.value(), "stateless_history": case.stateless,
            "followup_user_message": case.followup, "turns": case.turns.len(),
            "script_turn0": case.turns.first().map(|t| String::from_utf8_lossy(&t.body[..t.body.len().min(6000)]).to_string()),
            "script_calls": case.turns.iter().take(8).map(|t| json!({
                "fault": t.fault.class(),
                "calls": t.calls.iter().map(|c| json!({"call_id": c.call_id, "name": c.name, "kind": format!("{:?}", c.kind),
                    "emission": format!("{:?}", c.emission), "output_index": c.output_index, "args": c.args})).collect::<Vec<_>>(),
            })).collect::<Vec<_>>(),
            "detail": detail,
        })
    };
    let frames = match truth::parse_log(log_tail) {
        Ok(f) => f,
        Err(e) => {
            r.inconclusive(&format!("case {idx}: log unreadable: {}", e.detail));
            return;
        }
    };
    let sess: Vec<&truth::Frame> = truth::stream(&frames, "session", sid);
    let reason = sess
        .iter()
        .rev()
        .find(|f| f.ty() == "session_ended")
        .map(|f| f.s("reason").to_string())
        .unwrap_or_default();
    // everything the provider received during this case (cases run one at a time)
    let arrived = scripted.since(served_from);
    let all_requests: Vec<crate::provider::Recorded> = arrived.iter().map(|(_, q)| q.clone()).collect();
    let requests: Vec<(u32, crate::provider::Recorded)> = arrived
        .iter()
        .filter(|(s, _)| s.run == Some(case.run))
        .map(|(s, q)| (s.turn.unwrap_or(0), q.clone()))
        .collect();
    r.eval();
    r.count("provider_requests", all_requests.len() as u64);
    r.count(&format!("route_{}", case.route.label()), 1);
    r.count(&format!("end_reason_{reason}"), 1);
    let ws = workspace_text(ws_root);
    let occurrences = |tok: &str| ws.matches(tok).count();
    let configured = case.choice.value().clone();

    // ---- A. every body the provider received is a valid CreateResponse body
    let mut bodies: Vec<Value> = Vec::new();
    for rec in &all_requests {
        let Some(body) = rec.json() else {
            r.violation(
                "C16/request_body_not_json",
                "the provider received a request body that is not JSON",
                witness(json!({"request_index": rec.index, "body": String::from_utf8_lossy(&rec.body[..rec.body.len().min(400)])})),
            );
            return;
        };
        // the same demand judged without the repository's validator: value constraints of the request schema
        // (schemas/openresponses/openapi.json: FunctionCallItemParam / FunctionCallOutputItemParam) on the items
        // the tool loop builds from what the provider streamed
        let own = independent_item_errors(&body);
        r.count("request_items_checked_against_schema_constraints", own.1);
        if !own.0.is_empty() {
            r.violation(
                "C16/schema_invalid_request_body_sent",
                &format!("a request whose input items violate the request schema's value constraints was sent: {}", own.0.join("; ")),
                witness(json!({"request_index": rec.index, "errors": own.0, "body": body})),
            );
        }
        if let Err(errs) = rip_openresponses::validate_create_response_body(&body) {
            r.violation(
                "C16/invalid_request_body_sent",
                &format!("a request that fails rip_openresponses::validate_create_response_body was sent: {}", errs.join("; ")),
                witness(json!({"request_index": rec.index, "errors": errs, "body": body})),
            );
        }
        bodies.push(body);
    }
    r.count("request_bodies_validated", bodies.len() as u64);

    if let Some((sv, rec)) = arrived.iter().find(|(s, _)| s.run != Some(case.run)) {
        r.violation(
            "C16/unexpected_request_sequence",
            "the provider received a request that carries neither this run's prompt nor answers to one of its responses",
            witness(json!({"request_index": rec.index, "routed_run": sv.run, "routed_turn": sv.turn,
                           "body": rec.json()})),
        );
        return;
    }
    // ---- B. the run asks for turn 0,1,2,… once each
    for (pos, (turn, rec)) in requests.iter().enumerate() {
        if *turn as usize != pos {
            r.violation(
                "C16/unexpected_request_sequence",
                &format!("request #{pos} of the run carries the answers/markers of turn {} (expected turn {pos})", *turn as i64 - 1),
                witness(json!({"position": pos, "routed_turn": turn, "request_index": rec.index,
                               "routing": requests.iter().map(|(t, q)| json!([q.index, t])).collect::<Vec<_>>()})),
            );
            return;
        }
    }

    // ---- G. invalid_request gate
    let started_frames = sess.iter().filter(|f| f.ty() == "openresponses_request_started").count();
    let invalid_pos = sess.iter().position(|f| {
        f.ty() == "provider_event"
            && f.v.get("raw").map(|x| x.is_string()).unwrap_or(false)
            && f.v.get("data").map(|x| x.is_null()).unwrap_or(true)
            && f.s("status") == "event"
            && f.v.get("errors").and_then(|x| x.as_array()).map(|a| !a.is_empty()).unwrap_or(false)
    });
    if let Some(p) = invalid_pos {
        r.count("invalid_request_gates_seen", 1);
        let later_start = sess[p + 1..].iter().any(|f| f.ty() == "openresponses_request_started");
        if later_start || requests.len() > started_frames {
            r.violation(
                "C16/request_sent_after_invalid_request",
                "a provider request was started after the run had logged an invalid_request frame",
                witness(json!({"requests_received": requests.len(), "request_started_frames": started_frames})),
            );
        }
        if reason != "invalid_request" {
            r.violation(
                "C16/invalid_request_not_terminal",
                &format!("the run logged an invalid request frame but ended with reason {reason:?}"),
                witness(json!({"reason": reason})),
            );
        }
        // the refused body really is invalid (cross-check of the gate itself)
        if let Some(raw) = sess[p].v.get("raw").and_then(|x| x.as_str()) {
            if let Ok(b) = serde_json::from_str::<Value>(raw) {
                if rip_openresponses::validate_create_response_body(&b).is_ok() {
                    r.count("invalid_request_gate_refused_valid_body", 1);
                }
            }
        }
    }
    if requests.len() > started_frames {
        r.violation(
            "C16/request_without_started_frame",
            &format!("the provider received {} requests but the session logged {started_frames} request_started frames", requests.len()),
            witness(json!({"requests": requests.len(), "frames": started_frames})),
        );
    }

    // ---- C. declared tool_choice
    let mut declared: Vec<Value> = Vec::new();
    for (_, rec) in &requests {
        let body = rec.json().unwrap_or(Value::Null);
        let d = body.get("tool_choice").cloned().unwrap_or(Value::Null);
        if d != configured {
            *fidelity.entry(case.route.label().to_string()).or_insert(0) += 1;
            if case.route != Route::ThreadOverride {
                r.violation(
                    &format!("C16/declared_tool_choice_differs_from_configured/{}", case.route.label()),
                    &format!("request declares tool_choice {d} but the engine was configured with {configured}"),
                    witness(json!({"declared": d, "configured": configured, "request_index": rec.index})),
                );
            }
        }
        declared.push(d);
    }

    // ---- D. per turn: executed at most once, answered exactly once, in order, never barred
    let tool_started = sess.iter().filter(|f| f.ty() == "tool_started").count();
    let mut landed_total = 0usize;
    let mut judged_calls = 0u64;
    for (i, turn) in case.turns.iter().enumerate() {
        if i >= requests.len() {
            break; // this turn was never requested
        }
        let emitted = turn.emitted();
        let decl = &declared[i];
        // effects
        for c in &turn.calls {
            let Some(tok) = &c.token else { continue };
            let n = occurrences(tok);
            landed_total += n;
            if n > 1 {
                r.violation(
                    &format!("C16/call_handled_more_than_once/{}", c.class()),
                    &format!(
                        "one provider call (tool {}) was executed {n} times: its unique token is in the workspace {n} times",
                        c.name
                    ),
                    witness(json!({"turn": i, "call_id": c.call_id, "token": tok, "occurrences": n, "emission": format!("{:?}", c.emission)})),
                );
            }
            if n > 0 && !choice_allows(decl, &c.name) {
                r.violation(
                    &format!("C16/barred_tool_executed/{}", case.choice_label),
                    &format!("tool {} ran although the request declared tool_choice {decl}", c.name),
                    witness(json!({"turn": i, "call_id": c.call_id, "token": tok, "declared": decl})),
                );
            }
            if n > 0 {
                r.count("calls_executed_tokens_seen", n as u64);
            }
        }
        if emitted.is_empty() {
            continue;
        }
        judged_calls += emitted.len() as u64;
        for e in &emitted {
            if let Some(c) = turn.spec_for(&e.call_id) {
                r.count(&format!("emission_{}", c.class()), 1);
            }
            if !choice_allows(decl, &e.name) {
                r.count("calls_barred_by_declared_choice", 1);
            }
        }
        let next = requests.get(i + 1);
        let Some((_, next_rec)) = next else {
            // nothing answered: must be excused
            let excused = match reason.as_str() {
                "max_tool_calls_exceeded" => tool_started >= MAX_TOOL_CALLS,
                "invalid_request" => invalid_pos.is_some(),
                "provider_error" => {
                    turn.fault.is_transport() || (turn.response_id.is_none() && !case.stateless) || {
                        // the follow-up request itself failed on the wire before reaching the provider
                        sess.iter().filter(|f| f.ty() == "openresponses_request_started").count() > requests.len()
                    }
                }
                _ => false,
            };
            if !excused {
                let class = turn.spec_for(&emitted[0].call_id).map(|c| c.class()).unwrap_or("unknown");
                r.violation(
                    &format!("C16/calls_never_answered/{}/{class}", if reason.is_empty() { "no_reason" } else { reason.as_str() }),
                    &format!(
                        "turn {i} emitted {} completed call(s) but no follow-up request arrived; run ended with {reason:?}",
                        emitted.len()
                    ),
                    witness(json!({"turn": i, "emitted": emitted.iter().map(|e| e.call_id.clone()).collect::<Vec<_>>(), "reason": reason})),
                );
            }
            continue;
        };
        let next_body = next_rec.json().unwrap_or(Value::Null);
        let items = input_items(&next_body);
        // the part of the input that is new in this request
        let new_items: Vec<Value> = if case.stateless {
            let prev = input_items(&requests[i].1.json().unwrap_or(Value::Null));
            let mut prev_len = prev.len();
            if prev_len > 0 && is_followup_msg(&prev[prev_len - 1], &case.followup) && i > 0 {
                prev_len -= 1;
            }
            items.iter().skip(prev_len.min(items.len())).cloned().collect()
        } else {
            items.clone()
        };
        let answers: Vec<(String, Value)> = new_items
            .iter()
            .filter(|it| it.get("type").and_then(|x| x.as_str()) == Some("function_call_output"))
            .map(|it| {
                let cid = it.get("call_id").and_then(|x| x.as_str()).unwrap_or("").to_string();
                let out = it
                    .get("output")
                    .and_then(|x| x.as_str())
                    .and_then(|s| serde_json::from_str::<Value>(s).ok())
                    .unwrap_or(Value::Null);
                (cid, out)
            })
            .collect();
        r.count("answers_checked", answers.len() as u64);
        let emitted_ids: Vec<&str> = emitted.iter().map(|e| e.call_id.as_str()).collect();
        for e in &emitted {
            let n_ans = answers.iter().filter(|(c, _)| c == &e.call_id).count();
            let class = turn.spec_for(&e.call_id).map(|c| c.class()).unwrap_or("unknown");
            if n_ans > 1 {
                r.violation(
                    &format!("C16/call_handled_more_than_once/{class}"),
                    &format!(
                        "call id answered {n_ans} times in the follow-up request ({} output_item.done events were served for it)",
                        e.done_events
                    ),
                    witness(json!({"turn": i, "call_id": e.call_id, "answers": n_ans, "done_events": e.done_events,
                                   "answer_ids": answers.iter().map(|(c, _)| c.clone()).collect::<Vec<_>>()})),
                );
            } else if n_ans == 0 {
                r.violation(
                    &format!("C16/call_not_answered/{class}"),
                    "a completed provider call has no function_call_output in the very next request",
                    witness(json!({"turn": i, "call_id": e.call_id,
                                   "answer_ids": answers.iter().map(|(c, _)| c.clone()).collect::<Vec<_>>()})),
                );
            }
        }
        // a barred call is answered with an error output (judged per answer, by the tool the answer names)
        for (cid, out) in &answers {
            let name = out
                .get("tool")
                .and_then(|x| x.as_str())
                .map(|s| s.to_string())
                .or_else(|| emitted.iter().find(|e| &e.call_id == cid).map(|e| e.name.clone()))
                .unwrap_or_default();
            if !choice_allows(decl, &name) && out.get("ok").and_then(|x| x.as_bool()) != Some(false) {
                r.violation(
                    &format!("C16/barred_call_not_answered_with_error/{}", case.choice_label),
                    "a call barred by the declared tool_choice was not answered with an error output",
                    witness(json!({"turn": i, "call_id": cid, "output": out, "declared": decl})),
                );
            }
        }
        for (cid, out) in &answers {
            if !emitted_ids.contains(&cid.as_str()) {
                r.violation(
                    "C16/answer_for_unemitted_call",
                    "the follow-up request answers a call id the previous response never completed",
                    witness(json!({"turn": i, "call_id": cid, "emitted": emitted_ids})),
                );
            }
            // truthful answer: ok:true for a token-writing call implies the token is there
            if out.get("ok").and_then(|x| x.as_bool()) == Some(true) {
                let specs: Vec<&CallSpec> = turn.calls.iter().filter(|c| &c.call_id == cid).collect();
                let args_well_defined = !(turn.shuffled && specs.iter().any(|c| c.emission == Emission::DeltasOnly));
                if specs.len() == 1 && args_well_defined {
                    if let Some(tok) = &specs[0].token {
                        if matches!(specs[0].kind, CallKind::WriteAppend | CallKind::BashEcho | CallKind::LongCallId)
                            && occurrences(tok) == 0
                        {
                            r.violation(
                                "C16/answer_ok_without_effect",
                                "a call was answered ok:true but its effect is not in the workspace",
                                witness(json!({"turn": i, "call_id": cid, "token": tok})),
                            );
                        }
                    }
                }
            }
        }
        // order, judged on the call ids that are unambiguous (emitted by exactly one item)
        let unambiguous: HashSet<&str> = emitted
            .iter()
            .filter(|e| turn.calls.iter().filter(|c| c.call_id == e.call_id && c.emission != Emission::AddedOnly).count() == 1)
            .map(|e| e.call_id.as_str())
            .collect();
        let want: Vec<&str> = emitted_ids.iter().copied().filter(|c| unambiguous.contains(c)).collect();
        let mut seen: HashSet<&str> = HashSet::new();
        let got: Vec<&str> = answers
            .iter()
            .map(|(c, _)| c.as_str())
            .filter(|c| unambiguous.contains(c) && seen.insert(c))
            .collect();
        if got.len() == want.len() && got != want {
            r.violation(
                "C16/answers_out_of_output_order",
                "function_call_output items are not in the provider's output_index order",
                witness(json!({"turn": i, "want": want, "got": got})),
            );
        }
        // continuity of the conversation
        if !case.stateless {
            let prev = next_body.get("previous_response_id").and_then(|x| x.as_str());
            if turn.response_id.is_none() && prev.is_some() {
                // the response carried no id: the engine chains the answers to an older response
                r.count("followup_chained_to_older_response_id(response_without_id)", 1);
            }
            if let Some(rid) = &turn.response_id {
                if prev != Some(rid.as_str()) {
                    r.violation(
                        "C16/followup_previous_response_id_mismatch",
                        "the follow-up request does not point at the response that emitted the calls",
                        witness(json!({"turn": i, "want": rid, "got": prev})),
                    );
                }
            }
        }
    }
    r.count("calls_judged", judged_calls);

    // ---- E. stateless history: each input extends the previous one
    if case.stateless {
        for w in requests.windows(2) {
            let a = input_items(&w[0].1.json().unwrap_or(Value::Null));
            let b = input_items(&w[1].1.json().unwrap_or(Value::Null));
            let strict = b.len() >= a.len() && a.iter().zip(b.iter()).all(|(x, y)| x == y);
            let mut a2 = a.clone();
            if let Some(last) = a2.last() {
                if is_followup_msg(last, &case.followup) {
                    a2.pop();
                }
            }
            let lenient = b.len() >= a2.len() && a2.iter().zip(b.iter()).all(|(x, y)| x == y);
            r.count("stateless_prefix_pairs_checked", 1);
            if !lenient {
                r.violation(
                    "C16/stateless_input_not_extension",
                    "in stateless-history mode a request's input does not have the previous request's input as a prefix",
                    witness(json!({"prev_len": a.len(), "next_len": b.len(), "request_index": w[1].1.index})),
                );
            } else if !strict {
                // ADR-0005: the follow-up user message is appended after the tool outputs of each
                // follow-up and is not part of the accumulated history
                r.count("stateless_prefix_holds_only_modulo_followup_user_message", 1);
            }
        }
    } else {
        // previous_response_id mode: a follow-up carries only answers (+ optional follow-up message)
        for (pos, (_, rec)) in requests.iter().enumerate().skip(1) {
            let items = input_items(&rec.json().unwrap_or(Value::Null));
            let foreign = items
                .iter()
                .filter(|it| {
                    it.get("type").and_then(|x| x.as_str()) != Some("function_call_output")
                        && !is_followup_msg(it, &case.followup)
                })
                .count();
            if foreign > 0 {
                r.count("followup_with_extra_items", 1);
            }
            let _ = pos;
        }
    }

    // ---- F. bound
    if tool_started > MAX_TOOL_CALLS || landed_total > MAX_TOOL_CALLS {
        r.violation(
            "C16/tool_call_bound_exceeded",
            &format!("{tool_started} tool_started frames / {landed_total} executed effects in one run (bound {MAX_TOOL_CALLS})"),
            witness(json!({"tool_started": tool_started, "effects": landed_total})),
        );
    }
    if case.forever {
        r.count("endless_provider_runs", 1);
        if reason != "max_tool_calls_exceeded" {
            r.violation(
                "C16/endless_provider_not_stopped",
                &format!("a provider that always asks for tools ended the run with {reason:?} instead of max_tool_calls_exceeded"),
                witness(json!({"reason": reason, "requests": requests.len(), "tool_started": tool_started})),
            );
        }
        if requests.len() > MAX_TOOL_CALLS + 1 {
            r.violation(
                "C16/tool_call_bound_exceeded",
                &format!("{} requests were sent to a provider that always asks for tools", requests.len()),
                witness(json!({"requests": requests.len()})),
            );
        }
    }
    r.count("tool_started_frames", tool_started as u64);

    if !requests.is_empty() && judged_calls > 0 {
        r.distinct_str(&shape_of(case, &reason, requests.len()));
    }
    if r.samples.len() < r.max_samples && (case.directed.is_none() || idx == 0) {
        let mut kinds: HashMap<String, u32> = HashMap::new();
        for t in &case.turns {
            for c in &t.calls {
                *kinds.entry(format!("{:?}/{}", c.kind, c.class())).or_insert(0) += 1;
            }
        }
        r.sample(json!({
            "case": idx, "directed": case.directed, "route": case.route.label(), "tool_choice": case.choice_label,
            "stateless_history": case.stateless, "scripted_turns": case.turns.len().min(40), "calls": kinds,
            "requests_received": requests.len(), "tool_started_frames": tool_started, "effects_in_workspace": landed_total,
            "end_reason": reason,
        }));
    }
}


/// Value constraints of the CreateResponse request schema on tool-loop items, written down here from
/// `schemas/openresponses/openapi.json` so that they do not depend on `rip_openresponses`' validator:
/// `call_id` 1..=64 characters on function_call and function_call_output items; function_call `name`
/// 1..=64 characters of `[a-zA-Z0-9_-]`; a string `output` of at most 10 485 760 characters.
/// Returns (errors, items looked at).
fn independent_item_errors(body: &Value) -> (Vec<String>, u64) {
    let mut errs = Vec::new();
    let mut n = 0u64;
    let Some(items) = body.get("input").and_then(|x| x.as_array()) else {
        return (errs, n);
    };
    for (i, it) in items.iter().enumerate() {
        let ty = it.get("type").and_then(|x| x.as_str()).unwrap_or("");
        if ty != "function_call" && ty != "function_call_output" {
            continue;
        }
        n += 1;
        match it.get("call_id").and_then(|x| x.as_str()) {
            Some(c) => {
                let len = c.chars().count();
                if !(1..=64).contains(&len) {
                    errs.push(format!("input[{i}] ({ty}): call_id has {len} characters, schema allows 1..=64"));
                }
            }
            None => errs.push(format!("input[{i}] ({ty}): call_id missing or not a string")),
        }
        if ty == "function_call" {
            match it.get("name").and_then(|x| x.as_str()) {
                Some(nm) => {
                    let len = nm.chars().count();
                    let pat = nm.chars().all(|c| c.is_ascii_alphanumeric() || c == '_' || c == '-');
                    if !(1..=64).contains(&len) || !pat {
                        errs.push(format!("input[{i}] (function_call): name {:?} violates ^[a-zA-Z0-9_-]+$ / 1..=64", nm.chars().take(80).collect::<String>()));
                    }
                }
                None => errs.push(format!("input[{i}] (function_call): name missing or not a string")),
            }
            if !it.get("arguments").map(|x| x.is_string()).unwrap_or(false) {
                errs.push(format!("input[{i}] (function_call): arguments missing or not a string"));
            }
        } else if let Some(o) = it.get("output").and_then(|x| x.as_str()) {
            if o.chars().count() > 10_485_760 {
                errs.push(format!("input[{i}] (function_call_output): output longer than 10485760 characters"));
            }
        }
    }
    (errs, n)
}
