//! Helper sub-commands run as child processes of monitors.

/// Returns Some(exit code) when `cmd` is a helper.
pub fn dispatch(cmd: &str, args: &[String]) -> Option<i32> {
    match cmd {
        "provider" => Some(crate::provider::standalone(args)),
        "c13-child" => Some(crate::c13::child_main(args)),
        "emit" => Some(crate::c17::emit_main(args)),
        "mark" => Some(crate::c11::mark_helper(args)),
        "fakeauth" => Some(crate::c20::fakeauth::standalone(args)),
        _ => None,
    }
}
