//! Helper sub-commands run as child processes of monitors.

/// Returns Some(exit code) when `cmd` is a helper.
pub fn dispatch(cmd: &str, _args: &[String]) -> Option<i32> {
    match cmd {
        _ => None,
    }
}
