//! C01 — per-stream total order (seq 0,1,2,… in file order) under any schedule.
//!
//! Many short concurrent histories: N actor threads hammer 1–4 continuities through the real
//! `ContinuityStore` while sessions (tool envelopes / stub prompts) and background tasks run
//! through the real router. Seeded noise at the hook points inside the seq→append window
//! widens the race. After quiescence (and across a restart) the log is judged by the repo's
//! own validator, by an independent parser, by exactly-once of acknowledged ids, and by
//! sidecar == log-filtered.

use crate::fixture::{runtime, wait_for, App, Store};
use crate::gen_hist::{default_weights, exec, pick_kind, Known, OpKind};
use crate::prng::Rng;
use crate::report::{Cfg, Report};
use crate::sched::{sched, Sched};
use crate::truth;
use serde_json::{json, Value};
use std::collections::HashMap;
use std::sync::{Arc, Mutex};
use std::time::Duration;

pub fn run(cfg: &Cfg) -> i32 {
    let mut r = Report::new(
        "C01",
        "exploration",
        "seeded concurrent histories (2–16 actor threads over 1–4 continuities + sessions + tasks via the router, \
         noise delays at log.append.* / cont.cache.* / *.emit.* hook points, 0–1 restarts); a case is non-trivial \
         when ≥2 threads appended to one continuity; distinct = distinct interleaving signatures of the recorded \
         hook-point sequence",
    );
    r.assume("hook points do not change behaviour beyond timing");
    r.assume("schedules are those the OS scheduler + injected delays produce (not exhaustive)");
    let s = sched();
    let rt = runtime(8);
    let mut case = 0u64;
    let max_cases = cfg.tier.pick(400u64, 1_000_000u64);
    while case < max_cases && !r.over(cfg) {
        let idx = case;
        case += 1;
        if !cfg.mine(idx) {
            continue;
        }
        let mut rng = cfg.case_rng(idx);
        one_history(cfg, &mut r, &s, &rt, &mut rng, idx);
    }
    s.reset();
    drop(rt);
    r.finish(cfg)
}

struct Shared {
    conts: Mutex<Vec<String>>,
    acked: Mutex<Vec<String>>,
}

fn one_history(cfg: &Cfg, r: &mut Report, s: &Arc<Sched>, rt: &tokio::runtime::Runtime, rng: &mut Rng, idx: u64) {
    let store = Store::new("c01");
    let threads = match rng.below(4) {
        0 => 2,
        1 => 3 + rng.usize(3),
        2 => 4 + rng.usize(5),
        _ => 8 + rng.usize(9),
    };
    let ops_per = 8 + rng.usize(cfg.tier.pick(25, 60));
    let n_conts = 1 + rng.usize(4);
    let n_sessions = rng.usize(4);
    let n_tasks = rng.usize(3);
    let restart = rng.chance(1, 3);
    let noise_us = [0u64, 300, 1500, 3000][rng.usize(4)];

    s.reset();
    s.record(true, &["log.append.locked", "cont.cache.enter", "cont.cache.exit"]);
    s.set_noise(
        rng.next_u64(),
        &[
            ("log.append.enter", noise_us),
            ("log.append.locked", noise_us / 4),
            ("log.append.after_body", noise_us / 4),
            ("cont.cache.enter", noise_us),
            ("cache.sidecar.written", noise_us / 2),
            ("cont.cache.exit", noise_us),
            ("task.emit.*", noise_us / 2),
            ("session.emit.*", noise_us / 2),
        ],
    );

    let shared = Arc::new(Shared {
        conts: Mutex::new(Vec::new()),
        acked: Mutex::new(Vec::new()),
    });
    let mut phases = 0;
    let mut desc_ops: HashMap<OpKind, u64> = HashMap::new();
    let mut failed = false;
    let total_phases = if restart { 2 } else { 1 };
    while phases < total_phases {
        phases += 1;
        let app = match App::open(&store, None) {
            Ok(a) => a,
            Err(e) => {
                r.violation(
                    "C01/engine_open_failed_after_restart",
                    &format!("engine could not be opened on the store: {e}"),
                    json!({"case": idx, "phase": phases, "error": e}),
                );
                failed = true;
                break;
            }
        };
        // continuities: default + branches
        {
            let mut conts = shared.conts.lock().unwrap();
            if conts.is_empty() {
                let st = app.store();
                let c0 = st.ensure_default().expect("ensure_default");
                conts.push(c0.clone());
                for i in 1..n_conts {
                    if let Ok((child, _, _)) =
                        st.branch(&c0, Some(format!("b{i}")), None, None, "rv".into(), "rv".into())
                    {
                        conts.push(child);
                    }
                }
            }
        }
        // actors
        let mut handles = Vec::new();
        for t in 0..threads {
            let app = app.clone();
            let shared = shared.clone();
            let data = store.data.clone();
            let mut trng = Rng::derive(rng.next_u64(), t as u64);
            let tag = format!("h{idx}p{phases}t{t}");
            // some actors stay on one continuity (max contention), others roam
            let pinned = trng.bool();
            handles.push(std::thread::spawn(move || {
                let mut known = Known::default();
                let weights = default_weights();
                let mut kinds: HashMap<OpKind, u64> = HashMap::new();
                for _ in 0..ops_per {
                    let conts: Vec<String> = {
                        let c = shared.conts.lock().unwrap();
                        if pinned { vec![c[0].clone()] } else { c.clone() }
                    };
                    let kind = pick_kind(&mut trng, &weights);
                    let res = exec(&app, &data, &conts, &mut known, kind, &mut trng, &tag);
                    *kinds.entry(res.kind.unwrap_or(kind)).or_insert(0) += 1;
                    if !res.acked.is_empty() {
                        shared.acked.lock().unwrap().extend(res.acked);
                    }
                    if !res.new_conts.is_empty() {
                        let mut c = shared.conts.lock().unwrap();
                        if c.len() < 8 {
                            c.extend(res.new_conts);
                        }
                    }
                }
                kinds
            }));
        }
        // sessions and tasks through the router, concurrently with the actors
        let c0 = shared.conts.lock().unwrap()[0].clone();
        let app2 = app.clone();
        let mut srng = Rng::derive(rng.next_u64(), 777);
        let router_result = rt.block_on(async move {
            let mut posted: Vec<String> = Vec::new();
            let mut task_ids: Vec<String> = Vec::new();
            let mut joins = Vec::new();
            for i in 0..n_sessions {
                let app = app2.clone();
                let c0 = c0.clone();
                let content = match srng.below(3) {
                    0 => json!({"tool":"write","args":{"path": format!("s{i}.txt"), "content": format!("x{i}")}}).to_string(),
                    1 => json!({"tool":"bash","args":{"command": format!("echo out{i}; echo err{i} 1>&2")}}).to_string(),
                    _ => format!("plain prompt {i}"),
                };
                joins.push(tokio::spawn(async move {
                    let (st, v) = app
                        .json("POST", &format!("/threads/{c0}/messages"), Some(&json!({"content": content})))
                        .await;
                    if st == 202 {
                        v.get("session_id").and_then(|x| x.as_str()).map(|x| x.to_string())
                    } else {
                        None
                    }
                }));
            }
            for i in 0..n_tasks {
                let (st, v) = app2
                    .json(
                        "POST",
                        "/tasks",
                        Some(&json!({"tool":"bash","args":{"command": format!("for k in 1 2 3; do echo o{i}$k; echo e{i}$k 1>&2; done")}})),
                    )
                    .await;
                if st == 201 {
                    if let Some(id) = v.get("task_id").and_then(|x| x.as_str()) {
                        task_ids.push(id.to_string());
                    }
                }
            }
            for j in joins {
                if let Ok(Some(sid)) = j.await {
                    posted.push(sid);
                }
            }
            (posted, task_ids)
        });
        for h in handles {
            if let Ok(k) = h.join() {
                for (kk, n) in k {
                    *desc_ops.entry(kk).or_insert(0) += n;
                }
            }
        }
        // quiescence: all posted runs ended, all tasks terminal
        let (posted, task_ids) = router_result;
        let log_path = store.log_path();
        let app3 = app.clone();
        let quiet = rt.block_on(async {
            let runs_done = wait_for(Duration::from_secs(30), || {
                let bytes = std::fs::read(&log_path).unwrap_or_default();
                let text = String::from_utf8_lossy(&bytes);
                // every run posted through the router must have ITS OWN run_ended line (the last frame a run writes)
                let all = posted.iter().all(|sid| {
                    text.lines().any(|l| l.contains("\"type\":\"continuity_run_ended\"") && l.contains(sid.as_str()))
                });
                if all {
                    Some(())
                } else {
                    None
                }
            })
            .await
            .is_some();
            let mut tasks_done = true;
            for id in &task_ids {
                let mut ok = false;
                for _ in 0..3000 {
                    let (_, v) = app3.json("GET", &format!("/tasks/{id}"), None).await;
                    let st = v.get("status").and_then(|x| x.as_str()).unwrap_or("");
                    if matches!(st, "exited" | "failed" | "cancelled") {
                        ok = true;
                        break;
                    }
                    tokio::time::sleep(Duration::from_millis(5)).await;
                }
                tasks_done &= ok;
            }
            // give trailing run_ended appends (after session_ended) a moment
            tokio::time::sleep(Duration::from_millis(30)).await;
            runs_done && tasks_done
        });
        if !quiet {
            // writers of this engine may still be active: neither judge a log that is still growing nor open a
            // second engine next to a live one (a real store has a single authority)
            r.inconclusive(&format!("case {idx}: runs/tasks did not quiesce within the watchdog"));
            drop(app);
            failed = true;
            break;
        }
        // sometimes the newest frame of a continuity before the restart is larger than every read window
        if phases < total_phases && idx % 2 == 0 {
            let conts = shared.conts.lock().unwrap().clone();
            let mut k = Known::default();
            let mut hrng = Rng::derive(idx, 4242);
            for c in conts.iter().take(2) {
                let res = exec(&app, &store.data, &[c.clone()], &mut k, OpKind::HugeMsg, &mut hrng, &format!("h{idx}huge"));
                shared.acked.lock().unwrap().extend(res.acked);
                r.count("huge_last_frames_before_restart", 1);
            }
        }
        drop(app);
        // judge at every restart boundary
        if judge(r, &store, &shared, idx, phases, threads, noise_us) {
            failed = true;
            break;
        }
    }
    let events = s.take_events();
    s.reset();
    if failed {
        return;
    }
    r.eval();
    // non-trivial: ≥2 threads appended to one continuity
    let mut per_cont: HashMap<&str, std::collections::HashSet<u64>> = HashMap::new();
    for e in &events {
        if e.point == "log.append.locked" {
            per_cont.entry(e.ctx.as_str()).or_default().insert(e.thread);
        }
    }
    let contended = per_cont.values().any(|t| t.len() >= 2);
    if contended {
        r.distinct(Sched::interleaving_signature(&events));
    }
    r.count("hook_events", events.len() as u64);
    r.count("appends_observed", events.iter().filter(|e| e.point == "log.append.locked").count() as u64);
    r.count("restarts", (total_phases - 1) as u64);
    r.count("actor_threads", threads as u64);
    let acked = shared.acked.lock().unwrap().len();
    r.count("acknowledged_ids_checked", acked as u64);
    if r.samples.len() < r.max_samples {
        let ops: Vec<String> = desc_ops.iter().map(|(k, n)| format!("{k:?}x{n}")).collect();
        r.sample(json!({
            "case": idx, "threads": threads, "ops_per_thread": ops_per, "continuities": n_conts,
            "router_sessions": n_sessions, "tasks": n_tasks, "restart": restart, "noise_us": noise_us,
            "ops": ops, "hook_events": events.len(), "acked_ids": acked,
        }));
    }
}

/// Returns true when a violation was reported.
fn judge(r: &mut Report, store: &Store, shared: &Shared, idx: u64, phase: u32, threads: usize, noise_us: u64) -> bool {
    let bytes = store.log_bytes_settled();
    let witness = |extra: Value| {
        json!({"case": idx, "phase": phase, "threads": threads, "noise_us": noise_us, "detail": extra})
    };
    let frames = match truth::parse_log(&bytes) {
        Ok(f) => f,
        Err(e) => {
            r.violation(
                &format!("C01/log_structure/{}", e.kind),
                &format!("event log is not a sequence of whole JSON lines: {}", e.detail),
                witness(json!(e.detail)),
            );
            return true;
        }
    };
    if let Err(e) = truth::check_streams(&frames) {
        r.violation(
            &format!("C01/stream_order/{}", e.kind),
            &format!("per-stream seq not 0,1,2,… in file order: {}", e.detail),
            witness(json!(e.detail)),
        );
        return true;
    }
    // the repo's own validator
    match rip_log::EventLog::new(store.log_path()) {
        Ok(log) => {
            if let Err(e) = log.replay_validated() {
                r.violation(
                    "C01/replay_validated_failed",
                    &format!("EventLog::replay_validated failed: {e}"),
                    witness(json!(e.to_string())),
                );
                return true;
            }
        }
        Err(e) => {
            r.inconclusive(&format!("cannot open log: {e}"));
        }
    }
    // exactly-once of acknowledged ids
    let mut count: HashMap<&str, u32> = HashMap::new();
    for f in &frames {
        *count.entry(f.id()).or_insert(0) += 1;
    }
    for id in shared.acked.lock().unwrap().iter() {
        let n = count.get(id.as_str()).copied().unwrap_or(0);
        if n != 1 {
            r.violation(
                if n == 0 { "C01/acknowledged_append_missing" } else { "C01/acknowledged_append_duplicated" },
                &format!("acknowledged frame id {id} occurs {n} times in the log"),
                witness(json!({"id": id, "occurrences": n})),
            );
            return true;
        }
    }
    // sidecar vs log filtered to the continuity: NOT part of C01's statement (that is C03/C04's subject);
    // recorded as an observation only
    let conts = shared.conts.lock().unwrap().clone();
    for c in conts {
        let in_log: Vec<&truth::Frame> = truth::stream(&frames, "continuity", &c);
        let side_path = store.streams_dir().join(format!("{c}.jsonl"));
        let Ok(side) = std::fs::read(&side_path) else {
            continue;
        };
        match truth::parse_log(&side) {
            Ok(sf) => {
                let same = sf.len() == in_log.len() && sf.iter().zip(in_log.iter()).all(|(a, b)| a.v == b.v);
                r.count(if same { "sidecars_equal_to_log" } else { "sidecars_differing_from_log_observed" }, 1);
            }
            Err(_) => r.count("sidecars_differing_from_log_observed", 1),
        }
    }
    r.count("frames_judged", frames.len() as u64);
    false
}
