//! C01 — per-stream total order (seq 0,1,2,… in file order) under any schedule.
//!
//! Many short concurrent histories: N actor threads hammer 1–4 continuities through the real
//! `ContinuityStore` while sessions (tool envelopes / stub prompts) and background tasks run
//! through the real router. Seeded noise at the hook points inside the seq→append window
//! widens the race. After quiescence (and across a restart) the log is judged by the repo's
//! own validator, by an independent parser, by exactly-once of acknowledged ids, and by
//! sidecar == log-filtered.
//!
//! Session streams under HOSTILE PROVIDER BEHAVIOUR: about half of the histories open the engine
//! with a scripted provider (`c01_provider.rs`), so that prompt runs stream real provider
//! responses — LF / CRLF / mixed framing, comments, multi-line data, tool calls the run executes —
//! that fail in every way a provider connection can fail (reset after k body bytes with k around
//! every event terminator, short Content-Length body, early clean end, HTTP errors, headers only,
//! empty body, no `[DONE]`, not an event stream). A deterministic grid (framing × fault × cut
//! class, one run per cell) runs first on every run; the same oracle judges every log.
//!
//! CACHE STATE AT RESTART: the files under `<data>/continuity_streams/` are rebuildable caches, so the
//! numbering of the truth log must not depend on them. In about two thirds of the histories that
//! restart, the caches of 1..all continuities are damaged while the engine is closed (sidecar loses its
//! last 1–3 whole lines / is cut at an earlier line boundary / emptied / deleted / rolled back to a copy
//! taken mid-history; the same for the seek / message / compaction cache files; the whole directory
//! deleted; `.dirty` markers removed), mostly after the newest frame of the log was given to ANOTHER
//! continuity. The workload then goes on appending to every continuity; only the log is judged.

#[path = "c01_provider.rs"]
mod hostile;

use crate::fixture::{runtime, wait_for, App, Store};
use crate::provider::{Provider, Recorded, Reply};
use crate::gen_hist::{default_weights, exec, pick_kind, Known, OpKind};
use crate::prng::Rng;
use crate::report::{Cfg, Report};
use crate::sched::{sched, Sched};
use crate::truth;
use serde_json::{json, Value};
use std::collections::HashMap;
use std::sync::{Arc, Mutex};
use std::time::{Duration, Instant};

pub fn run(cfg: &Cfg) -> i32 {
    let mut r = Report::new(
        "C01",
        "exploration",
        "seeded concurrent histories (2–16 actor threads over 1–4 continuities + sessions + tasks via the router, \
         noise delays at log.append.* / cont.cache.* / *.emit.* hook points, 0–1 restarts; in about two thirds of the \
         restarts the rebuildable cache files of 1..all continuities are stale / emptied / missing / rolled back when the \
         engine reopens, the newest log frame mostly belonging to another continuity); in about half of the \
         histories the prompt runs talk to a scripted provider whose every reply carries a seeded framing (LF/CRLF/mixed) \
         and a seeded fault (reset at k / short content-length / early end / HTTP error / headers only / empty / no [DONE]), \
         k mostly from the hostile cut set around event terminators; plus a deterministic grid framing × fault × cut class \
         (one provider run per cell); a case is non-trivial when ≥2 threads appended to one continuity (grid cell: the \
         provider served the scripted reply); distinct = distinct interleaving signatures of the recorded hook-point \
         sequence (grid: distinct cells)",
    );
    r.assume("hook points do not change behaviour beyond timing");
    r.assume("schedules are those the OS scheduler + injected delays produce (not exhaustive)");
    let s = sched();
    let rt = runtime(8);
    provider_grid(cfg, &mut r, &s, &rt);
    let mut case = 0u64;
    let max_cases = cfg.tier.pick(400u64, 1_000_000u64);
    while case < max_cases && !r.over(cfg) {
        let idx = case;
        case += 1;
        if !cfg.mine(idx) {
            continue;
        }
        let mut rng = cfg.case_rng(idx);
        one_history(cfg, &mut r, &s, &rt, &mut rng, idx);
    }
    s.reset();
    drop(rt);
    r.finish(cfg)
}

/// replies scripted per history (the provider serves reply `request index % PLAN_LEN`)
const PLAN_LEN: usize = 48;

struct Shared {
    conts: Mutex<Vec<String>>,
    acked: Mutex<Vec<String>>,
}

fn one_history(cfg: &Cfg, r: &mut Report, s: &Arc<Sched>, rt: &tokio::runtime::Runtime, rng: &mut Rng, idx: u64) {
    let t_hist = std::time::Instant::now();
    let store = Store::new("c01");
    let threads = match rng.below(4) {
        0 => 2,
        1 => 3 + rng.usize(3),
        2 => 4 + rng.usize(5),
        _ => 8 + rng.usize(9),
    };
    let ops_per = 8 + rng.usize(cfg.tier.pick(25, 60));
    let n_conts = 1 + rng.usize(4);
    let n_sessions = rng.usize(4);
    let n_tasks = rng.usize(3);
    let restart = rng.chance(1, 3);
    let noise_us = [0u64, 300, 1500, 3000][rng.usize(4)];
    // hostile provider dimension: a stream of its own, so that the histories without provider stay what they were
    let mut prng = cfg.case_rng(idx.wrapping_add(1 << 40));
    let with_provider = prng.bool();
    let n_sessions = if with_provider { 2 + prng.usize(5) } else { n_sessions };
    let plan: Arc<Vec<hostile::Planned>> =
        Arc::new(if with_provider { (0..PLAN_LEN).map(|j| hostile::plan_reply(&mut prng, j)).collect() } else { Vec::new() });
    let provider = if with_provider {
        let plan = plan.clone();
        Some(Provider::start(Arc::new(move |rec: &Recorded| plan[rec.index % plan.len()].reply.clone())))
    } else {
        None
    };
    let pcfg = provider.as_ref().map(|p| hostile::provider_cfg(&p.endpoint()));
    // cache-state-at-restart dimension: a stream of its own as well
    let mut crng = cfg.case_rng(idx.wrapping_add(2 << 40));
    let damage_caches = restart && crng.chance(2, 3);
    let mut cache_copy: HashMap<String, Vec<u8>> = HashMap::new();
    let mut cache_damage: Vec<Value> = Vec::new();
    let mut damaged_conts: Vec<String> = Vec::new();

    s.reset();
    s.record(true, &["log.append.locked", "cont.cache.enter", "cont.cache.exit"]);
    s.set_noise(
        rng.next_u64(),
        &[
            ("log.append.enter", noise_us),
            ("log.append.locked", noise_us / 4),
            ("log.append.after_body", noise_us / 4),
            ("cont.cache.enter", noise_us),
            ("cache.sidecar.written", noise_us / 2),
            ("cont.cache.exit", noise_us),
            ("task.emit.*", noise_us / 2),
            ("task.history.locked", 4000),
            ("session.emit.*", noise_us / 2),
        ],
    );

    let shared = Arc::new(Shared {
        conts: Mutex::new(Vec::new()),
        acked: Mutex::new(Vec::new()),
    });
    let mut phases = 0;
    let mut desc_ops: HashMap<OpKind, u64> = HashMap::new();
    let mut failed = false;
    let total_phases = if restart { 2 } else { 1 };
    while phases < total_phases {
        phases += 1;
        let app = match App::open(&store, pcfg.clone()) {
            Ok(a) => a,
            Err(e) => {
                r.violation(
                    "C01/engine_open_failed_after_restart",
                    &format!("engine could not be opened on the store: {e}"),
                    json!({"case": idx, "phase": phases, "error": e}),
                );
                failed = true;
                break;
            }
        };
        // continuities: default + branches
        {
            let mut conts = shared.conts.lock().unwrap();
            if conts.is_empty() {
                let st = app.store();
                let c0 = st.ensure_default().expect("ensure_default");
                conts.push(c0.clone());
                for i in 1..n_conts {
                    if let Ok((child, _, _)) =
                        st.branch(&c0, Some(format!("b{i}")), None, None, "rv".into(), "rv".into())
                    {
                        conts.push(child);
                    }
                }
            }
        }
        // actors
        let mut handles = Vec::new();
        for t in 0..threads {
            let app = app.clone();
            let shared = shared.clone();
            let data = store.data.clone();
            let mut trng = Rng::derive(rng.next_u64(), t as u64);
            let tag = format!("h{idx}p{phases}t{t}");
            // some actors stay on one continuity (max contention), others roam
            let pinned = trng.bool();
            handles.push(std::thread::spawn(move || {
                let mut known = Known::default();
                let weights = default_weights();
                let mut kinds: HashMap<OpKind, u64> = HashMap::new();
                for _ in 0..ops_per {
                    let conts: Vec<String> = {
                        let c = shared.conts.lock().unwrap();
                        if pinned { vec![c[0].clone()] } else { c.clone() }
                    };
                    let kind = pick_kind(&mut trng, &weights);
                    let res = exec(&app, &data, &conts, &mut known, kind, &mut trng, &tag);
                    *kinds.entry(res.kind.unwrap_or(kind)).or_insert(0) += 1;
                    if !res.acked.is_empty() {
                        shared.acked.lock().unwrap().extend(res.acked);
                    }
                    if !res.new_conts.is_empty() {
                        let mut c = shared.conts.lock().unwrap();
                        if c.len() < 8 {
                            c.extend(res.new_conts);
                        }
                    }
                }
                kinds
            }));
        }
        // sessions and tasks through the router, concurrently with the actors
        let c0 = shared.conts.lock().unwrap()[0].clone();
        let app2 = app.clone();
        let mut srng = Rng::derive(rng.next_u64(), 777);
        let task_stream_attaches = Arc::new(std::sync::atomic::AtomicU64::new(0));
        let tsa = task_stream_attaches.clone();
        let router_result = rt.block_on(async move {
            let task_stream_attaches = tsa;
            let mut posted: Vec<String> = Vec::new();
            let mut task_ids: Vec<String> = Vec::new();
            let mut joins = Vec::new();
            let mut pollers: Vec<tokio::task::JoinHandle<u64>> = Vec::new();
            for i in 0..n_sessions {
                let app = app2.clone();
                let c0 = c0.clone();
                // with a provider most inputs are prompts (they reach the provider); tool envelopes never do
                let input_kind = if with_provider && srng.chance(2, 3) { 2 } else { srng.below(3) };
                let content = match input_kind {
                    0 => json!({"tool":"write","args":{"path": format!("s{i}.txt"), "content": format!("x{i}")}}).to_string(),
                    1 => json!({"tool":"bash","args":{"command": format!("echo out{i}; echo err{i} 1>&2")}}).to_string(),
                    _ => format!("plain prompt {i}"),
                };
                joins.push(tokio::spawn(async move {
                    let (st, v) = app
                        .json("POST", &format!("/threads/{c0}/messages"), Some(&json!({"content": content})))
                        .await;
                    if st == 202 {
                        v.get("session_id").and_then(|x| x.as_str()).map(|x| x.to_string())
                    } else {
                        None
                    }
                }));
            }
            for i in 0..n_tasks {
                let (st, v) = app2
                    .json(
                        "POST",
                        "/tasks",
                        // every other task: the command exits at once, a descendant keeps both pipes and writes to both
                        // streams for ~1.2 s (pumps that outlive the process, emitting next to each other)
                        Some(&json!({"tool":"bash","args":{"command": if i % 2 == 1 {
                            format!("(for k in $(seq 1 40); do echo lo{i}$k; echo le{i}$k 1>&2; sleep 0.02; done) & echo first{i}")
                        } else {
                            format!("for k in 1 2 3; do echo o{i}$k; echo e{i}$k 1>&2; done")
                        }}})),
                    )
                    .await;
                if st == 201 {
                    if let Some(id) = v.get("task_id").and_then(|x| x.as_str()) {
                        task_ids.push(id.to_string());
                        if i % 2 == 1 {
                            // clients that keep attaching to the task's stream while the outliving pumps emit: each attach
                            // takes the history snapshot (delayed under its lock by the noise at task.history.locked)
                            for _ in 0..3 {
                                let (app, id) = (app2.clone(), id.to_string());
                                pollers.push(tokio::spawn(async move {
                                    let t0 = Instant::now();
                                    let mut n = 0u64;
                                    while t0.elapsed() < Duration::from_millis(1100) {
                                        let (_st, rd) = app.sse(&format!("/tasks/{id}/events")).await;
                                        drop(rd);
                                        n += 1;
                                        tokio::time::sleep(Duration::from_millis(2)).await;
                                    }
                                    n
                                }));
                            }
                        }
                    }
                }
            }
            for j in joins {
                if let Ok(Some(sid)) = j.await {
                    posted.push(sid);
                }
            }
            for p in pollers {
                if let Ok(n) = p.await {
                    task_stream_attaches.fetch_add(n, std::sync::atomic::Ordering::Relaxed);
                }
            }
            (posted, task_ids)
        });
        let att = task_stream_attaches.load(std::sync::atomic::Ordering::Relaxed);
        if att > 0 {
            r.count("tasks_whose_pumps_outlive_the_command", 1);
            r.count("task_stream_attaches_while_outliving_pumps_emit", att);
        }
        // an earlier version of the cache files, taken while the actors are (usually) still appending
        if damage_caches && phases < total_phases {
            cache_copy = copy_cache_files(&store.streams_dir());
        }
        for h in handles {
            if let Ok(k) = h.join() {
                for (kk, n) in k {
                    *desc_ops.entry(kk).or_insert(0) += n;
                }
            }
        }
        // quiescence: all posted runs ended, all tasks terminal
        let (posted, task_ids) = router_result;
        let log_path = store.log_path();
        let app3 = app.clone();
        let quiet = rt.block_on(async {
            let runs_done = wait_for(Duration::from_secs(30), || {
                let bytes = std::fs::read(&log_path).unwrap_or_default();
                let text = String::from_utf8_lossy(&bytes);
                // every run posted through the router must have ITS OWN run_ended line (the last frame a run writes)
                let all = posted.iter().all(|sid| {
                    text.lines().any(|l| l.contains("\"type\":\"continuity_run_ended\"") && l.contains(sid.as_str()))
                });
                if all {
                    Some(())
                } else {
                    None
                }
            })
            .await
            .is_some();
            let mut tasks_done = true;
            for id in &task_ids {
                let mut ok = false;
                for _ in 0..3000 {
                    let (_, v) = app3.json("GET", &format!("/tasks/{id}"), None).await;
                    let st = v.get("status").and_then(|x| x.as_str()).unwrap_or("");
                    if matches!(st, "exited" | "failed" | "cancelled") {
                        ok = true;
                        break;
                    }
                    tokio::time::sleep(Duration::from_millis(5)).await;
                }
                tasks_done &= ok;
            }
            // give trailing run_ended appends (after session_ended) a moment
            tokio::time::sleep(Duration::from_millis(30)).await;
            runs_done && tasks_done
        });
        if !quiet {
            // writers of this engine may still be active: neither judge a log that is still growing nor open a
            // second engine next to a live one (a real store has a single authority)
            r.inconclusive(&format!("case {idx}: runs/tasks did not quiesce within the watchdog"));
            drop(app);
            failed = true;
            break;
        }
        // sometimes the newest frame of a continuity before the restart is larger than every read window
        if phases < total_phases && idx % 2 == 0 {
            let conts = shared.conts.lock().unwrap().clone();
            let mut k = Known::default();
            let mut hrng = Rng::derive(idx, 4242);
            for c in conts.iter().take(2) {
                let res = exec(&app, &store.data, &[c.clone()], &mut k, OpKind::HugeMsg, &mut hrng, &format!("h{idx}huge"));
                shared.acked.lock().unwrap().extend(res.acked);
                r.count("huge_last_frames_before_restart", 1);
            }
        }
        // every continuity whose caches were damaged before this engine opened gets at least one append from it
        // (the roaming actors usually did that already)
        if !damaged_conts.is_empty() {
            let mut k = Known::default();
            for c in &damaged_conts {
                let res = exec(&app, &store.data, &[c.clone()], &mut k, OpKind::Msg, &mut crng, &format!("h{idx}after"));
                r.count(if res.ok { "cache_restart/appends_to_damaged_continuity_acknowledged" } else { "cache_restart/appends_to_damaged_continuity_refused" }, 1);
                shared.acked.lock().unwrap().extend(res.acked);
            }
        }
        // cache state at restart: whose caches will be damaged, and who holds the newest continuity frame of the log
        let mut victims: Vec<String> = Vec::new();
        if damage_caches && phases < total_phases {
            let mut conts = shared.conts.lock().unwrap().clone();
            crng.shuffle(&mut conts);
            let n_victims = match crng.below(3) {
                0 => 1,
                1 => conts.len(),
                _ => 1 + crng.usize(conts.len()),
            };
            victims = conts[..n_victims].to_vec();
            if crng.chance(4, 5) {
                // a continuity that keeps its caches if there is one, else one of the victims (the others then lag unseen)
                let holder = if n_victims < conts.len() { conts[n_victims + crng.usize(conts.len() - n_victims)].clone() } else { conts[crng.usize(conts.len())].clone() };
                let mut k = Known::default();
                let res = exec(&app, &store.data, &[holder], &mut k, OpKind::Msg, &mut crng, &format!("h{idx}last"));
                shared.acked.lock().unwrap().extend(res.acked);
            }
        }
        drop(app);
        // judge at every restart boundary
        let served = provider.as_ref().map(|p| p.request_count()).unwrap_or(0);
        let ctx = json!({
            "with_provider": with_provider,
            "provider_replies_served_in_request_order": (0..served).map(|i| plan[i % plan.len()].witness()).collect::<Vec<_>>(),
            "cache_files_damaged_before_this_engine_opened": cache_damage,
        });
        if judge(r, &store, &shared, idx, phases, threads, noise_us, &ctx) {
            failed = true;
            break;
        }
        // engine closed, nothing running: damage the rebuildable caches
        if !victims.is_empty() {
            cache_damage = damage_cache_files(r, &store, &victims, &cache_copy, &mut crng);
            damaged_conts = victims;
        }
    }
    let events = s.take_events();
    s.reset();
    let served = provider.as_ref().map(|p| p.request_count()).unwrap_or(0);
    drop(provider);
    if failed {
        return;
    }
    r.eval();
    r.count(if with_provider { "wall_ms_histories_with_provider" } else { "wall_ms_histories_without_provider" }, t_hist.elapsed().as_millis() as u64);
    if with_provider {
        r.count("provider_histories", 1);
        r.count("provider_requests_served", served as u64);
        for i in 0..served {
            let p = &plan[i % plan.len()];
            r.count(&format!("provider_reply_fault/{}", p.fault), 1);
            r.count(&format!("provider_reply_framing/{}", p.framing), 1);
            if let Some((_, class)) = p.cut {
                r.count(&format!("provider_cut@{class}"), 1);
            }
            if p.tool.is_some() {
                r.count("provider_replies_with_tool_call", 1);
            }
        }
    }
    // non-trivial: ≥2 threads appended to one continuity
    let mut per_cont: HashMap<&str, std::collections::HashSet<u64>> = HashMap::new();
    for e in &events {
        if e.point == "log.append.locked" {
            per_cont.entry(e.ctx.as_str()).or_default().insert(e.thread);
        }
    }
    let contended = per_cont.values().any(|t| t.len() >= 2);
    if contended {
        r.distinct(Sched::interleaving_signature(&events));
    }
    r.count("hook_events", events.len() as u64);
    r.count("appends_observed", events.iter().filter(|e| e.point == "log.append.locked").count() as u64);
    r.count("restarts", (total_phases - 1) as u64);
    r.count("actor_threads", threads as u64);
    let acked = shared.acked.lock().unwrap().len();
    r.count("acknowledged_ids_checked", acked as u64);
    if r.samples.len() < r.max_samples {
        let ops: Vec<String> = desc_ops.iter().map(|(k, n)| format!("{k:?}x{n}")).collect();
        r.sample(json!({
            "case": idx, "threads": threads, "ops_per_thread": ops_per, "continuities": n_conts,
            "router_sessions": n_sessions, "tasks": n_tasks, "restart": restart, "noise_us": noise_us,
            "scripted_provider": with_provider, "provider_requests_served": served,
            "ops": ops, "hook_events": events.len(), "acked_ids": acked,
        }));
    }
}

/// The cache files below `continuity_streams/` as they are right now (appends may be in progress: line files are
/// kept up to their last whole line — they are append-only, so that is an earlier version of the file; the binary
/// index files are not copied).
fn copy_cache_files(dir: &std::path::Path) -> HashMap<String, Vec<u8>> {
    let mut out = HashMap::new();
    let Ok(rd) = std::fs::read_dir(dir) else {
        return out;
    };
    for e in rd.flatten() {
        let name = e.file_name().to_string_lossy().to_string();
        if !name.ends_with(".jsonl") {
            continue;
        }
        if let Ok(mut b) = std::fs::read(e.path()) {
            let keep = b.iter().rposition(|c| *c == b'\n').map(|p| p + 1).unwrap_or(0);
            b.truncate(keep);
            out.insert(name, b);
        }
    }
    out
}

/// whole lines of a line file: the offsets just after every `\n`
fn line_ends(b: &[u8]) -> Vec<usize> {
    b.iter().enumerate().filter(|(_, c)| **c == b'\n').map(|(i, _)| i + 1).collect()
}

/// One fault on one cache file; returns what was done (None: nothing to do, e.g. file absent / nothing older known).
fn damage_one_file(path: &std::path::Path, name: &str, older: Option<&Vec<u8>>, rng: &mut Rng) -> Option<(&'static str, String)> {
    let cur = std::fs::read(path).ok()?;
    let is_lines = name.ends_with(".jsonl");
    let pick = if is_lines { rng.below(10) } else { 7 + rng.below(3) };
    match pick {
        // the newest 1–3 whole lines never reached the disk
        0..=3 => {
            let ends = line_ends(&cur);
            let drop_n = 1 + rng.usize(3);
            if ends.len() <= drop_n {
                return None;
            }
            let keep = ends[ends.len() - 1 - drop_n];
            std::fs::write(path, &cur[..keep]).ok()?;
            Some(("drop_last_lines", format!("last {drop_n} of {} lines dropped", ends.len())))
        }
        // an older version: any earlier line boundary
        4 => {
            let ends = line_ends(&cur);
            if ends.len() < 2 {
                return None;
            }
            let k = rng.usize(ends.len() - 1);
            std::fs::write(path, &cur[..ends[k]]).ok()?;
            Some(("cut_at_earlier_line", format!("first {} of {} lines kept", k + 1, ends.len())))
        }
        // rolled back to the copy taken mid-history
        5 | 6 => {
            let old = older?;
            if old.len() >= cur.len() || old.is_empty() {
                return None;
            }
            std::fs::write(path, old).ok()?;
            Some(("rollback_to_mid_history_copy", format!("{} of {} bytes kept", old.len(), cur.len())))
        }
        7 => {
            if cur.is_empty() {
                return None;
            }
            std::fs::write(path, b"").ok()?;
            Some(("truncate_to_zero", format!("{} bytes", cur.len())))
        }
        _ => {
            std::fs::remove_file(path).ok()?;
            Some(("delete", format!("{} bytes", cur.len())))
        }
    }
}

/// CACHE STATE AT RESTART: called with the engine closed. Damages the cache files of `victims` and returns the
/// description that goes into the witness.
fn damage_cache_files(r: &mut Report, store: &Store, victims: &[String], copy: &HashMap<String, Vec<u8>>, rng: &mut Rng) -> Vec<Value> {
    use crate::c04::{FILES, FILE_CLASS};
    let dir = store.streams_dir();
    let mut done: Vec<Value> = Vec::new();
    r.count("cache_restart/restarts_with_damaged_caches", 1);
    // who holds the newest continuity frame of the log (what start-up reconciliation looks at)?
    let newest = truth::parse_log(&store.log_bytes_settled())
        .ok()
        .and_then(|f| f.iter().rev().find(|f| f.stream_kind() == "continuity").map(|f| f.stream_id().to_string()));
    // leftover markers of interrupted cache updates are cache state too
    let mut markers = 0u64;
    if let Ok(rd) = std::fs::read_dir(&dir) {
        for e in rd.flatten() {
            if e.file_name().to_string_lossy().ends_with(".dirty") && std::fs::remove_file(e.path()).is_ok() {
                markers += 1;
            }
        }
    }
    r.count("cache_restart/dirty_markers_removed", markers);
    if rng.chance(1, 10) {
        let ok = std::fs::remove_dir_all(&dir).is_ok();
        r.count("cache_restart/whole_cache_directory_deleted", ok as u64);
        done.push(json!({"whole_directory_deleted": ok}));
        return done;
    }
    let mut lagging_unseen = 0u64;
    for v in victims {
        // the main sidecar always, and sometimes a few of the other cache files of the continuity
        let mut files: Vec<usize> = vec![0];
        if rng.chance(1, 2) {
            for _ in 0..1 + rng.usize(3) {
                let f = 1 + rng.usize(FILES.len() - 1);
                if !files.contains(&f) {
                    files.push(f);
                }
            }
        }
        for f in files {
            let name = format!("{v}{}", FILES[f]);
            match damage_one_file(&dir.join(&name), &name, copy.get(&name), rng) {
                Some((what, detail)) => {
                    r.count(&format!("cache_restart/fault/{}/{what}", FILE_CLASS[f]), 1);
                    if f == 0 && newest.as_deref() != Some(v.as_str()) {
                        lagging_unseen += 1;
                    }
                    done.push(json!({"continuity": v, "file": FILE_CLASS[f], "fault": what, "detail": detail, "holds_newest_log_frame": newest.as_deref() == Some(v.as_str())}));
                }
                None => r.count("cache_restart/fault_not_applicable", 1),
            }
        }
    }
    r.count("cache_restart/continuities_damaged", victims.len() as u64);
    r.count("cache_restart/sidecars_damaged_of_continuity_not_holding_newest_frame", lagging_unseen);
    done
}

const GRID_BASE: u64 = 1 << 32;

/// Deterministic part of the hostile-provider dimension: one provider-facing run per cell of
/// framing × fault × cut class (`hostile::grid`), each in a store of its own, judged by `judge`.
fn provider_grid(cfg: &Cfg, r: &mut Report, s: &Arc<Sched>, rt: &tokio::runtime::Runtime) {
    let cells = hostile::grid();
    let slot: Arc<Mutex<(Vec<Reply>, usize)>> = Arc::new(Mutex::new((Vec::new(), 0)));
    let slot2 = slot.clone();
    let provider = Provider::start(Arc::new(move |_rec: &Recorded| {
        let mut g = slot2.lock().unwrap();
        let i = g.1;
        g.1 += 1;
        if g.0.is_empty() {
            Reply::status(500, "{\"error\":\"c01 grid: no reply scripted\"}")
        } else {
            g.0[i.min(g.0.len() - 1)].clone()
        }
    }));
    let pcfg = hostile::provider_cfg(&provider.endpoint());
    s.reset();
    let shared = Shared { conts: Mutex::new(Vec::new()), acked: Mutex::new(Vec::new()) };
    r.note("grid_cells_total", json!(cells.len()));
    let mine: Vec<usize> = (0..cells.len()).filter(|i| cfg.mine(*i as u64)).collect();
    // cells run one after the other (the provider serves the replies of exactly one cell at a time); a batch of cells
    // shares one store, which is judged as a whole once its runs have ended
    for batch in mine.chunks(16) {
        if r.elapsed() > cfg.budget_s * 0.3 {
            r.count("grid_cells_skipped_over_budget", batch.len() as u64);
            continue;
        }
        let store = Store::new("c01g");
        let app = match App::open(&store, Some(pcfg.clone())) {
            Ok(a) => a,
            Err(e) => {
                r.inconclusive(&format!("grid: cannot open engine: {e}"));
                continue;
            }
        };
        let Ok(c0) = app.store().ensure_default() else {
            r.inconclusive("grid: ensure_default failed");
            continue;
        };
        let log_path = store.log_path();
        // (cell, session id, requests served)
        let mut ran: Vec<(usize, String, usize)> = Vec::new();
        let mut live_writer = false;
        for &i in batch {
            let cell = &cells[i];
            *slot.lock().unwrap() = (cell.replies.iter().map(|p| p.reply.clone()).collect(), 0);
            let app2 = app.clone();
            let c0 = c0.clone();
            let log_path = log_path.clone();
            let ended: Result<String, String> = rt.block_on(async move {
                let (st, v) = app2
                    .json("POST", &format!("/threads/{c0}/messages"), Some(&json!({"content": format!("grid cell {i}")})))
                    .await;
                let sid = v.get("session_id").and_then(|x| x.as_str()).unwrap_or("").to_string();
                if st != 202 || sid.is_empty() {
                    return Err(format!("POST /threads/{{id}}/messages -> {st}"));
                }
                let mut tail = 0usize;
                let done = wait_for(Duration::from_secs(20), || {
                    let bytes = std::fs::read(&log_path).unwrap_or_default();
                    let text = String::from_utf8_lossy(&bytes[tail.min(bytes.len())..]);
                    if text.lines().any(|l| l.contains("\"type\":\"continuity_run_ended\"") && l.contains(sid.as_str())) {
                        return Some(());
                    }
                    // whole lines already looked at need not be looked at again
                    tail = bytes.iter().rposition(|b| *b == b'\n').map(|p| p + 1).unwrap_or(0);
                    None
                })
                .await
                .is_some();
                if done {
                    Ok(sid)
                } else {
                    Err("run did not end within the watchdog".to_string())
                }
            });
            match ended {
                Ok(sid) => ran.push((i, sid, slot.lock().unwrap().1)),
                Err(why) => {
                    // never judged: a writer may still be active on this store
                    r.inconclusive(&format!("grid cell {i} ({}): {why}", cell.desc));
                    live_writer = true;
                    break;
                }
            }
        }
        std::thread::sleep(Duration::from_millis(20));
        drop(app);
        if live_writer {
            continue;
        }
        let parsed = truth::parse_log(&store.log_bytes_settled()).ok();
        // the witness names the first cell whose own session stream is not numbered 0,1,2,…
        let mut suspect: Option<usize> = None;
        for (i, sid, served) in &ran {
            let cell = &cells[*i];
            r.eval();
            r.count("grid_cells_run", 1);
            r.count("grid_provider_requests_served", *served as u64);
            if *served == 0 {
                r.inconclusive(&format!("grid cell {i} ({}): the run never reached the provider", cell.desc));
                continue;
            }
            r.distinct_str(&format!("grid|{}", cell.desc));
            let Some(frames) = parsed.as_ref() else {
                continue;
            };
            let mine = truth::stream(frames, "session", sid);
            if suspect.is_none() && mine.iter().enumerate().any(|(k, f)| f.seq() != k as u64) {
                suspect = Some(*i);
            }
            // did the scripted fault arrive as what it is meant to be? (evidence only)
            let transport_errors = mine
                .iter()
                .filter(|f| {
                    f.ty() == "provider_event"
                        && f.v.get("errors").and_then(|e| e.as_array()).map(|a| !a.is_empty()).unwrap_or(false)
                        && f.v.get("data").map(|d| d.is_null()).unwrap_or(true)
                        && f.v.get("raw").map(|d| d.is_null()).unwrap_or(true)
                })
                .count();
            let provider_events = mine.iter().filter(|f| f.ty() == "provider_event").count();
            let resets = cell.replies.iter().take(*served).filter(|p| p.fault.starts_with("reset_")).count();
            if resets > 0 {
                r.count(
                    if transport_errors > 0 { "grid_reset_cells_seen_as_transport_error" } else { "grid_reset_cells_NOT_seen_as_transport_error" },
                    1,
                );
                if provider_events > transport_errors {
                    r.count("grid_reset_cells_with_frames_from_bytes_before_the_cut", 1);
                }
            }
            r.count("grid_session_frames", mine.len() as u64);
        }
        let ctx = json!({
            "grid_cells_in_this_store": ran.iter().map(|(i, sid, served)| json!({"cell": i, "desc": cells[*i].desc, "session": sid, "requests_served": served})).collect::<Vec<_>>(),
            "first_cell_with_misnumbered_session_stream": suspect.map(|i| json!({
                "cell": i, "desc": cells[i].desc,
                "provider_replies_in_request_order": cells[i].replies.iter().map(|p| p.witness()).collect::<Vec<_>>(),
            })),
        });
        judge(r, &store, &shared, GRID_BASE + batch[0] as u64, 1, 0, 0, &ctx);
    }
    drop(provider);
    r.count("grid_wall_ms", (r.elapsed() * 1000.0) as u64);
}

/// Returns true when a violation was reported.
#[allow(clippy::too_many_arguments)]
fn judge(r: &mut Report, store: &Store, shared: &Shared, idx: u64, phase: u32, threads: usize, noise_us: u64, ctx: &Value) -> bool {
    let bytes = store.log_bytes_settled();
    let witness = |extra: Value| {
        json!({"case": idx, "phase": phase, "threads": threads, "noise_us": noise_us, "detail": extra, "context": ctx})
    };
    let frames = match truth::parse_log(&bytes) {
        Ok(f) => f,
        Err(e) => {
            r.violation(
                &format!("C01/log_structure/{}", e.kind),
                &format!("event log is not a sequence of whole JSON lines: {}", e.detail),
                witness(json!(e.detail)),
            );
            return true;
        }
    };
    if let Err(e) = truth::check_streams(&frames) {
        r.violation(
            &format!("C01/stream_order/{}", e.kind),
            &format!("per-stream seq not 0,1,2,… in file order: {}", e.detail),
            witness(json!(e.detail)),
        );
        return true;
    }
    // the repo's own validator
    match rip_log::EventLog::new(store.log_path()) {
        Ok(log) => {
            if let Err(e) = log.replay_validated() {
                r.violation(
                    "C01/replay_validated_failed",
                    &format!("EventLog::replay_validated failed: {e}"),
                    witness(json!(e.to_string())),
                );
                return true;
            }
        }
        Err(e) => {
            r.inconclusive(&format!("cannot open log: {e}"));
        }
    }
    // exactly-once of acknowledged ids
    let mut count: HashMap<&str, u32> = HashMap::new();
    for f in &frames {
        *count.entry(f.id()).or_insert(0) += 1;
    }
    for id in shared.acked.lock().unwrap().iter() {
        let n = count.get(id.as_str()).copied().unwrap_or(0);
        if n != 1 {
            r.violation(
                if n == 0 { "C01/acknowledged_append_missing" } else { "C01/acknowledged_append_duplicated" },
                &format!("acknowledged frame id {id} occurs {n} times in the log"),
                witness(json!({"id": id, "occurrences": n})),
            );
            return true;
        }
    }
    // sidecar vs log filtered to the continuity: NOT part of C01's statement (that is C03/C04's subject);
    // recorded as an observation only
    let conts = shared.conts.lock().unwrap().clone();
    for c in conts {
        let in_log: Vec<&truth::Frame> = truth::stream(&frames, "continuity", &c);
        let side_path = store.streams_dir().join(format!("{c}.jsonl"));
        let Ok(side) = std::fs::read(&side_path) else {
            continue;
        };
        match truth::parse_log(&side) {
            Ok(sf) => {
                let same = sf.len() == in_log.len() && sf.iter().zip(in_log.iter()).all(|(a, b)| a.v == b.v);
                r.count(if same { "sidecars_equal_to_log" } else { "sidecars_differing_from_log_observed" }, 1);
            }
            Err(_) => r.count("sidecars_differing_from_log_observed", 1),
        }
    }
    r.count("frames_judged", frames.len() as u64);
    // what the provider-facing runs left in their session streams (evidence only)
    let mut pe = 0u64;
    let mut terr = 0u64;
    for f in &frames {
        if f.stream_kind() != "session" {
            continue;
        }
        match f.ty() {
            "provider_event" => {
                pe += 1;
                let has_err = f.v.get("errors").and_then(|e| e.as_array()).map(|a| !a.is_empty()).unwrap_or(false);
                if has_err && f.v.get("data").map(|d| d.is_null()).unwrap_or(true) && f.v.get("raw").map(|d| d.is_null()).unwrap_or(true) {
                    terr += 1;
                }
            }
            "session_ended" => {
                if f.v.get("reason").and_then(|x| x.as_str()) == Some("provider_error") {
                    r.count("session_streams_ended_with_provider_error", 1);
                }
            }
            "openresponses_request_started" => r.count("session_provider_requests_framed", 1),
            _ => {}
        }
    }
    if pe > 0 {
        r.count("session_provider_event_frames_judged", pe);
        r.count("session_transport_error_frames_judged", terr);
    }
    false
}
