//! C01 — session streams under HOSTILE PROVIDER BEHAVIOUR (helper of `c01.rs`).
//!
//! Builds the replies a scripted `provider::Provider` gives to the runs of a history: an SSE body
//! (LF / CRLF / mixed framing, comments, `event:` lines, multi-line data, text deltas with
//! multi-byte characters, optionally a tool call the run executes) plus one fault:
//! none / connection reset after k body bytes (chunked body without terminating chunk, or fewer
//! bytes than the declared Content-Length) / clean end of body at k / HTTP error status /
//! headers only / empty body / no `[DONE]` / a 200 that is not an event stream.
//! For resets and early ends k comes with high probability from `provider::hostile_cuts`
//! (every offset within ±3 bytes of each event terminator, mid line, inside a UTF-8 character),
//! chosen uniformly over the cut CLASSES present in the body, else uniformly at random.
//! `grid()` is the deterministic part: framing × fault × cut class, independent of the seed.

use crate::prng::Rng;
use crate::provider::{
    ev_completed, ev_created, ev_item_added, ev_item_done, ev_text_delta, function_call_item, hostile_cuts, Reply,
};
use ripd::verif_export::{OpenResponsesConfig, ToolChoiceParam};
use serde_json::{json, Value};
use std::collections::BTreeMap;

pub fn provider_cfg(endpoint: &str) -> OpenResponsesConfig {
    OpenResponsesConfig {
        endpoint: endpoint.to_string(),
        api_key: None,
        model: Some("m".into()),
        headers: vec![],
        tool_choice: ToolChoiceParam::auto(),
        followup_user_message: None,
        stateless_history: false,
        parallel_tool_calls: false,
    }
}

#[derive(Clone, Copy, PartialEq, Eq, Debug)]
pub enum Framing {
    Lf,
    Crlf,
    /// every line terminator chosen at random
    Mixed,
    /// field lines end with LF, blank lines with CRLF
    LfFieldCrlfBlank,
    /// field lines end with CRLF, blank lines with LF
    CrlfFieldLfBlank,
}

impl Framing {
    pub fn name(self) -> &'static str {
        match self {
            Framing::Lf => "lf",
            Framing::Crlf => "crlf",
            Framing::Mixed => "mixed_random",
            Framing::LfFieldCrlfBlank => "lf_field_crlf_blank",
            Framing::CrlfFieldLfBlank => "crlf_field_lf_blank",
        }
    }
    fn eol(self, rng: &mut Rng, blank: bool) -> &'static str {
        match self {
            Framing::Lf => "\n",
            Framing::Crlf => "\r\n",
            Framing::Mixed => {
                if rng.bool() {
                    "\n"
                } else {
                    "\r\n"
                }
            }
            Framing::LfFieldCrlfBlank => {
                if blank {
                    "\r\n"
                } else {
                    "\n"
                }
            }
            Framing::CrlfFieldLfBlank => {
                if blank {
                    "\n"
                } else {
                    "\r\n"
                }
            }
        }
    }
}

/// One scripted answer plus the description that goes into evidence / witnesses.
#[derive(Clone, Debug)]
pub struct Planned {
    pub reply: Reply,
    pub framing: &'static str,
    pub fault: String,
    /// (offset, class label) of a reset / early end
    pub cut: Option<(usize, &'static str)>,
    pub tool: Option<&'static str>,
    pub body_len: usize,
}

impl Planned {
    pub fn describe(&self) -> Value {
        json!({
            "framing": self.framing, "fault": self.fault, "body_bytes": self.body_len, "tool_call": self.tool,
            "cut_offset": self.cut.map(|c| c.0), "cut_class": self.cut.map(|c| c.1),
            "chunks": self.reply.chunks.iter().take(8).collect::<Vec<_>>(),
            "status": self.reply.status,
        })
    }
    pub fn witness(&self) -> Value {
        let mut v = self.describe();
        v["body_hex"] = json!(hex::encode(&self.reply.body));
        v["reset_after"] = json!(self.reply.reset_after);
        v["content_length"] = json!(self.reply.content_length);
        v["headers_only"] = json!(self.reply.headers_only);
        v
    }
}

/// Render events as an SSE body. `decorate` adds comments, varies `event:` lines / `data:` spacing and
/// spreads some payloads over several data lines.
pub fn render(rng: &mut Rng, events: &[Value], framing: Framing, done: bool, decorate: bool) -> Vec<u8> {
    let mut s = String::new();
    for v in events {
        let ty = v.get("type").and_then(|x| x.as_str()).unwrap_or("message");
        if decorate && rng.chance(1, 6) {
            s.push_str(": keep-alive");
            s.push_str(framing.eol(rng, false));
            if rng.bool() {
                // a comment block of its own
                s.push_str(framing.eol(rng, true));
            }
        }
        if !decorate || rng.chance(2, 3) {
            s.push_str(&format!("event: {ty}"));
            s.push_str(framing.eol(rng, false));
        }
        let lines: Vec<String> = if decorate && rng.chance(1, 5) {
            serde_json::to_string_pretty(v).unwrap_or_default().lines().map(|l| l.trim_start().to_string()).collect()
        } else {
            vec![v.to_string()]
        };
        let nospace = decorate && rng.chance(1, 8);
        for l in lines {
            s.push_str(if nospace { "data:" } else { "data: " });
            s.push_str(&l);
            s.push_str(framing.eol(rng, false));
        }
        s.push_str(framing.eol(rng, true));
        if decorate && rng.chance(1, 12) {
            // provider garbage: a payload that is not JSON
            s.push_str("data: {not json");
            s.push_str(framing.eol(rng, false));
            s.push_str(framing.eol(rng, true));
        }
    }
    if done {
        s.push_str("data: [DONE]");
        s.push_str(framing.eol(rng, false));
        s.push_str(framing.eol(rng, true));
    }
    s.into_bytes()
}

/// Events of one response: created, text deltas, optionally one tool call, completed.
fn response_events(resp_id: &str, deltas: &[String], tool: Option<(&str, &str, Value)>) -> Vec<Value> {
    let mut seq = 0u64;
    let mut evs = vec![ev_created(seq, resp_id)];
    for d in deltas {
        seq += 1;
        evs.push(ev_text_delta(seq, "msg_1", d));
    }
    let mut output = Vec::new();
    if let Some((call_id, name, args)) = tool {
        let item_id = format!("fc_{call_id}");
        seq += 1;
        evs.push(ev_item_added(seq, 0, function_call_item(Some(&item_id), call_id, name, "", "in_progress")));
        let done = function_call_item(Some(&item_id), call_id, name, &args.to_string(), "completed");
        seq += 1;
        evs.push(ev_item_done(seq, 0, done.clone()));
        output.push(done);
    }
    seq += 1;
    evs.push(ev_completed(seq, resp_id, Value::Array(output)));
    evs
}

fn by_class(body: &[u8]) -> BTreeMap<&'static str, Vec<usize>> {
    let mut m: BTreeMap<&'static str, Vec<usize>> = BTreeMap::new();
    for (p, l) in hostile_cuts(body) {
        m.entry(l).or_default().push(p);
    }
    m
}

/// Cut offset for a reset / early end: mostly hostile (class chosen uniformly, then a position of
/// that class), else uniform.
fn pick_cut(rng: &mut Rng, body: &[u8]) -> Option<(usize, &'static str)> {
    if body.len() < 2 {
        return None;
    }
    let classes = by_class(body);
    if !classes.is_empty() && rng.chance(4, 5) {
        let labels: Vec<&'static str> = classes.keys().cloned().collect();
        let l = *rng.pick(&labels);
        let p = *rng.pick(&classes[l]);
        return Some((p, l));
    }
    Some((1 + rng.usize(body.len() - 1), "uniform_random"))
}

fn random_chunks(rng: &mut Rng, body: &[u8]) -> Vec<usize> {
    let n = body.len();
    if n < 2 {
        return Vec::new();
    }
    match rng.below(5) {
        0 => Vec::new(),
        1 => {
            let size = 1 + rng.usize(64);
            vec![size; (n / size + 1).min(400)]
        }
        2 => {
            let mut v = Vec::new();
            let mut left = n;
            while left > 0 && v.len() < 64 {
                let s = 1 + rng.usize(left.min(300));
                v.push(s);
                left -= s;
            }
            v
        }
        3 => {
            // chunk boundaries at hostile positions
            let cuts: Vec<usize> = hostile_cuts(body).into_iter().map(|c| c.0).collect();
            let mut at: Vec<usize> = (0..1 + rng.usize(4)).filter_map(|_| if cuts.is_empty() { None } else { Some(*rng.pick(&cuts)) }).collect();
            at.sort_unstable();
            at.dedup();
            let mut v = Vec::new();
            let mut from = 0;
            for c in at {
                if c > from {
                    v.push(c - from);
                    from = c;
                }
            }
            v
        }
        _ => vec![1 + rng.usize(n)],
    }
}

/// Seeded reply number `j` of a history.
pub fn plan_reply(rng: &mut Rng, j: usize) -> Planned {
    let framing = match rng.below(8) {
        0 | 1 => Framing::Lf,
        2 | 3 | 4 => Framing::Crlf,
        5 => Framing::Mixed,
        6 => Framing::LfFieldCrlfBlank,
        _ => Framing::CrlfFieldLfBlank,
    };
    let rid = format!("resp_{j}");
    let n_deltas = rng.usize(6);
    let deltas: Vec<String> = (0..n_deltas)
        .map(|_| {
            if rng.bool() {
                let n = 1 + rng.usize(8);
                rng.unicode(n)
            } else {
                let n = 1 + rng.usize(14);
                rng.ascii(n)
            }
        })
        .collect();
    let call_id = format!("call_{j}");
    let tool: Option<(&str, &str, Value)> = if rng.chance(1, 4) {
        Some(match rng.below(4) {
            0 => (call_id.as_str(), "read", json!({"path": format!("absent-{j}.txt")})),
            1 => (call_id.as_str(), "ls", json!({})),
            _ => (call_id.as_str(), "write", json!({"path": format!("pv-{}.txt", j % 7), "content": format!("v{j}")})),
        })
    } else {
        None
    };
    let tool_name: Option<&'static str> = tool.as_ref().map(|t| match t.1 {
        "read" => "read",
        "ls" => "ls",
        _ => "write",
    });
    let evs = response_events(&rid, &deltas, tool);
    let fault = {
        let x = rng.below(100);
        match x {
            0..=21 => "none",
            22..=56 => "reset_chunked",
            57..=63 => "reset_content_length",
            64..=73 => "clean_end_at_cut",
            74..=80 => "http_error",
            81..=84 => "headers_only",
            85..=88 => "empty_body",
            89..=94 => "no_done",
            _ => "not_event_stream",
        }
    };
    let body = render(rng, &evs, framing, fault != "no_done", true);
    let body_len = body.len();
    let mut cut = None;
    let mut reply = Reply::sse(body.clone());
    reply.chunks = random_chunks(rng, &body);
    reply.pause_us = *rng.pick(&[0u64, 0, 0, 150, 600]);
    let mut fault_s = fault.to_string();
    match fault {
        "reset_chunked" => {
            cut = pick_cut(rng, &body);
            reply.reset_after = cut.map(|c| c.0);
        }
        "reset_content_length" => {
            cut = pick_cut(rng, &body);
            reply.reset_after = cut.map(|c| c.0);
            reply.content_length = true;
        }
        "clean_end_at_cut" => {
            cut = pick_cut(rng, &body);
            if let Some((k, _)) = cut {
                reply.body.truncate(k);
            }
        }
        "http_error" => {
            let status = *rng.pick(&[400u16, 401, 404, 429, 500, 503]);
            fault_s = format!("http_{status}");
            reply = Reply::status(status, format!("{{\"error\":{{\"message\":\"scripted {status}\"}}}}"));
            reply.echo_request = rng.chance(1, 4);
            if rng.chance(1, 4) {
                // error status with a chunked event-stream body
                reply.content_length = false;
                reply.content_type = "text/event-stream".into();
                reply.body = body.clone();
            }
        }
        "headers_only" => reply.headers_only = true,
        "empty_body" => reply.body.clear(),
        "not_event_stream" => {
            reply.content_type = "application/json".into();
            reply.body = if rng.bool() { b"{\"ok\":true}".to_vec() } else { b"<html>bad gateway</html>\r".to_vec() };
        }
        _ => {}
    }
    if rng.chance(1, 10) {
        reply.delay_ms = 1 + rng.below(25);
    }
    Planned { reply, framing: framing.name(), fault: fault_s, cut, tool: tool_name, body_len }
}

// ---------------------------------------------------------------------------------------------
// deterministic grid

pub struct Cell {
    /// stable description: framing|fault|cut class|which occurrence
    pub desc: String,
    /// replies in request order (the last one repeats)
    pub replies: Vec<Planned>,
}

fn fixed_body(framing: Framing, tool: bool, done: bool, j: usize) -> (Vec<u8>, Option<&'static str>) {
    let rid = format!("resp_g{j}");
    let deltas = vec!["a".to_string(), "é→🙂 b".to_string()];
    let call_id = format!("call_g{j}");
    let t = if tool { Some((call_id.as_str(), "write", json!({"path": "grid.txt", "content": "g"}))) } else { None };
    let evs = response_events(&rid, &deltas, t);
    // fixed generator state: Mixed framing is not used here, rendering is deterministic
    let mut rng = Rng::new(1);
    (render(&mut rng, &evs, framing, done, false), if tool { Some("write") } else { None })
}

fn occurrences(v: &[usize]) -> Vec<(usize, &'static str)> {
    let mut out = vec![(v[0], "first")];
    if v.len() > 2 {
        out.push((v[v.len() / 2], "middle"));
    }
    if v.len() > 1 {
        out.push((v[v.len() - 1], "last"));
    }
    out
}

/// framing × fault × cut class. Independent of the seed.
pub fn grid() -> Vec<Cell> {
    let framings = [Framing::Lf, Framing::Crlf, Framing::LfFieldCrlfBlank, Framing::CrlfFieldLfBlank];
    let mut cells = Vec::new();
    for f in framings {
        let (body, _) = fixed_body(f, false, true, 0);
        let plain = |fault: &str, cut: Option<(usize, &'static str)>, reply: Reply| Planned {
            reply,
            framing: f.name(),
            fault: fault.to_string(),
            cut,
            tool: None,
            body_len: body.len(),
        };
        for (label, positions) in by_class(&body) {
            for (p, which) in occurrences(&positions) {
                // connection reset in a chunked body
                let mut rep = Reply::sse(body.clone());
                rep.reset_after = Some(p);
                match which {
                    "middle" => rep.chunks = vec![7; body.len() / 7 + 1],
                    "last" => rep.chunks = vec![p.saturating_sub(1).max(1)],
                    _ => {}
                }
                cells.push(Cell {
                    desc: format!("{}|reset_chunked|{label}|{which}", f.name()),
                    replies: vec![plain("reset_chunked", Some((p, label)), rep)],
                });
                if which == "first" {
                    // fewer bytes than the declared Content-Length
                    let mut rep = Reply::sse(body.clone());
                    rep.reset_after = Some(p);
                    rep.content_length = true;
                    cells.push(Cell {
                        desc: format!("{}|reset_content_length|{label}|{which}", f.name()),
                        replies: vec![plain("reset_content_length", Some((p, label)), rep)],
                    });
                    // the body ends cleanly at the same offset
                    let rep = Reply::sse(body[..p].to_vec());
                    cells.push(Cell {
                        desc: format!("{}|clean_end_at_cut|{label}|{which}", f.name()),
                        replies: vec![plain("clean_end_at_cut", Some((p, label)), rep)],
                    });
                }
            }
        }
        // no terminal marker
        let (nd, _) = fixed_body(f, false, false, 1);
        cells.push(Cell { desc: format!("{}|no_done||", f.name()), replies: vec![plain("no_done", None, Reply::sse(nd))] });
        // a tool call the run executes, then a follow-up request that fails at each cut class
        let (tb, tn) = fixed_body(f, true, true, 2);
        let first = Planned { reply: Reply::sse(tb.clone()), framing: f.name(), fault: "none".into(), cut: None, tool: tn, body_len: tb.len() };
        for (label, positions) in by_class(&body) {
            let p = positions[positions.len() / 2];
            let mut rep = Reply::sse(body.clone());
            rep.reset_after = Some(p);
            cells.push(Cell {
                desc: format!("{}|tool_call_then_reset_chunked|{label}|middle", f.name()),
                replies: vec![first.clone(), plain("reset_chunked", Some((p, label)), rep)],
            });
        }
        // the tool-call response itself breaks
        for (label, positions) in by_class(&tb) {
            let p = positions[positions.len() - 1];
            let mut rep = Reply::sse(tb.clone());
            rep.reset_after = Some(p);
            cells.push(Cell {
                desc: format!("{}|reset_chunked_in_tool_call_response|{label}|last", f.name()),
                replies: vec![
                    Planned { reply: rep, framing: f.name(), fault: "reset_chunked".into(), cut: Some((p, label)), tool: tn, body_len: tb.len() },
                    plain("none", None, Reply::sse(body.clone())),
                ],
            });
        }
    }
    // framing-independent faults
    let (body, _) = fixed_body(Framing::Lf, false, true, 3);
    let other = |fault: &str, reply: Reply| Cell {
        desc: format!("-|{fault}||"),
        replies: vec![Planned { reply, framing: "lf", fault: fault.to_string(), cut: None, tool: None, body_len: body.len() }],
    };
    cells.push(other("none", Reply::sse(body.clone())));
    for status in [400u16, 429, 500, 503] {
        let mut rep = Reply::status(status, format!("{{\"error\":{{\"message\":\"scripted {status}\"}}}}"));
        rep.echo_request = status == 400;
        cells.push(other(&format!("http_{status}"), rep));
    }
    let mut rep = Reply::status(500, body.clone());
    rep.content_length = false;
    rep.content_type = "text/event-stream".into();
    cells.push(other("http_500_with_event_stream_body", rep));
    let mut rep = Reply::sse(body.clone());
    rep.headers_only = true;
    cells.push(other("headers_only", rep));
    cells.push(other("empty_body", Reply::sse(Vec::new())));
    let mut rep = Reply::sse(b"{\"ok\":true}".to_vec());
    rep.content_type = "application/json".into();
    cells.push(other("not_event_stream", rep));
    cells
}
