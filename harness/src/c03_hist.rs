//! C03 (B): histories with live collectors attached from the first frame; after quiescence the
//! same frames must be found, in order and field for field, in every place that holds them.

use super::{strict_eq, variant_name};
use crate::fixture::{wait_for, App, Store};
use crate::gen_hist::{default_weights, exec, pick_kind, Known};
use crate::prng::Rng;
use crate::provider::{ev_completed, ev_created, ev_text_delta, sse_done, sse_event, Provider, Reply};
use crate::report::{Cfg, Report};
use crate::truth;
use rip_kernel::{Event, EventKind};
use ripd::verif_export::{OpenResponsesConfig, ToolChoiceParam};
use ripd::ContinuityRunLink;
use serde_json::{json, Value};
use std::sync::atomic::{AtomicBool, Ordering};
use std::sync::{Arc, Mutex};
use std::time::Duration;

pub(super) fn provider_cfg(ep: &str) -> OpenResponsesConfig {
    OpenResponsesConfig {
        endpoint: ep.to_string(),
        api_key: None,
        model: Some("m".into()),
        headers: vec![],
        tool_choice: ToolChoiceParam::auto(),
        followup_user_message: None,
        stateless_history: false,
        parallel_tool_calls: false,
    }
}

fn text_provider(extra_event: Option<String>) -> Provider {
    Provider::start(Arc::new(move |rec| {
        let id = format!("resp_{}", rec.index);
        let mut s = String::new();
        s.push_str(&sse_event(&ev_created(0, &id)));
        s.push_str(&sse_event(&ev_text_delta(1, "msg_1", "héllo \u{2028} 🙂")));
        if let Some(x) = &extra_event {
            s.push_str(&format!("event: response.output_text.delta\ndata: {x}\n\n"));
        }
        s.push_str(&sse_event(&ev_completed(2, &id, json!([]))));
        s.push_str(&sse_done());
        Reply::sse(s.into_bytes()).chunked(vec![17, 64, 5], 0)
    }))
}

#[derive(Clone)]
pub(super) struct Live {
    pub(super) frames: Arc<Mutex<Vec<Value>>>,
    pub(super) lagged: Arc<AtomicBool>,
}

impl Live {
    pub(super) fn new() -> Live {
        Live { frames: Arc::new(Mutex::new(Vec::new())), lagged: Arc::new(AtomicBool::new(false)) }
    }
    pub(super) fn take(&self) -> Vec<Value> {
        self.frames.lock().unwrap().clone()
    }
}

/// Drain a broadcast receiver forever (until closed / aborted) into `live` as wire values.
pub(super) fn drain(rt: &tokio::runtime::Runtime, mut rx: tokio::sync::broadcast::Receiver<Event>, live: Live) -> tokio::task::JoinHandle<()> {
    rt.spawn(async move {
        loop {
            match rx.recv().await {
                Ok(e) => {
                    let v = serde_json::to_value(&e).unwrap_or(Value::Null);
                    live.frames.lock().unwrap().push(v);
                }
                Err(tokio::sync::broadcast::error::RecvError::Lagged(_)) => live.lagged.store(true, Ordering::SeqCst),
                Err(tokio::sync::broadcast::error::RecvError::Closed) => break,
            }
        }
    })
}

#[derive(Clone, Copy, Debug, PartialEq, Eq)]
enum Attach {
    /// broadcast receiver taken before the run is spawned (engine API)
    EngineFirstFrame,
    /// SSE GET opened before the input is posted
    SseFirstFrame,
    /// SSE GET opened after the run / task was started (past + live)
    SseJoin,
}

struct Watched {
    kind: &'static str, // "session" | "task"
    id: String,
    attach: Attach,
    live: Vec<Value>,
    linked: bool,
    complete: bool,
}

fn session_input(rng: &mut Rng, n: u64, provider: bool) -> String {
    match rng.below(if provider { 9 } else { 7 }) {
        0 => json!({"tool":"write","args":{"path": format!("w{n}.txt"), "content": format!("x{n} é🙂")}}).to_string(),
        1 => json!({"tool":"bash","args":{"command": format!("echo out{n}; echo err{n} 1>&2; printf 'é\\xf0\\x9f\\x99\\x82\\n'")}}).to_string(),
        2 => json!({"tool":"ls","args":{}}).to_string(),
        3 => json!({"tool":"nosuchtool","args":{"a":[1,{"b":null}]}}).to_string(),
        4 => json!({"checkpoint":{"action":"create","label":format!("l{n}"),"files":[format!("w{n}.txt")]}}).to_string(),
        5 => json!({"tool":"read","args":{"path":"missing.txt"},"timeout_ms": 5000}).to_string(),
        6 => format!("plain {n} {}", rng.unicode(10)),
        _ => format!("prompt for provider {n}"),
    }
}

pub(super) async fn read_sse_until(
    rd: &mut crate::fixture::SseReader,
    out: &mut Vec<Value>,
    is_last: impl Fn(&Value) -> bool,
    max_wait: Duration,
) -> bool {
    let start = std::time::Instant::now();
    let mut seen_last = false;
    loop {
        let t = if seen_last { Duration::from_millis(40) } else { Duration::from_millis(250) };
        match rd.next_json(t).await {
            Some(v) => {
                if is_last(&v) {
                    seen_last = true;
                }
                out.push(v);
            }
            None => {
                if seen_last {
                    return true;
                }
                if start.elapsed() > max_wait {
                    return false;
                }
            }
        }
    }
}

fn is_session_end(v: &Value) -> bool {
    v.get("type").and_then(|x| x.as_str()) == Some("session_ended")
}

pub(super) fn is_task_end(v: &Value) -> bool {
    v.get("type").and_then(|x| x.as_str()) == Some("tool_task_status")
        && matches!(v.get("status").and_then(|x| x.as_str()), Some("exited") | Some("failed") | Some("cancelled"))
}

pub fn one_history(cfg: &Cfg, r: &mut Report, rt: &tokio::runtime::Runtime, rng: &mut Rng, idx: u64) {
    if idx == 0 {
        directed_deep_provider_payload(r, rt);
    }
    if idx == 0 {
        directed_rebuild_race(r);
    }
    if idx % 16 == 0 {
        // every shard runs this at least once (shard i owns idx i*k…); it is cheap
        directed_concurrent_snapshots(r, rt, rng);
    }
    let s = crate::sched::sched();
    s.reset();
    s.record(true, &["cache.rebuild.created"]);
    let mut rebuilt: std::collections::HashSet<String> = std::collections::HashSet::new();
    let noise = [0u64, 400, 400, 1500][rng.usize(4)];
    if noise > 0 {
        s.set_noise(
            rng.next_u64(),
            &[
                ("cont.cache.enter", noise),
                ("cont.cache.exit", noise),
                ("session.emit.*", noise / 2),
                ("task.emit.*", noise / 2),
                ("log.append.enter", noise / 2),
                // sessions and tasks that end together write their snapshots together
                ("snapshot.created", noise * 2),
                ("snapshot.written", noise),
            ],
        );
    }
    let with_provider = rng.chance(1, 3);
    // seeded extra dimension (own random lane, the history itself is unchanged): the provider's stream carries one
    // event whose JSON is nested D levels, D drawn around the readers' and rip's own limits or from the whole range
    let deep_extra: Option<(usize, String)> = if with_provider {
        let mut drng = cfg.case_rng(2_000_000 + idx);
        if drng.bool() {
            let d = if drng.bool() { 96 + drng.usize(36) } else { 2 + drng.usize(139) };
            let shape = *drng.pick(&[super::depth::Shape::Arrays, super::depth::Shape::Objects, super::depth::Shape::Mixed]);
            let n = super::depth::nest(shape, d - 1, &mut drng);
            Some((d, format!(
                "{{\"type\":\"response.output_text.delta\",\"sequence_number\":1,\"item_id\":\"m\",\"output_index\":0,\"content_index\":0,\"delta\":\"d\",\"logprobs\":[],\"deep\":{n}}}"
            )))
        } else {
            None
        }
    } else {
        None
    };
    if let Some((d, _)) = &deep_extra {
        r.count("b_histories_with_deep_provider_event", 1);
        r.distinct_str(&format!("history_deep_provider_event|{d}"));
    }
    let provider = if with_provider { Some(text_provider(deep_extra.as_ref().map(|x| x.1.clone()))) } else { None };
    let pcfg = provider.as_ref().map(|p| provider_cfg(&p.endpoint()));
    let store = Store::new("c03");
    let threads = 1 + rng.usize(4);
    let ops_per = 6 + rng.usize(cfg.tier.pick(20, 50));
    let n_conts = 1 + rng.usize(3);
    let n_sessions = if rng.chance(1, 4) { 8 + rng.usize(9) } else { 2 + rng.usize(5) };
    let n_tasks = rng.usize(3);
    let phases = if rng.chance(1, 3) { 2 } else { 1 };
    // one history in five: the first task's command exits at once while a descendant keeps the pipes and writes later
    let late_writer_history = rng.chance(1, 5);
    let n_tasks = if late_writer_history { n_tasks.max(1) } else { n_tasks };

    let t_hist = std::time::Instant::now();
    let dbg = std::env::var("RV_DEBUG").is_ok();
    macro_rules! mark {
        ($what:expr) => {
            if dbg && t_hist.elapsed() > Duration::from_secs(4) {
                eprintln!("DEBUG C03 case {idx}: {} at {:.1}s", $what, t_hist.elapsed().as_secs_f64());
            }
        };
    }
    let cont_live = Live::new();
    let mut conts: Vec<String> = Vec::new();
    let mut watched: Vec<Watched> = Vec::new();
    let mut failed = false;
    let mut counter = 0u64;

    for phase in 0..phases {
        let app = match App::open(&store, pcfg.clone()) {
            Ok(a) => a,
            Err(e) => {
                r.inconclusive(&format!("B case {idx}: cannot open engine: {e}"));
                s.reset();
                return;
            }
        };
        // collector from the very first frame of this store instance
        let drain_handle = drain(rt, app.store().subscribe(), cont_live.clone());
        if conts.is_empty() {
            let st = app.store();
            let Ok(c0) = st.ensure_default() else {
                r.inconclusive(&format!("B case {idx}: ensure_default failed"));
                s.reset();
                return;
            };
            conts.push(c0.clone());
            for i in 1..n_conts {
                if let Ok((child, _, _)) = st.branch(&c0, Some(format!("b{i}")), None, None, "rv".into(), "rv".into()) {
                    conts.push(child);
                }
            }
        }
        // actors on plain threads
        let mut handles = Vec::new();
        let new_conts: Arc<Mutex<Vec<String>>> = Arc::new(Mutex::new(Vec::new()));
        for t in 0..threads {
            let app = app.clone();
            let data = store.data.clone();
            let conts = conts.clone();
            let new_conts = new_conts.clone();
            let mut trng = Rng::derive(rng.next_u64(), t as u64);
            let tag = format!("b{idx}p{phase}t{t}");
            handles.push(std::thread::spawn(move || {
                let mut known = Known::default();
                let weights = default_weights();
                for _ in 0..ops_per {
                    let kind = pick_kind(&mut trng, &weights);
                    let res = exec(&app, &data, &conts, &mut known, kind, &mut trng, &tag);
                    if !res.new_conts.is_empty() {
                        new_conts.lock().unwrap().extend(res.new_conts);
                    }
                }
            }));
        }
        // sessions and tasks, concurrently with the actors
        let c0 = conts[0].clone();
        let mut plans: Vec<(Attach, bool, String)> = Vec::new();
        for _ in 0..n_sessions {
            counter += 1;
            let attach = *rng.pick(&[Attach::EngineFirstFrame, Attach::EngineFirstFrame, Attach::SseFirstFrame, Attach::SseJoin]);
            let linked = match attach {
                Attach::EngineFirstFrame => rng.bool(),
                Attach::SseFirstFrame => false,
                Attach::SseJoin => true,
            };
            plans.push((attach, linked, session_input(rng, counter, with_provider)));
        }
        let app2 = app.clone();
        let n_tasks_now = n_tasks;
        let late_writer = late_writer_history && phase == 0;
        let late_t0 = std::time::Instant::now();
        let phase_tag = phase;
        let got: Vec<Watched> = rt.block_on(async move {
            let mut joins: Vec<tokio::task::JoinHandle<Option<Watched>>> = Vec::new();
            for (attach, linked, input) in plans {
                let app = app2.clone();
                let c0 = c0.clone();
                joins.push(tokio::spawn(async move {
                    match attach {
                        Attach::EngineFirstFrame => {
                            let store = app.store();
                            let handle = app.engine.create_session();
                            let mut rx = handle.subscribe();
                            let sid = handle.session_id.clone();
                            let link = if linked {
                                let mid = store.append_message(&c0, "user".into(), "rv".into(), input.clone()).ok()?;
                                store.append_run_spawned(&c0, &mid, &sid, "user".into(), "rv".into()).ok()?;
                                Some(ContinuityRunLink { continuity_id: c0.clone(), message_id: mid, actor_id: "user".into(), origin: "rv".into() })
                            } else {
                                None
                            };
                            app.engine.spawn_session(handle.clone(), input, link, None);
                            let mut live = Vec::new();
                            let mut ended = false;
                            let start = std::time::Instant::now();
                            loop {
                                let t = if ended { Duration::from_millis(40) } else { Duration::from_millis(250) };
                                match tokio::time::timeout(t, rx.recv()).await {
                                    Ok(Ok(e)) => {
                                        if matches!(e.kind, EventKind::SessionEnded { .. }) {
                                            ended = true;
                                        }
                                        live.push(serde_json::to_value(&e).unwrap_or(Value::Null));
                                    }
                                    Ok(Err(_)) => break,
                                    Err(_) => {
                                        if ended || start.elapsed() > Duration::from_secs(30) {
                                            break;
                                        }
                                    }
                                }
                            }
                            Some(Watched { kind: "session", id: sid, attach, live, linked, complete: ended })
                        }
                        Attach::SseFirstFrame => {
                            let (st, v) = app.json("POST", "/sessions", None).await;
                            if st != 201 {
                                return None;
                            }
                            let sid = v.get("session_id")?.as_str()?.to_string();
                            let (st, rd) = app.sse(&format!("/sessions/{sid}/events")).await;
                            if st != 200 {
                                return None;
                            }
                            let mut rd = rd?;
                            let (st, _) = app.json("POST", &format!("/sessions/{sid}/input"), Some(&json!({"input": input}))).await;
                            if st != 202 {
                                return None;
                            }
                            let mut live = Vec::new();
                            let ok = read_sse_until(&mut rd, &mut live, is_session_end, Duration::from_secs(30)).await;
                            Some(Watched { kind: "session", id: sid, attach, live, linked: false, complete: ok })
                        }
                        Attach::SseJoin => {
                            let (st, v) = app.json("POST", &format!("/threads/{c0}/messages"), Some(&json!({"content": input}))).await;
                            if st != 202 {
                                return None;
                            }
                            let sid = v.get("session_id")?.as_str()?.to_string();
                            let (st, rd) = app.sse(&format!("/sessions/{sid}/events")).await;
                            if st != 200 {
                                return None;
                            }
                            let mut rd = rd?;
                            let mut live = Vec::new();
                            let ok = read_sse_until(&mut rd, &mut live, is_session_end, Duration::from_secs(30)).await;
                            Some(Watched { kind: "session", id: sid, attach, live, linked: true, complete: ok })
                        }
                    }
                }));
            }
            for i in 0..n_tasks_now {
                let app = app2.clone();
                joins.push(tokio::spawn(async move {
                    let cmd = match (late_writer && i == 0, i % 3) {
                        // the command exits at once; a descendant keeps both pipes and writes ~1.9 s later (the task's
                        // stream, log and snapshot must still agree once it is gone)
                        (true, _) => format!("(sleep 1.9; echo late{phase_tag}; echo elate{phase_tag} 1>&2) & echo first{phase_tag}"),
                        (_, 0) => format!("for k in 1 2 3; do echo o{phase_tag}{i}$k; echo e{phase_tag}{i}$k 1>&2; done"),
                        (_, 1) => "printf 'é🙂\\n'; exit 3".to_string(),
                        _ => "head -c 20000 /dev/zero | tr '\\0' 'a'".to_string(),
                    };
                    let (st, v) = app.json("POST", "/tasks", Some(&json!({"tool":"bash","args":{"command": cmd},"title": format!("t{i}")}))).await;
                    if st != 201 {
                        return None;
                    }
                    let tid = v.get("task_id")?.as_str()?.to_string();
                    let (st, rd) = app.sse(&format!("/tasks/{tid}/events")).await;
                    if st != 200 {
                        return None;
                    }
                    let mut rd = rd?;
                    let mut live = Vec::new();
                    let ok = read_sse_until(&mut rd, &mut live, is_task_end, Duration::from_secs(30)).await;
                    Some(Watched { kind: "task", id: tid, attach: Attach::SseJoin, live, linked: false, complete: ok })
                }));
            }
            let mut out = Vec::new();
            for j in joins {
                if let Ok(Some(w)) = j.await {
                    out.push(w);
                }
            }
            out
        });
        mark!("router part done");
        for h in handles {
            let _ = h.join();
        }
        mark!("actors joined");
        if late_writer && n_tasks_now > 0 {
            // the descendant of the late-writer task is gone ~1.9 s after the spawn; judge the state after that
            let spent = late_t0.elapsed();
            if spent < Duration::from_millis(2600) {
                std::thread::sleep(Duration::from_millis(2600) - spent);
            }
            r.count("b_tasks_with_a_descendant_writing_after_the_command_exited", 1);
        }
        {
            let extra = new_conts.lock().unwrap().clone();
            for c in extra {
                if conts.len() < 8 && !conts.contains(&c) {
                    conts.push(c);
                }
            }
        }
        // quiescence: run_ended for linked runs, snapshot files for every watched stream
        let log_path = store.log_path();
        let data = store.data.clone();
        let need: Vec<(String, bool, &'static str)> = got.iter().map(|w| (w.id.clone(), w.linked, w.kind)).collect();
        // a snapshot file is "there" when it reads as a JSON array or, failing that, when it looks like a finished array
        // and has not changed for a while (an unreadable snapshot is for the oracle to judge, not for the watchdog)
        let mut settled: std::collections::HashMap<String, (usize, std::time::Instant)> = std::collections::HashMap::new();
        let quiet = rt.block_on(async {
            wait_for(Duration::from_secs(30), || {
                let bytes = std::fs::read(&log_path).unwrap_or_default();
                let text = String::from_utf8_lossy(&bytes);
                for (id, linked, kind) in &need {
                    if *linked && !text.lines().any(|l| l.contains("\"type\":\"continuity_run_ended\"") && l.contains(id.as_str())) {
                        return None;
                    }
                    let dir = if *kind == "task" { "task_snapshots" } else { "snapshots" };
                    let b = std::fs::read(data.join(dir).join(format!("{id}.json"))).unwrap_or_default();
                    let mut ok = serde_json::from_slice::<Value>(&b).ok().map(|v| v.is_array()).unwrap_or(false);
                    if !ok && b.first() == Some(&b'[') && b.iter().rev().find(|c| !c.is_ascii_whitespace()) == Some(&b']') {
                        let e = settled.entry(id.clone()).or_insert((b.len(), std::time::Instant::now()));
                        if e.0 != b.len() {
                            *e = (b.len(), std::time::Instant::now());
                        }
                        ok = e.1.elapsed() > Duration::from_millis(400);
                    }
                    if !ok {
                        return None;
                    }
                }
                Some(())
            })
            .await
            .is_some()
        });
        mark!("quiescent");
        if !quiet || got.iter().any(|w| !w.complete) {
            r.inconclusive(&format!("B case {idx}: a run / task did not reach its end within the watchdog"));
            failed = true;
        }
        watched.extend(got);
        // let the continuity collector catch up with the last send, then stop it with this store instance
        {
            let log_path = store.log_path();
            let live = cont_live.clone();
            let caught_up = rt.block_on(async {
                wait_for(Duration::from_secs(10), || {
                    let bytes = std::fs::read(&log_path).unwrap_or_default();
                    let n = String::from_utf8_lossy(&bytes).lines().filter(|l| l.contains("\"stream_kind\":\"continuity\"")).count();
                    if live.frames.lock().unwrap().len() >= n {
                        Some(())
                    } else {
                        None
                    }
                })
                .await
                .is_some()
            });
            if !caught_up {
                r.count("b_collector_behind_log_after_10s", 1);
            }
        }
        // judge the continuity places that need the live store (cache path of replay_events, SSE replay)
        if !failed {
            for e in s.take_events() {
                rebuilt.insert(e.ctx.clone());
            }
            failed = judge_continuities(r, rt, &store, &app, &conts, &cont_live, idx, phase, "cache_path", &rebuilt);
        }
        mark!("continuities judged");
        drain_handle.abort();
        drop(app);
        if failed {
            break;
        }
    }
    s.reset();
    if failed {
        return;
    }
    if cont_live.lagged.load(Ordering::SeqCst) {
        r.inconclusive(&format!("B case {idx}: the continuity collector lagged"));
        return;
    }
    // sessions / tasks: live == log == snapshot, verify_snapshot passes
    let bytes = store.log_bytes_settled();
    let frames = match truth::parse_log(&bytes) {
        Ok(f) => f,
        Err(e) => {
            r.violation(&format!("C03/history/log_structure/{}", e.kind), &format!("log is not whole JSON lines: {}", e.detail), json!({"part": "B", "case": idx}));
            return;
        }
    };
    let log = rip_log::EventLog::new(store.log_path()).ok();
    for w in &watched {
        let in_log: Vec<Value> = truth::stream(&frames, w.kind, &w.id).iter().map(|f| f.v.clone()).collect();
        let wit = |extra: Value| {
            json!({"part": "B", "case": idx, "stream_kind": w.kind, "attach": format!("{:?}", w.attach),
                   "provider_event_nesting": deep_extra.as_ref().map(|x| x.0), "detail": extra})
        };
        r.count("b_streams_compared", 1);
        r.count(&format!("b_{}_streams_{:?}", w.kind, w.attach), 1);
        r.count("b_live_frames_compared", w.live.len() as u64);
        let types: Vec<&str> = in_log.iter().map(|v| v.get("type").and_then(|x| x.as_str()).unwrap_or("?")).collect();
        r.distinct_str(&format!("{}|{}", w.kind, dedup_runs(&types)));
        // live vs log
        match w.attach {
            Attach::EngineFirstFrame | Attach::SseFirstFrame => {
                if compare(r, w.kind, "live", &w.live, "log", &in_log, &wit) {
                    return;
                }
            }
            Attach::SseJoin => {
                // the statement: every frame a live subscriber receives is reproduced by the log. Frames missed
                // at the join are C06's subject; they are counted, not judged here.
                let mut by_seq: std::collections::HashMap<u64, &Value> = std::collections::HashMap::new();
                for v in &in_log {
                    if let Some(s) = v.get("seq").and_then(|x| x.as_u64()) {
                        by_seq.insert(s, v);
                    }
                }
                let mut last: Option<u64> = None;
                for v in &w.live {
                    let seq = v.get("seq").and_then(|x| x.as_u64()).unwrap_or(u64::MAX);
                    let ty = v.get("type").and_then(|x| x.as_str()).unwrap_or("?").to_string();
                    match by_seq.get(&seq) {
                        Some(l) if strict_eq(v, l) => {}
                        Some(l) => {
                            r.violation(
                                &format!("C03/history/live_vs_log/{}/frame_differs/{ty}", w.kind),
                                &format!("a {} subscriber received a {ty} frame (seq {seq}) that differs from the log's frame", w.kind),
                                wit(json!({"live": v, "log": l})),
                            );
                            return;
                        }
                        None => {
                            r.violation(
                                &format!("C03/history/live_vs_log/{}/frame_not_in_log/{ty}", w.kind),
                                &format!("a {} subscriber received a {ty} frame (seq {seq}) that is not in the log", w.kind),
                                wit(json!({"live": v})),
                            );
                            return;
                        }
                    }
                    if let Some(p) = last {
                        if seq <= p {
                            r.violation(
                                &format!("C03/history/live_vs_log/{}/order", w.kind),
                                &format!("a {} subscriber received seq {seq} after seq {p}", w.kind),
                                wit(json!({"seq": seq, "previous": p})),
                            );
                            return;
                        }
                    }
                    last = Some(seq);
                }
                if w.live.len() < in_log.len() {
                    r.count("b_join_attached_frames_not_seen_live", (in_log.len() - w.live.len()) as u64);
                }
            }
        }
        // snapshot file vs log
        let dir = if w.kind == "task" { "task_snapshots" } else { "snapshots" };
        let spath = store.data.join(dir).join(format!("{}.json", w.id));
        match std::fs::read(&spath).ok().and_then(|b| serde_json::from_slice::<Value>(&b).ok()) {
            Some(Value::Array(snap)) => {
                if compare(r, w.kind, "snapshot", &snap, "log", &in_log, &wit) {
                    return;
                }
                r.count("b_snapshots_compared", 1);
            }
            _ => {
                r.violation(
                    &format!("C03/history/snapshot_unreadable/{}", w.kind),
                    &format!("{} snapshot file is missing or not a JSON array after the run ended", w.kind),
                    wit(json!({"path": spath.to_string_lossy()})),
                );
                return;
            }
        }
        if let Some(log) = &log {
            match rip_log::verify_snapshot(log, &spath) {
                Ok(()) => r.count("b_verify_snapshot_passed", 1),
                Err(e) => {
                    r.violation(
                        &format!("C03/history/verify_snapshot_failed/{}", w.kind),
                        &format!("rip_log::verify_snapshot fails for a finished {}: {e}", w.kind),
                        wit(json!({"error": e.to_string(), "types": types})),
                    );
                    return;
                }
            }
        }
        r.eval();
    }
    mark!("sessions judged");
    // continuities once more from a cold start with every cache deleted (log path of replay_events)
    let _ = std::fs::remove_dir_all(store.streams_dir());
    match App::open(&store, None) {
        Ok(app) => {
            let _ = judge_continuities(r, rt, &store, &app, &conts, &cont_live, idx, phases, "log_path", &rebuilt);
        }
        Err(e) => r.inconclusive(&format!("B case {idx}: reopen failed: {e}")),
    }
    if r.samples.len() < r.max_samples {
        r.sample(json!({"part": "B", "case": idx, "threads": threads, "ops_per_thread": ops_per, "continuities": conts.len(),
                        "sessions_and_tasks_watched": watched.len(), "phases": phases, "provider": with_provider, "noise_us": noise,
                        "log_frames": frames.len()}));
    }
    drop(provider);
    mark!("history done");
}

fn dedup_runs(types: &[&str]) -> String {
    let mut out: Vec<&str> = Vec::new();
    for t in types {
        if out.last() != Some(t) {
            out.push(t);
        }
    }
    out.join(">")
}

/// true when a violation was reported
/// Directed: many sessions and a few tasks of ONE engine end at the same time, with delays injected right after
/// the snapshot file is created, so that their snapshot writes overlap. Every snapshot must afterwards hold
/// exactly the frames the log holds for that stream.
fn directed_concurrent_snapshots(r: &mut Report, rt: &tokio::runtime::Runtime, rng: &mut Rng) {
    let s = crate::sched::sched();
    s.reset();
    s.set_noise(rng.next_u64(), &[("snapshot.created", 4000), ("snapshot.written", 500)]);
    let store = Store::new("c03snap");
    let Ok(app) = App::open(&store, None) else {
        r.inconclusive("concurrent snapshots: cannot open engine");
        return;
    };
    let n = 12 + rng.usize(20);
    let mut sids: Vec<String> = Vec::new();
    let mut tids: Vec<String> = Vec::new();
    let app2 = app.clone();
    let n_tasks = 2 + rng.usize(3);
    rt.block_on(async {
        for i in 0..n {
            let h = app2.engine.create_session();
            sids.push(h.session_id.clone());
            app2.engine.spawn_session(h, format!("prompt {i}"), None, None);
        }
        for i in 0..n_tasks {
            let (st, v) = app2.json("POST", "/tasks", Some(&json!({"tool":"bash","args":{"command": format!("echo t{i}")}}))).await;
            if st == 201 {
                if let Some(id) = v.get("task_id").and_then(|x| x.as_str()) {
                    tids.push(id.to_string());
                }
            }
        }
        let data = store.data.clone();
        let all: Vec<(String, &str)> = sids.iter().map(|x| (x.clone(), "snapshots")).chain(tids.iter().map(|x| (x.clone(), "task_snapshots"))).collect();
        // every stream's terminal frame is in the log, then a grace period for the snapshot writes (they happen after
        // the terminal frame is logged and are delayed by the injected noise)
        let log_path = store.log_path();
        let _ = wait_for(Duration::from_secs(20), || {
            let t = String::from_utf8_lossy(&std::fs::read(&log_path).unwrap_or_default()).to_string();
            let ended = t.matches("\"type\":\"session_ended\"").count();
            (ended >= sids.len()).then_some(())
        })
        .await;
        let _ = wait_for(Duration::from_secs(5), || all.iter().all(|(id, d)| data.join(d).join(format!("{id}.json")).exists()).then_some(())).await;
        tokio::time::sleep(Duration::from_millis(150)).await;
    });
    s.reset();
    drop(app);
    let Ok(frames) = truth::parse_log(&store.log_bytes_settled()) else {
        r.inconclusive("concurrent snapshots: log unreadable");
        return;
    };
    r.eval();
    r.distinct_str("directed_concurrent_snapshots");
    for (id, kind, dir) in sids.iter().map(|x| (x, "session", "snapshots")).chain(tids.iter().map(|x| (x, "task", "task_snapshots"))) {
        let in_log: Vec<Value> = truth::stream(&frames, kind, id).iter().map(|f| f.v.clone()).collect();
        if in_log.is_empty() {
            continue;
        }
        let wit = json!({"part": "B", "case": "directed_concurrent_snapshots", "kind": kind, "sessions": sids.len(), "tasks": tids.len()});
        r.count("b_concurrent_snapshots_compared", 1);
        match std::fs::read(store.data.join(dir).join(format!("{id}.json"))).ok().and_then(|b| serde_json::from_slice::<Vec<Value>>(&b).ok()) {
            None => r.violation(
                &format!("C03/history/snapshot_unreadable/{kind}/streams_ending_together"),
                &format!("{kind} snapshot is missing or unreadable after {} sessions and {} tasks of one engine ended together", sids.len(), tids.len()),
                wit,
            ),
            Some(snap) => {
                let same = snap.len() == in_log.len() && snap.iter().zip(in_log.iter()).all(|(a, b)| strict_eq(a, b));
                if !same {
                    r.violation(
                        &format!("C03/history/snapshot_vs_log/{kind}/streams_ending_together"),
                        &format!(
                            "{kind} snapshot holds {} frames (first stream id {:?}), the log holds {} for this stream",
                            snap.len(),
                            snap.first().and_then(|f| f.get("stream_id")).cloned(),
                            in_log.len()
                        ),
                        wit,
                    );
                }
            }
        }
    }
}

pub(super) fn compare(
    r: &mut Report,
    kind: &str,
    a_name: &str,
    a: &[Value],
    b_name: &str,
    b: &[Value],
    wit: &dyn Fn(Value) -> Value,
) -> bool {
    for (i, (x, y)) in a.iter().zip(b.iter()).enumerate() {
        if !strict_eq(x, y) {
            let ty = y.get("type").and_then(|v| v.as_str()).unwrap_or("?");
            r.violation(
                &format!("C03/history/{a_name}_vs_{b_name}/{kind}/frame_differs/{ty}"),
                &format!("{kind} stream: frame {i} ({ty}) in {a_name} differs from {b_name}"),
                wit(json!({"index": i, a_name: x, b_name: y})),
            );
            return true;
        }
    }
    if a.len() != b.len() {
        let (longer, n) = if a.len() > b.len() { (a_name, &a[b.len()..]) } else { (b_name, &b[a.len()..]) };
        let ty = n[0].get("type").and_then(|v| v.as_str()).unwrap_or("?");
        r.violation(
            &format!("C03/history/{a_name}_vs_{b_name}/{kind}/only_in_{longer}/{ty}"),
            &format!("{kind} stream: {a_name} has {} frames, {b_name} has {}; first extra frame in {longer} is a {ty}", a.len(), b.len()),
            wit(json!({"a": a.len(), "b": b.len(), "first_extra": n[0]})),
        );
        return true;
    }
    false
}

/// live == log filtered == sidecar file == replay_events() == thread SSE replay, per continuity.
#[allow(clippy::too_many_arguments)]
pub(super) fn judge_continuities(
    r: &mut Report,
    rt: &tokio::runtime::Runtime,
    store: &Store,
    app: &App,
    conts: &[String],
    live: &Live,
    idx: u64,
    phase: usize,
    path: &'static str,
    rebuilt_live: &std::collections::HashSet<String>,
) -> bool {
    let bytes = store.log_bytes_settled();
    let frames = match truth::parse_log(&bytes) {
        Ok(f) => f,
        Err(e) => {
            r.violation(&format!("C03/history/log_structure/{}", e.kind), &format!("log is not whole JSON lines: {}", e.detail), json!({"part": "B", "case": idx}));
            return true;
        }
    };
    let all_live = live.take();
    for c in conts {
        let in_log: Vec<Value> = truth::stream(&frames, "continuity", c).iter().map(|f| f.v.clone()).collect();
        if in_log.is_empty() {
            continue;
        }
        let wit = |extra: Value| json!({"part": "B", "case": idx, "phase": phase, "stream_kind": "continuity", "replay_path": path, "detail": extra});
        r.count("b_streams_compared", 1);
        r.count("b_continuity_streams_compared", 1);
        let types: Vec<&str> = in_log.iter().map(|v| v.get("type").and_then(|x| x.as_str()).unwrap_or("?")).collect();
        r.distinct_str(&format!("continuity|{path}|{}", dedup_runs(&types)));
        // live (subscribed before the first frame of every store instance)
        let mine: Vec<Value> = all_live.iter().filter(|v| v.get("stream_id").and_then(|x| x.as_str()) == Some(c.as_str())).cloned().collect();
        r.count("b_live_frames_compared", mine.len() as u64);
        if compare(r, "continuity", "live", &mine, "log", &in_log, &wit) {
            return true;
        }
        // sidecar file (only while caches exist)
        if path == "cache_path" {
            if let Ok(side) = std::fs::read(store.streams_dir().join(format!("{c}.jsonl"))) {
                match truth::parse_log(&side) {
                    Ok(sf) => {
                        let sv: Vec<Value> = sf.into_iter().map(|f| f.v).collect();
                        let same = sv.len() == in_log.len() && sv.iter().zip(in_log.iter()).all(|(a, b)| strict_eq(a, b));
                        if !same && rebuilt_live.contains(c) {
                            // the store rebuilt this sidecar (truncate + rewrite, no lock) while appenders were
                            // extending it: one root cause, one signature (see directed_rebuild_race)
                            r.violation(
                                REBUILD_RACE_SIG,
                                &format!("sidecar of a continuity was rebuilt while frames were being appended: it holds {} frames, the log {}", sv.len(), in_log.len()),
                                wit(json!({"continuity": c, "sidecar_frames": sv.len(), "log_frames": in_log.len(), "directed": false})),
                            );
                            return true;
                        }
                        if compare(r, "continuity", "sidecar", &sv, "log", &in_log, &wit) {
                            return true;
                        }
                        r.count("b_sidecars_compared", 1);
                    }
                    Err(e) => {
                        if rebuilt_live.contains(c) {
                            r.violation(
                                REBUILD_RACE_SIG,
                                &format!("sidecar of a continuity was rebuilt while frames were being appended: it is no longer whole JSON lines ({})", e.detail),
                                wit(json!({"continuity": c, "directed": false})),
                            );
                            return true;
                        }
                        r.violation(&format!("C03/history/sidecar_structure/{}", e.kind), &format!("sidecar is not whole JSON lines: {}", e.detail), wit(json!({"continuity": c})));
                        return true;
                    }
                }
            }
        }
        // replay_events()
        match app.store().replay_events(c) {
            Ok(evs) => {
                let ev: Vec<Value> = evs.iter().map(|e| serde_json::to_value(e).unwrap_or(Value::Null)).collect();
                let bad_kind = evs.iter().find(|e| e.stream_kind() != rip_kernel::StreamKind::Continuity || e.stream_id() != c);
                if let Some(e) = bad_kind {
                    r.violation(
                        &format!("C03/history/replay_events_foreign_frame/{}", variant_name(&e.kind)),
                        "replay_events returned a frame of another stream",
                        wit(json!({"frame": serde_json::to_value(e).unwrap_or(Value::Null)})),
                    );
                    return true;
                }
                if compare(r, "continuity", &format!("replay_events_{path}"), &ev, "log", &in_log, &wit) {
                    return true;
                }
                r.count(&format!("b_replay_events_{path}_compared"), 1);
            }
            Err(e) => {
                r.violation(
                    &format!("C03/history/replay_events_failed/{path}"),
                    &format!("replay_events failed on a quiescent store: {e}"),
                    wit(json!({"error": e.to_string()})),
                );
                return true;
            }
        }
        // what a late subscriber of the thread stream is sent (past frames)
        let n = in_log.len();
        let path_sse = format!("/threads/{c}/events");
        let got: Option<Vec<Value>> = rt.block_on(async {
            let (st, rd) = app.sse(&path_sse).await;
            if st != 200 {
                return None;
            }
            let mut rd = rd?;
            let mut out = Vec::new();
            while out.len() < n {
                match rd.next_json(Duration::from_millis(500)).await {
                    Some(v) => out.push(v),
                    None => break,
                }
            }
            // nothing more than the log
            if let Some(v) = rd.next_json(Duration::from_millis(15)).await {
                out.push(v);
            }
            Some(out)
        });
        match got {
            Some(g) => {
                if compare(r, "continuity", "thread_sse_replay", &g, "log", &in_log, &wit) {
                    return true;
                }
                r.count("b_thread_sse_replays_compared", 1);
            }
            None => {
                r.violation(
                    "C03/history/thread_sse_unavailable",
                    "GET /threads/{id}/events refused a thread that has frames in the log",
                    wit(json!({"continuity": c})),
                );
                return true;
            }
        }
        r.eval();
    }
    false
}

pub const REBUILD_RACE_SIG: &str = "C03/history/sidecar_vs_log/continuity/rebuild_races_with_appends";

/// Directed schedule: `replay_events` falls back to the log (sidecar missing), its unlocked rebuild
/// (`File::create` = truncate, then rewrite the frames it read earlier) is parked right after the
/// truncation while three more frames are appended to the same continuity, then let go.
fn directed_rebuild_race(r: &mut Report) {
    use crate::sched::ParkRule;
    let s = crate::sched::sched();
    s.reset();
    let store = Store::new("c03race");
    let Ok(app) = App::open(&store, None) else {
        r.inconclusive("rebuild race: cannot open engine");
        return;
    };
    let st = app.store();
    let Ok(c) = st.ensure_default() else {
        r.inconclusive("rebuild race: ensure_default failed");
        return;
    };
    for i in 0..3 {
        let _ = st.append_message(&c, "a".into(), "rv".into(), format!("before {i}"));
    }
    let _ = std::fs::remove_file(store.streams_dir().join(format!("{c}.jsonl")));
    s.add_rule(ParkRule::new("cache.rebuild.created", &c, 1, "cont.cache.exit", &c, 3));
    let st2 = st.clone();
    let c2 = c.clone();
    let reader = std::thread::spawn(move || st2.replay_events(&c2).map(|v| v.len()).unwrap_or(0));
    let start = std::time::Instant::now();
    while !s.rules().first().map(|x| x.fired).unwrap_or(false) && start.elapsed() < Duration::from_secs(5) {
        std::thread::sleep(Duration::from_millis(1));
    }
    let fired = s.rules().first().map(|x| x.fired).unwrap_or(false);
    for i in 0..3 {
        let _ = st.append_message(&c, "a".into(), "rv".into(), format!("during {i}"));
    }
    let _ = reader.join();
    let timed_out = s.rules().first().map(|x| x.timed_out).unwrap_or(true);
    s.release_all();
    s.reset();
    if !fired || timed_out {
        r.inconclusive("rebuild race: the schedule could not be driven (hook not reached)");
        return;
    }
    r.eval();
    r.distinct_str("directed_rebuild_race");
    r.count("b_directed_rebuild_race_runs", 1);
    let frames = truth::parse_log(&store.log_bytes_settled()).unwrap_or_default();
    let in_log: Vec<Value> = truth::stream(&frames, "continuity", &c).iter().map(|f| f.v.clone()).collect();
    let side = std::fs::read(store.streams_dir().join(format!("{c}.jsonl"))).unwrap_or_default();
    let (same, detail) = match truth::parse_log(&side) {
        Ok(sf) => (
            sf.len() == in_log.len() && sf.iter().zip(in_log.iter()).all(|(a, b)| strict_eq(&a.v, b)),
            format!("it holds {} frames, the log {}", sf.len(), in_log.len()),
        ),
        Err(e) => (false, format!("it is no longer whole JSON lines ({})", e.detail)),
    };
    if !same {
        r.violation(
            REBUILD_RACE_SIG,
            &format!("sidecar of a continuity was rebuilt while frames were being appended: {detail}"),
            json!({"part": "B", "case": 0, "directed": true,
                   "schedule": "delete sidecar; replay_events parks at cache.rebuild.created; 3 append_message; release"}),
        );
    }
    // what readers are served afterwards must still be the log
    match st.replay_events(&c) {
        Ok(evs) => {
            let ev: Vec<Value> = evs.iter().map(|e| serde_json::to_value(e).unwrap_or(Value::Null)).collect();
            let wit = |x: Value| json!({"part": "B", "case": 0, "directed": true, "detail": x});
            let _ = compare(r, "continuity", "replay_events_after_rebuild_race", &ev, "log", &in_log, &wit);
        }
        Err(e) => r.violation(
            "C03/history/replay_events_failed/after_rebuild_race",
            &format!("replay_events failed after the rebuild race: {e}"),
            json!({"part": "B", "case": 0, "directed": true}),
        ),
    }
}

/// Directed: a provider event whose JSON is as deep as serde_json accepts on its own (127) is
/// embedded one level deeper in the provider_event frame — can the log still be replayed?
fn directed_deep_provider_payload(r: &mut Report, rt: &tokio::runtime::Runtime) {
    for depth in [100usize, 126] {
        // event object (1) + `depth` arrays = depth + 1 levels
        let mut x = String::from("{\"type\":\"response.output_text.delta\",\"sequence_number\":1,\"item_id\":\"m\",\"output_index\":0,\"content_index\":0,\"delta\":\"d\",\"logprobs\":[],\"deep\":");
        for _ in 0..depth {
            x.push('[');
        }
        x.push_str("\"tkdeepq2z\"");
        for _ in 0..depth {
            x.push(']');
        }
        x.push('}');
        if serde_json::from_str::<Value>(&x).is_err() {
            continue;
        }
        let provider = text_provider(Some(x));
        let store = Store::new("c03deep");
        let Ok(app) = App::open(&store, Some(provider_cfg(&provider.endpoint()))) else {
            r.inconclusive("deep provider payload: cannot open engine");
            return;
        };
        let done = rt.block_on(async {
            let (st, v) = app.json("POST", "/threads/ensure", None).await;
            let tid = v.get("thread_id").and_then(|x| x.as_str()).unwrap_or("").to_string();
            if st != 200 || tid.is_empty() {
                return false;
            }
            let (st, v) = app.json("POST", &format!("/threads/{tid}/messages"), Some(&json!({"content": "go"}))).await;
            let sid = v.get("session_id").and_then(|x| x.as_str()).unwrap_or("").to_string();
            if st != 202 {
                return false;
            }
            let log_path = store.log_path();
            wait_for(Duration::from_secs(20), || {
                let b = std::fs::read(&log_path).unwrap_or_default();
                let t = String::from_utf8_lossy(&b);
                if t.lines().any(|l| l.contains("continuity_run_ended") && l.contains(&sid)) {
                    Some(())
                } else {
                    None
                }
            })
            .await
            .is_some()
        });
        drop(app);
        if !done {
            r.inconclusive("deep provider payload: run did not end");
            continue;
        }
        r.eval();
        r.distinct_str(&format!("deep_provider_payload|{depth}"));
        let bytes = store.log_bytes_settled();
        let reached = String::from_utf8_lossy(&bytes).contains("tkdeepq2z");
        r.count("b_deep_provider_payload_runs", 1);
        if !reached {
            r.count("b_deep_provider_payload_not_logged", 1);
            continue;
        }
        let replay = rip_log::EventLog::new(store.log_path()).and_then(|l| l.replay());
        if let Err(e) = replay {
            r.violation(
                "C03/history/log_unreadable/deep_provider_payload",
                &format!(
                    "a provider event with {}-level JSON (accepted by the decoder) was logged inside a provider_event frame; \
                     EventLog::replay now fails for the whole store: {e}",
                    depth + 1
                ),
                json!({"part": "B", "case": 0, "depth": depth + 1, "error": e.to_string()}),
            );
        }
    }
}
