//! Store fixtures, router driving (real handlers via tower oneshot), SSE reading, fs helpers.

use axum::body::Body;
use axum::http::{Request, StatusCode};
use axum::Router;
use futures_util::StreamExt;
use http_body_util::BodyExt;
use ripd::verif_export::OpenResponsesConfig;
use ripd::{ContinuityStore, SessionEngine};
use serde_json::Value;
use sha2::{Digest, Sha256};
use std::collections::BTreeMap;
use std::path::{Path, PathBuf};
use std::sync::atomic::{AtomicU64, Ordering};
use std::sync::Arc;
use std::time::Duration;
use tower::ServiceExt;

static NEXT_DIR: AtomicU64 = AtomicU64::new(0);

pub fn scratch_root() -> PathBuf {
    let base = std::env::var("RV_TMPDIR")
        .ok()
        .or_else(|| std::env::var("TMPDIR").ok())
        .unwrap_or_else(|| "/tmp".to_string());
    let p = PathBuf::from(base).join(format!("rv-{}", std::process::id()));
    let _ = std::fs::create_dir_all(&p);
    p
}

/// Process-global isolation of rip's config discovery (no global config is ever picked up).
pub fn isolate_env() {
    let cfg_home = scratch_root().join("empty-config-home");
    let _ = std::fs::create_dir_all(&cfg_home);
    std::env::set_var("RIP_CONFIG_HOME", &cfg_home);
    for k in [
        "RIP_CONFIG",
        "RIP_OPENRESPONSES_ENDPOINT",
        "RIP_OPENRESPONSES_API_KEY",
        "RIP_OPENRESPONSES_MODEL",
        "RIP_OPENRESPONSES_TOOL_CHOICE",
        "RIP_OPENRESPONSES_STATELESS_HISTORY",
        "RIP_OPENRESPONSES_PARALLEL_TOOL_CALLS",
        "RIP_OPENRESPONSES_FOLLOWUP_USER_MESSAGE",
        "RIP_OPENRESPONSES_DUMP_REQUEST",
        "OPENAI_API_KEY",
        "OPENROUTER_API_KEY",
        "RIP_DATA_DIR",
        "RIP_WORKSPACE_ROOT",
    ] {
        std::env::remove_var(k);
    }
}

pub fn cleanup_scratch() {
    let _ = std::fs::remove_dir_all(scratch_root());
}

/// A temp store: `<dir>/data` and `<dir>/ws`. Removed on drop unless `keep`.
pub struct Store {
    pub dir: PathBuf,
    pub data: PathBuf,
    pub ws: PathBuf,
    pub keep: bool,
}

impl Store {
    pub fn new(tag: &str) -> Store {
        let n = NEXT_DIR.fetch_add(1, Ordering::Relaxed);
        let dir = scratch_root().join(format!("{tag}-{n}"));
        let _ = std::fs::remove_dir_all(&dir);
        let data = dir.join("data");
        let ws = dir.join("ws");
        std::fs::create_dir_all(&data).expect("mk data");
        std::fs::create_dir_all(&ws).expect("mk ws");
        Store {
            dir,
            data,
            ws,
            keep: false,
        }
    }

    /// Wrap an existing directory (e.g. a crash image) without owning it.
    pub fn at(dir: &Path, keep: bool) -> Store {
        Store {
            dir: dir.to_path_buf(),
            data: dir.join("data"),
            ws: dir.join("ws"),
            keep,
        }
    }

    pub fn log_path(&self) -> PathBuf {
        self.data.join("events.jsonl")
    }

    pub fn log_bytes(&self) -> Vec<u8> {
        std::fs::read(self.log_path()).unwrap_or_default()
    }

    /// Like `log_bytes`, but when the file does not end with a newline it is re-read for up to a second: a
    /// reader has no atomicity guarantee against a write(2) in progress, and only an unterminated tail that
    /// persists says something about the writer.
    pub fn log_bytes_settled(&self) -> Vec<u8> {
        let mut b = self.log_bytes();
        for _ in 0..40 {
            if b.is_empty() || b.last() == Some(&b'\n') {
                break;
            }
            std::thread::sleep(std::time::Duration::from_millis(25));
            b = self.log_bytes();
        }
        b
    }

    pub fn streams_dir(&self) -> PathBuf {
        self.data.join("continuity_streams")
    }

    /// Copy only `data/` to a fresh temp store that shares this store's workspace directory
    /// (for read-mostly use; the shared workspace outlives the fork only if `self` does).
    pub fn fork_sharing_ws(&self, tag: &str) -> Store {
        let n = NEXT_DIR.fetch_add(1, Ordering::Relaxed);
        let dir = scratch_root().join(format!("{tag}-{n}"));
        let _ = std::fs::remove_dir_all(&dir);
        let data = dir.join("data");
        std::fs::create_dir_all(&data).expect("mk data");
        copy_dir(&self.data, &data);
        Store { dir, data, ws: self.ws.clone(), keep: false }
    }

    /// Copy this store (data + ws) to a fresh temp store.
    pub fn fork(&self, tag: &str) -> Store {
        let s = Store::new(tag);
        copy_dir(&self.data, &s.data);
        copy_dir(&self.ws, &s.ws);
        s
    }
}

impl Drop for Store {
    fn drop(&mut self) {
        if !self.keep {
            let _ = std::fs::remove_dir_all(&self.dir);
        }
    }
}

pub fn copy_dir(src: &Path, dst: &Path) {
    let _ = std::fs::create_dir_all(dst);
    let Ok(rd) = std::fs::read_dir(src) else {
        return;
    };
    for e in rd.flatten() {
        let p = e.path();
        let d = dst.join(e.file_name());
        match e.file_type() {
            Ok(t) if t.is_dir() => copy_dir(&p, &d),
            Ok(t) if t.is_file() => {
                let _ = std::fs::copy(&p, &d);
            }
            _ => {}
        }
    }
}

/// path (relative) -> (kind, bytes-hash, len) for a whole tree.
pub fn tree_manifest(root: &Path) -> BTreeMap<String, (char, String, u64)> {
    let mut out = BTreeMap::new();
    fn walk(base: &Path, p: &Path, out: &mut BTreeMap<String, (char, String, u64)>) {
        let Ok(rd) = std::fs::read_dir(p) else {
            return;
        };
        for e in rd.flatten() {
            let path = e.path();
            let rel = path.strip_prefix(base).unwrap_or(&path).to_string_lossy().to_string();
            let Ok(md) = std::fs::symlink_metadata(&path) else {
                continue;
            };
            if md.is_dir() {
                out.insert(rel, ('d', String::new(), 0));
                walk(base, &path, out);
            } else if md.is_file() {
                let bytes = std::fs::read(&path).unwrap_or_default();
                out.insert(rel, ('f', sha256_hex(&bytes), bytes.len() as u64));
            } else {
                out.insert(rel, ('o', String::new(), 0));
            }
        }
    }
    walk(root, root, &mut out);
    out
}

/// path (relative) -> bytes for all regular files under root (optionally skipping a top dir).
pub fn tree_bytes(root: &Path, skip_top: &[&str]) -> BTreeMap<String, Vec<u8>> {
    let mut out = BTreeMap::new();
    fn walk(base: &Path, p: &Path, skip_top: &[&str], out: &mut BTreeMap<String, Vec<u8>>) {
        let Ok(rd) = std::fs::read_dir(p) else {
            return;
        };
        for e in rd.flatten() {
            let path = e.path();
            let rel = path.strip_prefix(base).unwrap_or(&path).to_string_lossy().to_string();
            if p == base && skip_top.iter().any(|s| *s == rel) {
                continue;
            }
            let Ok(md) = std::fs::symlink_metadata(&path) else {
                continue;
            };
            if md.is_dir() {
                walk(base, &path, skip_top, out);
            } else if md.is_file() {
                out.insert(rel, std::fs::read(&path).unwrap_or_default());
            }
        }
    }
    walk(root, root, skip_top, &mut out);
    out
}

pub fn sha256_hex(bytes: &[u8]) -> String {
    let mut h = Sha256::new();
    h.update(bytes);
    hex::encode(h.finalize())
}

pub fn runtime(workers: usize) -> tokio::runtime::Runtime {
    tokio::runtime::Builder::new_multi_thread()
        .worker_threads(workers.max(2))
        .max_blocking_threads(64)
        .enable_all()
        .build()
        .expect("tokio runtime")
}

/// The real router + a handle on its engine.
#[derive(Clone)]
pub struct App {
    pub router: Router,
    pub engine: Arc<SessionEngine>,
}

impl App {
    pub fn open(store: &Store, provider: Option<OpenResponsesConfig>) -> Result<App, String> {
        let (router, engine) =
            ripd::verif_export::build_app(store.data.clone(), store.ws.clone(), provider, false)?;
        Ok(App { router, engine })
    }

    pub fn store(&self) -> Arc<ContinuityStore> {
        self.engine.continuities()
    }

    pub async fn call(&self, method: &str, path: &str, body: Option<&Value>) -> (u16, Vec<u8>) {
        let mut b = Request::builder().method(method).uri(path);
        let body = match body {
            Some(v) => {
                b = b.header("content-type", "application/json");
                Body::from(serde_json::to_vec(v).unwrap_or_default())
            }
            None => Body::empty(),
        };
        let req = b.body(body).expect("request");
        let resp = match self.router.clone().oneshot(req).await {
            Ok(r) => r,
            Err(_) => return (0, Vec::new()),
        };
        let status = resp.status().as_u16();
        let bytes = resp
            .into_body()
            .collect()
            .await
            .map(|c| c.to_bytes().to_vec())
            .unwrap_or_default();
        (status, bytes)
    }

    pub async fn call_raw(&self, method: &str, path: &str, ctype: &str, body: Vec<u8>) -> (u16, Vec<u8>) {
        let req = Request::builder()
            .method(method)
            .uri(path)
            .header("content-type", ctype)
            .body(Body::from(body))
            .expect("request");
        let resp = match self.router.clone().oneshot(req).await {
            Ok(r) => r,
            Err(_) => return (0, Vec::new()),
        };
        let status = resp.status().as_u16();
        let bytes = resp
            .into_body()
            .collect()
            .await
            .map(|c| c.to_bytes().to_vec())
            .unwrap_or_default();
        (status, bytes)
    }

    pub async fn json(&self, method: &str, path: &str, body: Option<&Value>) -> (u16, Value) {
        let (s, b) = self.call(method, path, body).await;
        let v = serde_json::from_slice(&b).unwrap_or(Value::Null);
        (s, v)
    }

    /// Open an SSE GET; returns status and (when 200) a reader over `data:` payloads.
    pub async fn sse(&self, path: &str) -> (u16, Option<SseReader>) {
        let req = Request::builder()
            .method("GET")
            .uri(path)
            .body(Body::empty())
            .expect("request");
        let resp = match self.router.clone().oneshot(req).await {
            Ok(r) => r,
            Err(_) => return (0, None),
        };
        let status = resp.status();
        if status != StatusCode::OK {
            return (status.as_u16(), None);
        }
        let stream = resp.into_body().into_data_stream();
        (
            200,
            Some(SseReader {
                stream: Box::pin(stream),
                buf: Vec::new(),
                raw_bytes: 0,
                ended: false,
            }),
        )
    }
}

type ByteStream = std::pin::Pin<
    Box<dyn futures_util::Stream<Item = Result<axum::body::Bytes, axum::Error>> + Send>,
>;

pub struct SseReader {
    stream: ByteStream,
    buf: Vec<u8>,
    pub raw_bytes: u64,
    /// the server ended the response body (not a read timeout)
    pub ended: bool,
}

impl SseReader {
    /// Next `data:` payload (joined data lines of one event); None on end of stream or timeout.
    pub async fn next_data(&mut self, timeout: Duration) -> Option<String> {
        loop {
            // complete event in buffer?
            if let Some(pos) = find_double_newline(&self.buf) {
                let block: Vec<u8> = self.buf.drain(..pos.0).collect();
                self.buf.drain(..pos.1);
                let text = String::from_utf8_lossy(&block).to_string();
                let mut data: Vec<String> = Vec::new();
                for line in text.split('\n') {
                    let line = line.strip_suffix('\r').unwrap_or(line);
                    if let Some(rest) = line.strip_prefix("data:") {
                        data.push(rest.strip_prefix(' ').unwrap_or(rest).to_string());
                    }
                }
                if data.is_empty() {
                    continue; // comment / keep-alive
                }
                return Some(data.join("\n"));
            }
            match tokio::time::timeout(timeout, self.stream.next()).await {
                Ok(Some(Ok(chunk))) => {
                    self.raw_bytes += chunk.len() as u64;
                    self.buf.extend_from_slice(&chunk);
                }
                Ok(Some(Err(_))) | Ok(None) => {
                    self.ended = true;
                    return None;
                }
                Err(_) => return None,
            }
        }
    }

    pub async fn next_json(&mut self, timeout: Duration) -> Option<Value> {
        let d = self.next_data(timeout).await?;
        serde_json::from_str(&d).ok()
    }
}

fn find_double_newline(buf: &[u8]) -> Option<(usize, usize)> {
    // returns (end of block, length of separator)
    let mut i = 0;
    while i + 1 < buf.len() {
        if buf[i] == b'\n' && buf[i + 1] == b'\n' {
            return Some((i, 2));
        }
        if i + 3 < buf.len() && &buf[i..i + 4] == b"\r\n\r\n" {
            return Some((i, 4));
        }
        i += 1;
    }
    None
}

/// Poll `f` until it returns Some or the timeout elapses.
pub async fn wait_for<T>(timeout: Duration, mut f: impl FnMut() -> Option<T>) -> Option<T> {
    let start = std::time::Instant::now();
    loop {
        if let Some(v) = f() {
            return Some(v);
        }
        if start.elapsed() > timeout {
            return None;
        }
        tokio::time::sleep(Duration::from_millis(2)).await;
    }
}
